#!/usr/bin/env python
"""
Differential demonstration for property C06 (cassette images round-trip).

Usage:  python equiv.py <treeA> <treeB>

Runs the same battery of cases against the code of both trees (one
subprocess per tree, tree at the front of sys.path and used as cwd) and
compares every observable result: emitted tape bytes, files listed back,
return values of the individual reader/writer methods, the state of the
container buffer after an exception, exception type and message, stdout /
exit code of both command line tools and the bytes of the files they write.

Exit status 0 when everything agrees, 1 otherwise.
"""
import hashlib
import json
import os
import subprocess
import sys
import tempfile

# --------------------------------------------------------------------------
# D R I V E R  (runs inside one tree)
# --------------------------------------------------------------------------


def driver(tree, out_path):
    import contextlib
    import io
    import random
    import shutil

    tree = os.path.realpath(tree)
    sys.path.insert(0, tree)
    os.chdir(tree)

    import cocoasm
    assert os.path.realpath(cocoasm.__file__).startswith(tree + os.sep), cocoasm.__file__

    from cocoasm.values import NumericValue, NoneValue
    from cocoasm.virtualfiles.cassette import CassetteFile
    from cocoasm.virtualfiles.coco_file import CoCoFile
    from cocoasm.virtualfiles.virtual_file_container import VirtualFileContainer
    from cocoasm.virtualfiles.virtual_file import VirtualFile, VirtualFileType
    from cocoasm.virtualfiles.source_file import SourceFile, SourceFileType

    results = {}

    def blob(seq):
        """Compact but exact representation of a buffer-like object."""
        try:
            text = repr(list(seq))
        except Exception as error:  # pragma: no cover
            text = "unlistable {!r} {!r}".format(type(seq).__name__, error)
        if len(text) <= 400:
            return {"t": type(seq).__name__, "r": text}
        return {
            "t": type(seq).__name__,
            "n": len(seq),
            "sha": hashlib.sha256(text.encode("utf-8", "backslashreplace")).hexdigest(),
            "head": text[:120],
            "tail": text[-120:],
        }

    def value(val):
        if val is None:
            return None
        try:
            return {
                "cls": type(val).__name__,
                "int": val.int,
                "neg": val.negative,
                "hint": val.size_hint,
                "hex": val.hex(),
                "hex4": val.hex(size=4),
                "hi": val.high_byte(),
                "lo": val.low_byte(),
            }
        except Exception as error:
            return {"cls": type(val).__name__, "err": repr(error)}

    def coco(file):
        if file is None:
            return None
        try:
            text = str(file)
        except Exception as error:
            text = "EXC " + type(error).__name__ + ": " + str(error)
        return {
            "name": file.name,
            "extension": file.extension,
            "type": value(file.type),
            "load": value(file.load_addr),
            "exec": value(file.exec_addr),
            "data_type": value(file.data_type),
            "gaps": value(file.gaps),
            "ascii": file.ascii,
            "data": blob(file.data),
            "ignore_gaps": file.ignore_gaps,
            "str": text,
        }

    def generic(obj):
        if isinstance(obj, CoCoFile):
            return coco(obj)
        if isinstance(obj, (NumericValue, NoneValue)):
            return value(obj)
        if isinstance(obj, tuple):
            return {"tuple": [generic(x) for x in obj]}
        if isinstance(obj, list):
            if obj and all(isinstance(x, CoCoFile) for x in obj):
                return {"files": [coco(x) for x in obj]}
            return blob(obj)
        if isinstance(obj, (bytes, bytearray)):
            return blob(obj)
        if obj is None or isinstance(obj, (int, str, bool, float)):
            return obj
        return repr(obj)

    def record(name, func, container=None):
        """Run func, remember its result or its exception and the container buffer."""
        assert name not in results, name
        entry = {}
        try:
            entry["result"] = generic(func())
        except BaseException as error:  # noqa
            entry["exc"] = type(error).__name__
            entry["msg"] = str(error)
        if container is not None:
            entry["buffer"] = blob(container.buffer)
            entry["original"] = blob(container.original_buffer)
        results[name] = entry

    rng = random.Random(0xC06)

    def nv(number, **kwargs):
        return NumericValue(number, **kwargs)

    def make_file(name="FILE", data=(), ftype=2, dtype=0, load=0x0E00, execa=0x0E00, **extra):
        return CoCoFile(
            name=name, extension="BIN", type=nv(ftype), data_type=nv(dtype),
            load_addr=nv(load), exec_addr=nv(execa), data=data, **extra
        )

    def content(kind, length):
        if kind == "random":
            return [rng.randrange(256) for _ in range(length)]
        if kind == "sync":
            return [0x55] * length
        if kind == "marker":
            return [0x3C] * length
        if kind == "zero":
            return [0x00] * length
        if kind == "ff":
            return [0xFF] * length
        patterns = {
            "hdr": [0x55, 0x3C, 0x00],
            "dat": [0x55, 0x3C, 0x01, 0x02, 0xAA, 0xBB],
            "eof": [0x55, 0x3C, 0xFF, 0x00, 0xFF, 0x55],
            "bad": [0x55, 0x3C, 0x02],
            "mix": [0x55, 0x55, 0x3C, 0x3C, 0x00, 0x01, 0xFF],
        }
        pattern = patterns[kind]
        return [pattern[i % len(pattern)] for i in range(length)]

    # ---------------------------------------------------------------- A
    # write with the tool, read the result back
    lengths = [0, 1, 2, 3, 127, 128, 254, 255, 256, 257, 509, 510, 511, 512,
               764, 765, 766, 1020, 1275, 4096, 65535]
    kinds = ["random", "sync", "marker", "zero", "ff", "hdr", "dat", "eof", "bad", "mix"]
    names = ["", "A", "AB", "ABCDEFG", "ABCDEFGH", "ABCDEFGHI", "ABCDEFGHIJKL", "lower",
             "MiXeD", "a.b", "~!@#$%^&", "12345678", "x" * 12]
    addresses = [0, 1, 0x7F, 0x80, 0xFF, 0x100, 0x0E00, 0x7FFF, 0x8000, 0xFFFE, 0xFFFF, 0x553C, 0x3C00]

    def roundtrip(tag, files, filenames=None):
        writer = CassetteFile()
        record(tag + "/write", lambda: writer.add_files(files), writer)
        record(tag + "/get_buffer", lambda: writer.get_buffer() is writer.buffer)
        record(tag + "/relist-writer", lambda: writer.list_files(), writer)
        try:
            image = list(writer.get_buffer())
        except Exception:
            return
        reader = CassetteFile(buffer=image)
        record(tag + "/list", lambda: reader.list_files(), reader)
        if filenames is not None:
            record(tag + "/list-filter", lambda: reader.list_files(filenames=filenames), reader)
        # image as written to disk
        record(tag + "/bytes", lambda: blob(bytearray(image)))

    case = 0
    for length in lengths:
        for kind in (kinds if length in (1, 255, 256, 510, 511) else rng.sample(kinds, 3)):
            case += 1
            file = make_file(
                name=names[case % len(names)], data=content(kind, length),
                ftype=case % 4, dtype=(0xFF if case % 3 == 0 else 0x00),
                load=addresses[case % len(addresses)], execa=addresses[(case * 7 + 3) % len(addresses)],
            )
            roundtrip("A1/len{}-{}-{}".format(length, kind, case), [file])

    for count in [0, 1, 2, 3, 5, 8]:
        for attempt in range(3):
            files = []
            for position in range(count):
                length = rng.choice([1, 2, 254, 255, 256, 510, 511, 700, rng.randrange(1, 1500)])
                files.append(make_file(
                    name=rng.choice(names), data=content(rng.choice(kinds), length),
                    ftype=rng.randrange(4), dtype=rng.choice([0, 0xFF]),
                    load=rng.choice(addresses), execa=rng.randrange(65536),
                ))
            wanted = [f.name for f in files[::2]] + ["ABCDEFGH", "FILE    "]
            roundtrip("A2/count{}-{}".format(count, attempt), files, filenames=wanted)

    # a list with an empty file in front / middle / end
    for where in range(4):
        files = [make_file(name="F{}".format(i), data=content("random", 10 + i)) for i in range(3)]
        files.insert(where, make_file(name="EMPTY", data=[]))
        roundtrip("A3/empty-at-{}".format(where), files, filenames=["F0      ", "F2      "])

    # different container types for the data
    for ctor in (list, tuple, bytes, bytearray, lambda x: range(len(x))):
        for length in (0, 5, 254, 255, 256, 600):
            data = ctor(content("random", length))
            roundtrip("A4/{}-{}".format(type(data).__name__, length), [make_file(data=data)])

    # default / odd header fields
    odd_files = {
        "defaults": CoCoFile(),
        "defaults-data": CoCoFile(data=[1, 2, 3]),
        "name-only": CoCoFile(name="ONLYNAME", data=[9]),
        "none-name": make_file(name=None, data=[1]),
        "int-name": make_file(name=1234, data=[1]),
        "bytes-name": make_file(name=b"BYTES", data=[1]),
        "list-name": make_file(name=["L", "I", "S", "T"], data=[1]),
        "unicode-name": make_file(name="café", data=[1]),
        "wide-name": make_file(name="日本", data=[1]),
        "none-type": CoCoFile(name="X", type=None, data=[1]),
        "none-dtype": CoCoFile(name="X", type=nv(2), data_type=None, data=[1]),
        "none-load": CoCoFile(name="X", type=nv(2), data_type=nv(0), load_addr=None, data=[1]),
        "none-exec": CoCoFile(name="X", type=nv(2), data_type=nv(0), load_addr=nv(1), exec_addr=None, data=[1]),
        "none-data": CoCoFile(name="X", type=nv(2), data_type=nv(0), load_addr=nv(1), exec_addr=nv(2), data=None),
        "str-load": CoCoFile(name="X", type=nv(2), data_type=nv(0), load_addr=nv("$0E00"),
                             exec_addr=nv("$E"), data=[1]),
        "neg-load": CoCoFile(name="X", type=nv(2), data_type=nv(0), load_addr=nv(-1),
                             exec_addr=nv(-300), data=[1]),
        "hint4": CoCoFile(name="X", type=nv(2, size_hint=4), data_type=nv(0xFF, size_hint=4),
                          load_addr=nv(5, size_hint=4), exec_addr=nv(6, size_hint=2), data=[1]),
        "big-type": CoCoFile(name="X", type=nv(0x1234), data_type=nv(0x4321), load_addr=nv(1),
                             exec_addr=nv(2), data=[1]),
        "gaps-ff": make_file(name="GAPPY", data=[1, 2], gaps=nv(0xFF)),
        "str-data": make_file(data="text"),
        "bad-item-none": make_file(data=[1, 2, None, 4]),
        "bad-item-str": make_file(data=[1, "a", 3]),
        "bad-item-float": make_file(data=[1, 2.5, 3]),
        "bad-item-big": make_file(data=[1, 300, 3]),
        "bad-item-neg": make_file(data=[1, -1, 3]),
        "bad-item-late": make_file(data=content("random", 300) + [None] + content("random", 20)),
        "bad-item-255": make_file(data=content("random", 255) + ["z"]),
    }
    for tag, file in odd_files.items():
        roundtrip("A5/" + tag, [make_file(name="BEFORE", data=[7, 7]), file, make_file(name="AFTER", data=[8])])

    # ---------------------------------------------------------------- B
    # individual writer methods (return value + buffer afterwards)
    for index, name in enumerate(names + [None, 42, b"AB", ["A", "B"], ("Q",), "café", "日本語",
                                          "\x00\x01", " lead", "trail ", "TAB\tX", ["AB", "C"], [1, 2]]):
        for prefix in ([], [1, 2, 3]):
            container = CassetteFile(buffer=list(prefix))
            record("B1/append_name-{}-{}".format(index, len(prefix)), lambda: container.append_name(name), container)

    for length in [0, 1, 2, 253, 254, 255, 256, 509, 510, 511, 765, 1021]:
        for gaps in (False, True, None):
            for kind in ("random", "eof"):
                data = content(kind, length)
                container = CassetteFile(buffer=[0xAA])
                if gaps is None:
                    record("B2/blocks-{}-default-{}".format(length, kind),
                           lambda: container.append_data_blocks(data), container)
                else:
                    record("B2/blocks-{}-{}-{}".format(length, gaps, kind),
                           lambda: container.append_data_blocks(data, gaps=gaps), container)
    for position in [0, 1, 100, 253, 254, 255, 256, 300, 509, 510]:
        for bad in (None, "a", 2.5, 300, -1, [1], b"x"):
            data = content("random", 520)
            data[position] = bad
            for gaps in (False, True):
                container = CassetteFile()
                record("B3/bad-{}-{!r}-{}".format(position, bad, gaps),
                       lambda: container.append_data_blocks(data, gaps=gaps), container)
    for data in (None, 5, "", "abc", b"", b"abc", (), (1, 2), {0: 1, 1: 2}, range(3), {1, 2}):
        container = CassetteFile()
        record("B4/blocks-arg-{!r}".format(data), lambda: container.append_data_blocks(data), container)

    for tag, file in odd_files.items():
        container = CassetteFile(buffer=[0x11, 0x22])
        record("B5/append_header-" + tag, lambda: container.append_header(file), container)
        container = CassetteFile()
        record("B5/add_file-" + tag, lambda: container.add_file(file), container)
    for index in range(40):
        file = make_file(
            name=rng.choice(names), ftype=rng.randrange(256), dtype=rng.randrange(256),
            load=rng.randrange(65536), execa=rng.randrange(65536), data=[index],
        )
        container = CassetteFile()
        record("B6/append_header-{}".format(index), lambda: container.append_header(file), container)
    for method in ("append_eof", "append_leader", "append_blank"):
        for prefix in ([], [9, 9]):
            container = CassetteFile(buffer=list(prefix))
            record("B7/{}-{}".format(method, len(prefix)), lambda: getattr(container, method)(), container)
            record("B7/{}-{}-twice".format(method, len(prefix)), lambda: getattr(container, method)(), container)
    container = CassetteFile(buffer=b"\x01\x02")
    record("B8/append_eof-bytes-buffer", lambda: container.append_eof(), container)
    container = CassetteFile(buffer=bytearray(b"\x01\x02"))
    record("B8/add_file-bytearray-buffer", lambda: container.add_file(make_file(data=[1, 2, 3])), container)
    record("B8/list-bytearray-buffer", lambda: container.list_files(), container)
    container = CassetteFile(buffer=(1, 2))
    record("B8/append_leader-tuple-buffer", lambda: container.append_leader(), container)
    container = CassetteFile(buffer=(1, 2))
    record("B8/append_header-tuple-buffer", lambda: container.append_header(make_file()), container)
    container = CassetteFile(buffer=(1, 2))
    record("B8/append_blocks-tuple-buffer", lambda: container.append_data_blocks([1]), container)
    # constructor semantics
    for initial in (None, [], [1, 2], b"", b"ab", (), 0):
        container = None
        try:
            container = CassetteFile(buffer=initial)
        except Exception as error:
            results["B9/ctor-{!r}".format(initial)] = {"exc": type(error).__name__, "msg": str(error)}
            continue
        record("B9/ctor-{!r}".format(initial),
               lambda: (container.buffer is initial, container.get_buffer() is container.buffer), container)

    # ---------------------------------------------------------------- C
    # reader primitives
    haystacks = {
        "empty": [],
        "one": [0x55],
        "pair": [0x55, 0x3C],
        "triple": [0x55, 0x3C, 0x00],
        "mixed": [0x01, 0x55, 0x55, 0x3C, 0x01, 0x55, 0x3C, 0x00, 0x55, 0x3C],
        "tail": [0x00] * 10 + [0x55, 0x3C],
        "bytes": bytes([0x55, 0x3C, 0x00, 0x55, 0x3C]),
        "bytearray": bytearray([0x01, 0x55, 0x3C, 0x00]),
        "tuple": (0x55, 0x3C, 0x00),
    }
    needles = [[], [0x55], [0x3C], [0x55, 0x3C], [0x55, 0x3C, 0x00], [0x55, 0x3C, 0x01], [0x99],
               [0x55, 0x3C, 0x00, 0x55, 0x3C, 0x00], (0x55, 0x3C), bytes([0x55, 0x3C]), bytearray([0x55, 0x3C]),
               [0x00] * 10, None, 5]
    for hay_name, hay in haystacks.items():
        container = CassetteFile(buffer=hay)
        for needle_index, needle in enumerate(needles):
            record("C1/skip-{}-{}-default".format(hay_name, needle_index),
                   lambda: container.skip_to_sequence(needle), container)
            for start in (-3, -1, 0, 1, 2, 4, 5, 8, 9, 10, 11, 12, 50):
                record("C1/skip-{}-{}-{}".format(hay_name, needle_index, start),
                       lambda: container.skip_to_sequence(needle, start=start), container)
        record("C1/skip-{}-positional".format(hay_name), lambda: container.skip_to_sequence([0x3C], 1), container)

    name_buffers = {
        "ascii": [0x41, 0x42, 0x43, 0x44, 0x45, 0x46, 0x47, 0x48, 0x49, 0x4A],
        "short": [0x41, 0x42, 0x43],
        "exact": [0x61] * 8,
        "nul": [0x00] * 9,
        "latin": [0x41, 0xE9, 0x42, 0x43, 0x44, 0x45, 0x46, 0x47, 0x48],
        "utf8": [0xC3, 0xA9, 0x41, 0x42, 0x43, 0x44, 0x45, 0x46, 0x47],
        "split": [0x41, 0x42, 0x43, 0x44, 0x45, 0x46, 0x47, 0xC3, 0xA9],
        "wide": [0x41, 300, 0x42, 0x43, 0x44, 0x45, 0x46, 0x47],
        "neg": [0x41, -1, 0x42, 0x43, 0x44, 0x45, 0x46, 0x47],
        "str": ["A", "B", "C", "D", "E", "F", "G", "H"],
        "none": [None] * 8,
        "float": [65.0] * 8,
        "bytes": b"ABCDEFGHIJ",
        "bytearray": bytearray(b"ABCDEFGHIJ"),
        "tuple": tuple(b"ABCDEFGHIJ"),
    }
    for tag, raw in name_buffers.items():
        container = CassetteFile(buffer=raw)
        for pointer in (-10, -9, -8, -3, -1, 0, 1, 2, 3, 8, 9, 10, 100):
            record("C2/name-{}-{}".format(tag, pointer), lambda: container.read_coco_file_name(pointer), container)

    word_buffers = {
        "empty": [],
        "one": [0x12],
        "two": [0x12, 0x34],
        "three": [0x12, 0x34, 0x56],
        "ten": [0x00, 0xFF, 0x80, 0x7F, 0x01, 0x00, 0xFF, 0xFF, 0x55, 0x3C],
        "wide": [0x100, 0x34, 0x1FF, 0xFFFF],
        "neg": [-1, 0x34, -2],
        "str": ["12", "34", "x"],
        "float": [1.9, 2.1, 3.0],
        "none": [None, 1, None],
        "bool": [True, False, True],
        "bytes": b"\x12\x34\x56",
        "bytearray": bytearray(b"\x12\x34\x56"),
        "tuple": (0x12, 0x34, 0x56),
    }
    for tag, raw in word_buffers.items():
        for cls in (CassetteFile, VirtualFileContainer):
            container = cls(buffer=raw)
            for pointer in (-11, -10, -4, -3, -2, -1, 0, 1, 2, 3, 7, 8, 9, 10, 11, 1000):
                record("C3/word-{}-{}-{}".format(cls.__name__, tag, pointer),
                       lambda: container.read_word(pointer), container)
    container = CassetteFile(buffer=[1, 2, 3])
    record("C3/word-keyword", lambda: container.read_word(pointer=1), container)
    record("C3/word-none", lambda: container.read_word(None), container)
    record("C3/word-str", lambda: container.read_word("1"), container)
    record("C3/word-float", lambda: container.read_word(1.0), container)

    # hand built tapes
    def header_block(name=b"HANDMADE", ftype=2, dtype=0, gap=0, load=0x1234, execa=0x5678, length=0x0F, trailer=0x55):
        body = [0x00, length] + list(name) + [ftype, dtype, gap, load >> 8, load & 0xFF, execa >> 8, execa & 0xFF]
        return [0x55, 0x3C] + body + [sum(body) & 0xFF, trailer]

    def data_block(data, btype=0x01, trailer=0x55):
        body = [btype, len(data)] + list(data)
        return [0x55, 0x3C] + body + [sum(body) & 0xFF, trailer]

    def eof_block():
        return [0x55, 0x3C, 0xFF, 0x00, 0xFF, 0x55]

    def leader(length):
        return [0x55] * length

    def blank(length):
        return [0x00] * length

    tapes = {}
    for lead in (0, 1, 2, 3, 64, 128, 129, 300):
        tapes["lead{}".format(lead)] = (
            leader(lead) + header_block() + leader(lead) + data_block([1, 2, 3]) + eof_block()
        )
        tapes["lead{}-blank".format(lead)] = (
            blank(lead) + leader(lead) + header_block() + blank(lead) + leader(lead)
            + data_block(content("random", 255)) + data_block(content("eof", 17)) + eof_block() + blank(lead)
        )
        tapes["lead{}-gaps".format(lead)] = (
            leader(lead) + header_block(gap=0xFF) + blank(lead) + leader(lead)
            + data_block(content("hdr", 255)) + blank(lead) + leader(lead)
            + data_block(content("dat", 255)) + blank(lead) + leader(lead)
            + data_block(content("random", 9)) + blank(lead) + leader(lead) + eof_block()
        )
    tapes["three-files"] = (
        leader(128) + header_block(b"FIRST   ", 0, 0xFF) + leader(128) + data_block(b"10 PRINT") + eof_block()
        + blank(5) + leader(7) + header_block(b"SECOND  ", 1, 0xFF, load=0, execa=0) + leader(3)
        + data_block(content("sync", 255)) + data_block(content("marker", 255)) + data_block([0x55]) + eof_block()
        + leader(128) + header_block(b"third   ", 2, 0, load=0xFFFF, execa=0xFFFF) + data_block([0x3C]) + eof_block()
    )
    tapes["zero-length-block"] = header_block() + data_block([]) + data_block([5]) + eof_block()
    tapes["only-zero-length-block"] = header_block() + data_block([]) + eof_block() + header_block(b"NEXT    ") \
        + data_block([1]) + eof_block()
    tapes["no-data"] = header_block() + eof_block() + header_block(b"NEXT    ") + data_block([1]) + eof_block()
    tapes["no-eof"] = leader(10) + header_block() + data_block([1, 2, 3])
    tapes["no-blocks"] = leader(10) + header_block()
    tapes["header-only-then-junk"] = header_block() + [0x01, 0x02, 0x03] * 10
    tapes["unknown-type-02"] = header_block() + data_block([1, 2], btype=0x02) + eof_block()
    tapes["unknown-type-7f"] = header_block() + data_block([1, 2], btype=0x7F) + eof_block()
    tapes["header-as-block"] = header_block() + header_block(b"NESTED  ") + data_block([1]) + eof_block()
    tapes["junk-between"] = (
        [0x12, 0x34] + header_block() + [0x99] * 5 + data_block([1, 2]) + [0x3C, 0x3C] + data_block([3]) + [0x77]
        + eof_block() + [0x55, 0x3C]
    )
    tapes["odd-length-byte"] = header_block(length=0x20) + data_block([1]) + eof_block()
    tapes["odd-trailers"] = header_block(trailer=0x00) + data_block([1, 2], trailer=0xAA) + eof_block()
    tapes["bad-name"] = header_block(name=[0x41, 0xE9, 0x42, 0x43, 0x44, 0x45, 0x46, 0x47]) + data_block([1]) \
        + eof_block()
    tapes["nul-name"] = header_block(name=[0x41, 0x42, 0, 0, 0, 0, 0, 0]) + data_block([1]) + eof_block()
    tapes["type3"] = header_block(ftype=3, dtype=0xFF, gap=0xFF) + data_block([1]) + eof_block()
    tapes["type-ff"] = header_block(ftype=0xFF, dtype=0x01, gap=0x01) + data_block([1]) + eof_block()
    tapes["length-overrun"] = header_block() + [0x55, 0x3C, 0x01, 0x10, 1, 2, 3]
    tapes["length-overrun-eof-inside"] = header_block() + [0x55, 0x3C, 0x01, 0x08] + eof_block() + [0, 0] \
        + [0x00, 0x55] + eof_block()
    tapes["eof-truncated"] = header_block() + data_block([1]) + [0x55, 0x3C, 0xFF]
    tapes["marker-at-end"] = header_block() + data_block([1]) + [0x55, 0x3C]
    tapes["wide-items"] = header_block() + [0x55, 0x3C, 0x01, 0x02, 300, -1, 0x00, 0x55] + eof_block()
    tapes["minus-one-type"] = header_block() + data_block([4]) + [0x55, 0x3C, -1, 0x00, 0xFF, 0x55]
    tapes["big-type"] = header_block() + data_block([4]) + [0x55, 0x3C, 0x1FF, 0x00, 0xFF, 0x55]
    tapes["huge-item"] = header_block() + data_block([4]) + [0x55, 0x3C, 70000, 0x00, 0xFF, 0x55]
    tapes["str-items"] = [0x55, 0x3C, 0x00, 0x0F] + list("ABCDEFGH") + [2, 0, 0, 1, 2, 3, 4, 0, 0x55] \
        + data_block([1]) + eof_block()
    tapes["empty"] = []
    tapes["leader-only"] = leader(128)
    tapes["blank-only"] = blank(128)

    for tag, tape in tapes.items():
        for ctor in (list, tuple, bytes, bytearray):
            try:
                image = ctor(tape)
            except Exception:
                continue
            container = CassetteFile(buffer=image)
            record("C4/list-{}-{}".format(tag, ctor.__name__), lambda: container.list_files(), container)
        container = CassetteFile(buffer=list(tape))
        record("C4/filter-{}".format(tag),
               lambda: container.list_files(filenames=["HANDMADE", "SECOND  ", "NEXT    "]), container)
        record("C4/filter-empty-{}".format(tag), lambda: container.list_files(filenames=[]), container)
        for pointer in sorted({-1, 0, 1, 5, 21, 22, 150, len(tape) - 1, len(tape), len(tape) + 5}):
            record("C4/read_file-{}-{}".format(tag, pointer), lambda: container.read_file(pointer), container)
            record("C4/read_blocks-{}-{}".format(tag, pointer), lambda: container.read_blocks(pointer), container)

    # every truncation of a small tape (and of a tool-written one)
    small = leader(4) + header_block() + leader(3) + data_block([0x55, 0x3C, 0xFF, 9]) + data_block([7]) + eof_block()
    for cut in range(len(small) + 1):
        container = CassetteFile(buffer=small[:cut])
        record("C5/truncate-{}".format(cut), lambda: container.list_files(), container)
        container = CassetteFile(buffer=small[cut:])
        record("C5/behead-{}".format(cut), lambda: container.list_files(), container)
    writer = CassetteFile()
    writer.add_files([make_file(name="ONE", data=content("eof", 300)), make_file(name="TWO", data=[1, 2, 3])])
    written = list(writer.get_buffer())
    for cut in sorted(set(range(0, len(written), 37)) | set(range(len(written) - 40, len(written) + 1))):
        container = CassetteFile(buffer=written[:cut])
        record("C5/truncate-written-{}".format(cut), lambda: container.list_files(), container)

    # every single byte substitution in the interesting part of a small tape
    for position in range(len(small)):
        for replacement in (0x00, 0x01, 0x02, 0x3C, 0x55, 0xFF):
            if small[position] == replacement:
                continue
            mutated = list(small)
            mutated[position] = replacement
            container = CassetteFile(buffer=mutated)
            record("C6/mutate-{}-{:02X}".format(position, replacement), lambda: container.list_files(), container)

    # odd pointer / start arguments
    for tag in ("three-files", "empty", "no-eof"):
        container = CassetteFile(buffer=list(tapes[tag]))
        for odd_index, odd in enumerate((None, 1.5, 1.0, "1", True, [0], 10 ** 6, -10 ** 6)):
            record("C7/skip-start-{}-{}".format(tag, odd_index),
                   lambda: container.skip_to_sequence([0x55, 0x3C], start=odd), container)
            record("C7/skip-both-bad-{}-{}".format(tag, odd_index),
                   lambda: container.skip_to_sequence(None, start=odd), container)
            record("C7/read_file-{}-{}".format(tag, odd_index), lambda: container.read_file(odd), container)
            record("C7/read_blocks-{}-{}".format(tag, odd_index), lambda: container.read_blocks(odd), container)
            record("C7/read_name-{}-{}".format(tag, odd_index), lambda: container.read_coco_file_name(odd), container)
            record("C7/read_word-{}-{}".format(tag, odd_index), lambda: container.read_word(odd), container)
        record("C7/list-twice-{}".format(tag), lambda: (container.list_files() or 0, container.list_files() or 0),
               container)

    # ---------------------------------------------------------------- D
    # CoCoFile presentation
    for ftype in (None, 0, 1, 2, 3, 4, 0x10, 0xFF, 0x102, -1, -2):
        for dtype in (None, 0, 1, 0xFF, 0x1FF, -1):
            for gaps in (None, 0, 0xFF, -1):
                for ignore in (False, True, None, 0, 1):
                    kwargs = {}
                    if ftype is not None:
                        kwargs["type"] = nv(ftype)
                    if dtype is not None:
                        kwargs["data_type"] = nv(dtype)
                    if gaps is not None:
                        kwargs["gaps"] = nv(gaps)
                    file = CoCoFile(name="N{}".format(ftype), extension="E", load_addr=nv(0x0E00),
                                    exec_addr=nv(0x0E), data=[1] * 3, ignore_gaps=ignore, **kwargs)
                    record("D1/str-{}-{}-{}-{}".format(ftype, dtype, gaps, ignore), lambda: str(file))
    for tag, file in odd_files.items():
        record("D2/str-" + tag, lambda: str(file))
        record("D2/fields-" + tag, lambda: coco(file))
        record("D2/repr-" + tag, lambda: repr(file)[:60].split("<")[0])
    record("D3/defaults", lambda: coco(CoCoFile()))
    record("D3/fields", lambda: list(CoCoFile._fields))
    record("D3/field-defaults", lambda: sorted(
        (k, type(v).__name__) for k, v in CoCoFile._field_defaults.items()))
    record("D3/obj-2-no-addr", lambda: str(CoCoFile(type=nv(2))))
    record("D3/obj-2-str-fields", lambda: str(CoCoFile(name=None, extension=5, type=nv(2), load_addr=nv("$FFFF"),
                                                       exec_addr=nv(-1), data=())))
    record("D3/no-len", lambda: str(CoCoFile(type=nv(1), data=None)))
    record("D3/format", lambda: "{}|{!s}".format(CoCoFile(type=nv(3)), CoCoFile(type=nv(1), ignore_gaps=True)))

    # ---------------------------------------------------------------- E
    # VirtualFile layer and both command line tools
    work = tempfile.mkdtemp(prefix="c06-equiv-")
    try:
        os.chdir(work)

        def file_digest(path):
            if not os.path.exists(path):
                return None
            with open(path, "rb") as handle:
                payload = handle.read()
            return {"n": len(payload), "sha": hashlib.sha256(payload).hexdigest(), "head": payload[:24].hex()}

        def listing():
            return sorted(os.listdir(work))

        def run_tool(tag, script, *arguments):
            env = dict(os.environ, PYTHONDONTWRITEBYTECODE="1")
            env.pop("PYTHONPATH", None)
            proc = subprocess.run(
                [sys.executable, os.path.join(tree, script)] + list(arguments),
                cwd=work, env=env, stdout=subprocess.PIPE, stderr=subprocess.PIPE, universal_newlines=True,
            )
            results[tag] = {
                "rc": proc.returncode,
                "out": proc.stdout.replace(tree, "<TREE>"),
                "err": proc.stderr.replace(tree, "<TREE>"),
                "dir": listing(),
                "files": {name: file_digest(name) for name in listing()},
            }

        def save(path, files, append=False, vtype=VirtualFileType.CASSETTE):
            target = VirtualFile(SourceFile(path, file_type=SourceFileType.BINARY), virtual_file_type=vtype)
            target.open_virtual_file()
            for file in files:
                target.add_coco_file(file)
            target.save_virtual_file(append_mode=append)
            return file_digest(path)

        def load(path, filenames=None):
            source = VirtualFile(SourceFile(path, file_type=SourceFileType.BINARY))
            source.open_virtual_file()
            return (repr(source.virtual_file_type), source.list_files(filenames) or "nothing")

        sets = {
            "single": [make_file(name="SINGLE", data=content("random", 700))],
            "edge255": [make_file(name="EDGE255", data=content("eof", 255), ftype=0, dtype=0xFF)],
            "edge510": [make_file(name="EDGE510", data=content("hdr", 510), ftype=1, dtype=0xFF)],
            "multi": [
                make_file(name="ALPHA", data=content("random", 256), ftype=0, dtype=0xFF, load=0, execa=0),
                make_file(name="beta", data=content("sync", 511), ftype=1, dtype=0xFF, load=1, execa=2),
                make_file(name="GAMMAGAMMA", data=content("eof", 765), ftype=2, dtype=0, load=0x3F00, execa=0x3F10),
                make_file(name="D", data=[0x3C], ftype=3, dtype=0, load=0xFFFF, execa=0xFFFF),
            ],
            "withempty": [make_file(name="FULL", data=[1, 2, 3]), make_file(name="EMPTY", data=[]),
                          make_file(name="LOST", data=[4])],
            "none": [],
        }
        for tag, files in sets.items():
            path = tag + ".cas"
            record("E1/save-" + tag, lambda: save(path, files))
            record("E1/load-" + tag, lambda: load(path))
            record("E1/load-filter-" + tag, lambda: load(path, ["ALPHA   ", "SINGLE  ", "nope"]))
            record("E1/save-again-" + tag, lambda: save(path, files))
            record("E1/save-append-" + tag, lambda: save(path, files[:1], append=True))
            record("E1/load-appended-" + tag, lambda: load(path))
            record("E1/save-wrong-type-" + tag, lambda: save(path, files, vtype=VirtualFileType.DISK, append=True))
            run_tool("E2/list-" + tag, "file_util.py", path, "--list")
            run_tool("E2/to_cas-" + tag, "file_util.py", path, "--to_cas", tag + "-copy.cas")
            run_tool("E2/list-copy-" + tag, "file_util.py", tag + "-copy.cas", "--list")
            run_tool("E2/to_cas-exists-" + tag, "file_util.py", path, "--to_cas", tag + "-copy.cas")
            run_tool("E2/to_cas-append-" + tag, "file_util.py", path, "--to_cas", tag + "-copy.cas", "--append")
            run_tool("E2/list-copy-appended-" + tag, "file_util.py", tag + "-copy.cas", "--list")
            run_tool("E2/to_cas-files-" + tag, "file_util.py", path, "--to_cas", tag + "-some.cas",
                     "--files", "alpha", "GAMMAGAM", "single", "d")
            run_tool("E2/list-some-" + tag, "file_util.py", tag + "-some.cas", "--list")
            run_tool("E2/to_bin-" + tag, "file_util.py", path, "--to_bin", tag + ".bin")
            run_tool("E2/to_dsk-" + tag, "file_util.py", path, "--to_dsk", tag + ".dsk")
            run_tool("E2/dsk-to_cas-" + tag, "file_util.py", tag + ".dsk", "--to_cas", tag + "-fromdsk.cas")
            run_tool("E2/list-fromdsk-" + tag, "file_util.py", tag + "-fromdsk.cas", "--list")

        # broken images through the tool
        broken = {
            "truncated": written[:len(written) - 100],
            "cut-in-header": written[:270],
            "unknown-block": tapes["unknown-type-02"],
            "no-eof": tapes["no-eof"],
            "bad-name": tapes["bad-name"],
            "garbage": content("random", 500),
            "zero-bytes": [],
            "three-files": tapes["three-files"],
            "gaps": tapes["lead128-gaps"],
            "no-leader": tapes["lead0"],
        }
        for tag, image in broken.items():
            with open("broken-" + tag + ".cas", "wb") as handle:
                handle.write(bytearray(image))
            run_tool("E3/list-" + tag, "file_util.py", "broken-" + tag + ".cas", "--list")
            run_tool("E3/to_cas-" + tag, "file_util.py", "broken-" + tag + ".cas", "--to_cas", "rebuilt-" + tag + ".cas")
            run_tool("E3/relist-" + tag, "file_util.py", "rebuilt-" + tag + ".cas", "--list")
            record("E3/load-" + tag, lambda: load("broken-" + tag + ".cas"))
        run_tool("E3/missing", "file_util.py", "does-not-exist.cas", "--list")

        # the assembler writing cassette images
        sources = {
            "tiny": "        ORG $0E00\nSTART   LDA #$55\n        LDB #$3C\n        RTS\n        END START\n",
            "named": "        NAM PROGNAME\n        ORG $3F00\nLOOP    LDX #$553C\n        STX $0400\n"
                     "        BRA LOOP\n        END LOOP\n",
            "noorg": "        LDA #$01\n        RTS\n",
            "big": "        ORG $1000\n" + "".join(
                "        FCB $55,$3C,$FF,$00,$FF,$55,$01,${:02X}\n".format(i % 256) for i in range(64)
            ) + "        END\n",
            "exact255": "        ORG $2000\n" + "        FCB $55\n" * 255 + "        END\n",
            "empty": "; nothing here\n",
        }
        for tag, text in sources.items():
            with open(tag + ".asm", "w") as handle:
                handle.write(text)
            run_tool("E4/asm-noname-" + tag, "assembler.py", tag + ".asm", "--to_cas", "asm-" + tag + "-nn.cas")
            run_tool("E4/asm-" + tag, "assembler.py", tag + ".asm", "--to_cas", "asm-" + tag + ".cas",
                     "--name", "fromcli")
            run_tool("E4/asm-list-" + tag, "file_util.py", "asm-" + tag + ".cas", "--list")
            run_tool("E4/asm-exists-" + tag, "assembler.py", tag + ".asm", "--to_cas", "asm-" + tag + ".cas",
                     "--name", "again")
            run_tool("E4/asm-append-" + tag, "assembler.py", tag + ".asm", "--to_cas", "asm-" + tag + ".cas",
                     "--name", "LONGERTHAN8", "--append", "--symbols", "--print")
            run_tool("E4/asm-list-appended-" + tag, "file_util.py", "asm-" + tag + ".cas", "--list")
            run_tool("E4/asm-to_bin-" + tag, "file_util.py", "asm-" + tag + "-nn.cas", "--to_bin", "asm-" + tag + ".bin")
    finally:
        os.chdir(tree)
        shutil.rmtree(work, ignore_errors=True)

    with open(out_path, "w") as handle:
        json.dump(results, handle, sort_keys=True)


# --------------------------------------------------------------------------
# C O M P A R I S O N
# --------------------------------------------------------------------------


def run_tree(tree, out_path):
    env = dict(os.environ, PYTHONDONTWRITEBYTECODE="1", PYTHONHASHSEED="0")
    env.pop("PYTHONPATH", None)
    proc = subprocess.run(
        [sys.executable, os.path.abspath(__file__), "--driver", tree, out_path],
        cwd=tree, env=env,
    )
    if proc.returncode != 0:
        print("driver failed for {} (rc={})".format(tree, proc.returncode))
        sys.exit(1)
    with open(out_path) as handle:
        return json.load(handle)


def main():
    if len(sys.argv) == 4 and sys.argv[1] == "--driver":
        driver(sys.argv[2], sys.argv[3])
        return 0
    if len(sys.argv) != 3:
        print(__doc__)
        return 2
    tree_a, tree_b = (os.path.realpath(p) for p in sys.argv[1:3])
    scratch = tempfile.mkdtemp(prefix="c06-equiv-out-")
    try:
        res_a = run_tree(tree_a, os.path.join(scratch, "a.json"))
        res_b = run_tree(tree_b, os.path.join(scratch, "b.json"))
    finally:
        import shutil
        shutil.rmtree(scratch, ignore_errors=True)

    mismatches = []
    for key in sorted(set(res_a) | set(res_b)):
        if key not in res_a or key not in res_b:
            mismatches.append((key, "present in only one tree"))
        elif res_a[key] != res_b[key]:
            mismatches.append((key, "A={!r}\n      B={!r}".format(res_a[key], res_b[key])[:1500]))
    raised = sum(1 for v in res_a.values() if "exc" in v)
    print("{} cases compared ({} of them raise in tree A), {} mismatches".format(
        len(set(res_a) | set(res_b)), raised, len(mismatches)))
    for key, detail in mismatches[:40]:
        print("MISMATCH {}\n      {}".format(key, detail))
    return 1 if mismatches else 0


if __name__ == "__main__":
    sys.exit(main())
