#!/usr/bin/env python
"""
Differential demonstration: runs the same inputs through the code of two source
trees (one subprocess per tree, the tree first on sys.path and as cwd) and
compares every observable result.

usage: equiv.py <treeA> <treeB>      exit 0 = all cases agree, 1 = a difference
"""
import json
import os
import subprocess
import sys
import tempfile

WORKER = r'''
import contextlib, io, json, os, subprocess, sys, tempfile

tree = os.path.abspath(sys.argv[1])
sys.path.insert(0, tree)
os.chdir(tree)
cases = json.load(sys.stdin)

from cocoasm.program import Program


def describe_exc(error):
    info = {"type": type(error).__name__, "str": str(error)}
    if hasattr(error, "value"):
        info["value"] = str(error.value)
    statement = getattr(error, "statement", None)
    if statement is not None:
        try:
            info["statement"] = str(statement)
        except Exception as inner:
            info["statement"] = "unprintable " + type(inner).__name__
    return info


def guarded(function):
    try:
        return function()
    except Exception as error:
        return {"error": describe_exc(error)}


def observe_program(lines):
    program = Program()
    try:
        program.process(lines)
    except Exception as error:
        return {"error": describe_exc(error)}
    return {
        "binary": guarded(program.get_binary_array),
        "listing": guarded(program.get_statements),
        "symbols": guarded(program.get_symbol_table),
        "origin": guarded(lambda: program.origin.hex()),
        "name": program.name,
        "detail": guarded(lambda: [
            [s.code_pkg.size, s.code_pkg.max_size, s.fixed_size, s.pcr_size_hint,
             type(s.operand).__name__, list(s.code_pkg.post_byte_choices),
             s.code_pkg.additional_needs_resolution, s.code_pkg.op_code.hex(),
             s.code_pkg.post_byte.hex(), s.code_pkg.additional.hex(), s.code_pkg.address.hex()]
            for s in program.statements]),
    }


def observe_call(code):
    namespace = {}
    try:
        exec(code, namespace)
        return {"result": namespace.get("result")}
    except Exception as error:
        return {"error": describe_exc(error)}


def observe_cli(lines, args, tool="assembler.py", extra_files=None):
    with tempfile.TemporaryDirectory() as work:
        with open(os.path.join(work, "prog.asm"), "w") as handle:
            handle.writelines(lines)
        for name, text in (extra_files or {}).items():
            with open(os.path.join(work, name), "w") as handle:
                handle.write(text)
        before = set(os.listdir(work))
        done = subprocess.run(
            [sys.executable, os.path.join(tree, tool)] + args,
            cwd=work, capture_output=True, text=True,
            env=dict(os.environ, PYTHONPATH=tree, PYTHONDONTWRITEBYTECODE="1"),
        )
        files = {}
        for name in sorted(set(os.listdir(work)) - before):
            with open(os.path.join(work, name), "rb") as handle:
                files[name] = handle.read().hex()
        stderr_tail = done.stderr.strip().splitlines()[-1:] if done.stderr.strip() else []
        return {"code": done.returncode, "stdout": done.stdout, "stderr_tail": stderr_tail, "files": files}


results = []
for case in cases:
    kind = case["kind"]
    if kind == "program":
        results.append(observe_program(case["lines"]))
    elif kind == "call":
        results.append(observe_call(case["code"]))
    elif kind == "cli":
        results.append(observe_cli(case["lines"], case["args"], case.get("tool", "assembler.py"),
                                   case.get("extra_files")))
    else:
        raise SystemExit("unknown case kind " + kind)
json.dump(results, sys.stdout)
'''


def prog(*lines):
    """A program case; every line gets its newline like a line read from a file."""
    return {"kind": "program", "lines": [line + "\n" for line in lines]}


def call(code):
    """A direct library call; the snippet leaves a JSON-friendly value in `result`."""
    return {"kind": "call", "code": code}


def cli(lines, args=("prog.asm", "--print", "--symbols", "--to_bin", "out.bin"), extra_files=None):
    return {"kind": "cli", "lines": [line + "\n" for line in lines], "args": list(args),
            "extra_files": extra_files}


def run_tree(tree, cases):
    with tempfile.TemporaryDirectory() as work:
        worker = os.path.join(work, "worker.py")
        with open(worker, "w") as handle:
            handle.write(WORKER)
        done = subprocess.run(
            [sys.executable, worker, tree], input=json.dumps(cases), capture_output=True, text=True,
            cwd=tree, env=dict(os.environ, PYTHONDONTWRITEBYTECODE="1"),
        )
    if done.returncode != 0:
        print("worker failed for", tree)
        print(done.stderr)
        sys.exit(1)
    return json.loads(done.stdout)


def main(cases):
    if len(sys.argv) != 3:
        print(__doc__)
        sys.exit(2)
    tree_a, tree_b = (os.path.abspath(p) for p in sys.argv[1:3])
    results_a = run_tree(tree_a, cases)
    results_b = run_tree(tree_b, cases)
    differences = 0
    accepted = 0
    for number, (case, a, b) in enumerate(zip(cases, results_a, results_b)):
        if "error" not in a:
            accepted += 1
        if a != b:
            differences += 1
            print("DIFFERENCE in case", number, json.dumps(case)[:300])
            print("   A:", json.dumps(a)[:600])
            print("   B:", json.dumps(b)[:600])
    print("{} cases, {} without error in tree A, {} differences".format(len(cases), accepted, differences))
    sys.exit(1 if differences or len(results_a) != len(cases) or len(results_b) != len(cases) else 0)


# ---------------------------------------------------------------------------
# cases
# ---------------------------------------------------------------------------
CASES = []

LIB = "SHARED NOP \n       LDA #1\n       RTS \n"
DATA = "TABLE  FCB 1,2,3\n       FDB $1234\n"
ARGS = ("prog.asm", "--print", "--symbols", "--to_bin", "out.bin")


def include_case(lines, files):
    CASES.append(cli(lines, ARGS, extra_files=files))


# no include at all, one include at the start / middle / end
include_case(["      ORG $1000", "START LDA #1", "      RTS ", "      END START"], {})
include_case(["      INCLUDE lib.asm", "START JSR SHARED", "      END START"], {"lib.asm": LIB})
include_case(["      ORG $2000", "START JSR SHARED", "      INCLUDE lib.asm", "AFTER LDX #TABLE", "      INCLUDE data.asm",
              "LAST  BRA START"], {"lib.asm": LIB, "data.asm": DATA})
include_case(["START JSR SHARED", "      INCLUDE lib.asm"], {"lib.asm": LIB})

# nesting, two, three and eight levels deep, statements before and after the inner include
include_case(["      ORG $3000", "A     NOP ", "      INCLUDE one.asm", "Z     BRA A"],
             {"one.asm": "B      NOP \n       INCLUDE two.asm\nY      BRA B\n", "two.asm": "C      CLRA \nX      BRA Z\n"})
include_case(["      INCLUDE one.asm", "      INCLUDE three.asm", "Z     LBRA D"],
             {"one.asm": "       INCLUDE two.asm\n", "two.asm": "       INCLUDE three.asm\nC      NOP \n",
              "three.asm": "       LDA #3\n"})
deep = {"f{}.asm".format(n): "L{0}     LDA #{0}\n       INCLUDE f{1}.asm\nM{0}     STA <{0}\n".format(n, n + 1) for n in range(8)}
deep["f8.asm"] = "BOTTOM RTS \n"
include_case(["      ORG $E00", "      INCLUDE f0.asm", "      LBRA BOTTOM", "      JMP L3", "      JMP M5"], deep)

# the same file twice in a row is no cycle (labels clash, or not)
include_case(["      INCLUDE lib.asm", "      INCLUDE lib.asm"], {"lib.asm": LIB})
include_case(["      INCLUDE code.asm", "      INCLUDE code.asm", "      RTS "], {"code.asm": "       LDA #1\n       STA $400\n"})
include_case(["      INCLUDE a.asm", "      INCLUDE b.asm"], {"a.asm": "       INCLUDE code.asm\n", "b.asm": "       INCLUDE code.asm\n",
                                                              "code.asm": "       INCA \n"})

# cycles
include_case(["      INCLUDE prog.asm"], {})
include_case(["      NOP ", "      INCLUDE a.asm"], {"a.asm": "       INCLUDE a.asm\n"})
include_case(["      INCLUDE a.asm"], {"a.asm": "       NOP \n       INCLUDE b.asm\n", "b.asm": "       INCLUDE a.asm\n"})
include_case(["      INCLUDE a.asm"], {"a.asm": "       INCLUDE b.asm\n", "b.asm": "       INCLUDE c.asm\n",
                                       "c.asm": "       INCLUDE b.asm\n"})

# missing file, directory, empty file, comments only, errors inside an include
include_case(["      NOP ", "      INCLUDE missing.asm"], {})
include_case(["      INCLUDE a.asm"], {"a.asm": "       INCLUDE missing.asm\n"})
include_case(["      INCLUDE ."], {})
include_case(["      INCLUDE empty.asm", "      RTS "], {"empty.asm": ""})
include_case(["      INCLUDE notes.asm", "      RTS "], {"notes.asm": "; nothing\n\n   ; here\n"})
include_case(["      INCLUDE bad.asm", "      RTS "], {"bad.asm": "       FOO 1\n"})
include_case(["      INCLUDE bad.asm", "      INCLUDE missing.asm"], {"bad.asm": "       LDA 1,2,3\n"})
include_case(["      INCLUDE missing.asm", "      FOO 1"], {})
include_case(["      FOO 1", "      INCLUDE missing.asm"], {})
include_case(["      INCLUDE a.asm", "      INCLUDE missing.asm"], {"a.asm": "       INCLUDE b.asm\n", "b.asm": "       BAR \n"})
include_case(["      INCLUDE bad.asm", "      RTS "], {"bad.asm": "       LDA NOWHERE\n"})
include_case(["      INCLUDE ", "      RTS "], {})
include_case(["LABEL INCLUDE lib.asm", "      JMP LABEL"], {"lib.asm": LIB})
include_case(["      ORG $600", "      INCLUDE sub/lib.asm", "      JMP SHARED"], {})

# layout across include boundaries: ORG inside an include, PCR and branches across them
include_case(["      NAM INCL", "      INCLUDE org.asm", "START LEAX TABLE,PCR", "      INCLUDE data.asm", "      BNE START",
              "      END START"], {"org.asm": "       ORG $4000\n", "data.asm": DATA})
include_case(["      LDA FAR,PCR", "      INCLUDE gap.asm", "FAR   RTS "], {"gap.asm": "       RMB 126\n"})
include_case(["      LDA FAR,PCR", "      INCLUDE gap.asm", "FAR   RTS "], {"gap.asm": "       RMB 125\n"})

# the library entry points without the front end
CASES.append(call('''
import os, tempfile
from cocoasm.program import Program
result = []
with tempfile.TemporaryDirectory() as work:
    os.chdir(work)
    with open("inner.asm", "w") as handle:
        handle.write("INNER  NOP \\n       INCLUDE leaf.asm\\n")
    with open("leaf.asm", "w") as handle:
        handle.write("LEAF   RTS \\n")
    top = Program.parse(["      ORG $10\\n", "      INCLUDE inner.asm\\n", "TAIL  BRA LEAF\\n"])
    flat = Program.process_mnemonics(top)
    result.append([[s.label, s.mnemonic, s.operand.operand_string] for s in flat])
    for including in [(), ("leaf.asm",), ("inner.asm",), ("other.asm",)]:
        try:
            flat = Program.process_mnemonics(Program.parse(["      INCLUDE inner.asm\\n"]), including)
            result.append([s.mnemonic for s in flat])
        except Exception as error:
            result.append([type(error).__name__, str(error)])
    result.append(Program.process_mnemonics([]))
    program = Program()
    program.process(["      INCLUDE inner.asm\\n", "      JMP INNER\\n"])
    result.append([program.get_statements(), program.get_symbol_table(), program.get_binary_array()])
'''))

main(CASES)
