#!/venv/bin/python
"""
Differential check of two CoCoAssembler trees.

    /venv/bin/python equiv.py <treeA> <treeB>

One worker subprocess is started per tree, with that tree at the front of
sys.path and a private scratch directory as cwd.  Each worker runs the same
list of cases (the assembler and file_util command lines in-process, and a set
of library-level calls) and records every observable: console output, exit
code / exception type and message, the files that exist afterwards (name,
length, sha256), what file_util --list says about each image, emitted buffers,
symbol tables, origin and name.  The parent compares the two records; exit
status is 0 when they are identical and 1 otherwise.
"""
import sys
import os
import json
import subprocess
import tempfile
import shutil

PYTHON = sys.executable


# --------------------------------------------------------------------------
# worker
# --------------------------------------------------------------------------

def worker(tree, scratch, out_path):
    import io
    import hashlib
    import contextlib
    import argparse

    tree = os.path.realpath(tree)
    sys.path.insert(0, tree)
    os.chdir(scratch)

    import assembler
    import file_util
    import cocoasm
    from cocoasm.program import Program
    from cocoasm.values import (
        NumericValue, NoneValue, AddressValue, MultiByteValue, MultiWordValue, StringValue, Value
    )
    from cocoasm.virtualfiles.coco_file import CoCoFile
    from cocoasm.virtualfiles.cassette import CassetteFile
    from cocoasm.virtualfiles.disk import DiskFile
    from cocoasm.virtualfiles.binary import BinaryFile
    from cocoasm.virtualfiles.source_file import SourceFile, SourceFileType
    from cocoasm.virtualfiles.virtual_file import VirtualFile, VirtualFileType

    for module in (assembler, file_util, cocoasm):
        assert os.path.realpath(module.__file__).startswith(tree + os.sep), module.__file__

    results = {}

    def digest(data):
        return hashlib.sha256(bytes(data)).hexdigest()

    def describe_buffer(buffer):
        try:
            return {"len": len(buffer), "sha": digest(buffer), "head": list(buffer[:48]), "tail": list(buffer[-24:])}
        except Exception as error:
            return {"len": len(buffer), "repr": repr(buffer)[:4000], "err": type(error).__name__}

    def capture(func, *args, **kwargs):
        """Runs func, returns (record, value)."""
        out = io.StringIO()
        err = io.StringIO()
        record = {}
        value = None
        with contextlib.redirect_stdout(out), contextlib.redirect_stderr(err):
            try:
                value = func(*args, **kwargs)
                record["outcome"] = "returned"
            except SystemExit as stop:
                record["outcome"] = "exit"
                record["code"] = repr(stop.code)
            except BaseException as error:
                record["outcome"] = "raised"
                record["type"] = type(error).__name__
                record["message"] = str(error)
        record["stdout"] = out.getvalue()
        record["stderr"] = err.getvalue()
        return record, value

    def snapshot_dir():
        files = {}
        for name in sorted(os.listdir(".")):
            with open(name, "rb") as handle:
                data = handle.read()
            files[name] = {"len": len(data), "sha": digest(data)}
            if len(data) <= 1024:
                files[name]["hex"] = data.hex()
        return files

    def listing_of(image):
        args = argparse.Namespace(
            host_filename=image, append=False, list=True, to_bin=None, to_cas=None, to_dsk=None, files=None
        )
        record, _ = capture(file_util.main, args)
        return record

    def coco_file_record(coco_file):
        return {
            "name": coco_file.name,
            "extension": coco_file.extension,
            "type": [coco_file.type.hex(), coco_file.type.int],
            "data_type": [coco_file.data_type.hex(), coco_file.data_type.int],
            "gaps": coco_file.gaps.hex(),
            "load": [coco_file.load_addr.hex(), coco_file.load_addr.int],
            "exec": [coco_file.exec_addr.hex(), coco_file.exec_addr.int],
            "data": describe_buffer(coco_file.data),
            "str": str(coco_file),
        }

    def library_listing(image):
        def read():
            virtual_file = VirtualFile(SourceFile(image, file_type=SourceFileType.BINARY))
            virtual_file.open_virtual_file()
            return [coco_file_record(x) for x in virtual_file.list_files()], str(virtual_file.virtual_file_type)
        record, value = capture(read)
        record["value"] = value
        return record

    # ---------------------------------------------------------------- CLI

    def source(origin="$0E00", nam=None, size=12, end=None, lower=False):
        lines = []
        if nam is not None:
            lines.append("        NAM  {}".format(nam))
        if origin is not None:
            lines.append("        ORG  {}".format(origin))
        body = [(7 * index + 3) & 0xFF for index in range(size)]
        first = True
        for start in range(0, size, 16):
            chunk = ",".join("${:02X}".format(x) for x in body[start:start + 16])
            lines.append("{}FCB  {}".format("START   " if first else "        ", chunk))
            first = False
        if size == 0:
            lines.append("START   RMB  0")
        if end is not None:
            lines.append("        END  {}".format(end))
        text = "\n".join(lines) + "\n"
        return text.lower() if lower else text

    def cli_case(case_id, text, pre=None, **options):
        case_dir = os.path.join(scratch, case_id)
        os.makedirs(case_dir)
        os.chdir(case_dir)
        try:
            if text is not None:
                with open("prog.asm", "w") as handle:
                    handle.write(text)
            for name, data in (pre or {}).items():
                with open(name, "wb") as handle:
                    handle.write(bytes(data))
            settings = dict(
                filename="prog.asm", symbols=False, print=False, to_bin=None, to_cas=None, to_dsk=None,
                name=None, append=False, width=100,
            )
            settings.update(options)
            record, _ = capture(assembler.main, argparse.Namespace(**settings))
            record["files"] = snapshot_dir()
            record["listings"] = {}
            record["contents"] = {}
            for name in sorted(record["files"]):
                if name != "prog.asm":
                    record["listings"][name] = listing_of(name)
                    record["contents"][name] = library_listing(name)
            results["cli:" + case_id] = record
        finally:
            os.chdir(scratch)

    def image_of(kind, files):
        """Builds an existing image of the given kind with the library of the tree under test."""
        container = {"cas": CassetteFile, "dsk": DiskFile, "bin": BinaryFile}[kind]()
        container.add_files(files)
        return list(container.get_buffer())

    other = CoCoFile(
        name="OTHER", extension="BIN", type=NumericValue(2), data_type=NumericValue(0),
        load_addr=NumericValue(0x2000), exec_addr=NumericValue(0x2002), data=[1, 2, 3, 4, 5],
    )

    ALL = dict(to_bin="out.bin", to_cas="out.cas", to_dsk="out.dsk")

    # each switch alone, and together, with NAM
    cli_case("bin_only", source(nam="HELLO"), to_bin="out.bin")
    cli_case("cas_only", source(nam="HELLO"), to_cas="out.cas")
    cli_case("dsk_only", source(nam="HELLO"), to_dsk="out.dsk")
    cli_case("all_three", source(nam="HELLO", end="START"), **ALL)
    cli_case("cas_dsk", source(nam="HELLO"), to_cas="out.cas", to_dsk="out.dsk")
    cli_case("bin_dsk", source(nam="HELLO"), to_bin="out.bin", to_dsk="out.dsk")
    cli_case("no_switch", source(nam="HELLO"))
    cli_case("print_symbols", source(nam="HELLO", end="START"), symbols=True, print=True, **ALL)

    # names: 1..12 characters, either case, NAM against --name
    for length in (1, 2, 7, 8, 9, 12):
        name = "ABCDEFGHIJKL"[:length]
        cli_case("nam_len_{}".format(length), source(nam=name), **ALL)
        cli_case("name_opt_len_{}".format(length), source(), name=name.lower(), **ALL)
    cli_case("nam_lower", source(nam="hello"), **ALL)
    cli_case("nam_mixed", source(nam="HeLLo12"), **ALL)
    cli_case("nam_and_name", source(nam="FROMNAM"), name="FROMOPT", **ALL)
    cli_case("lower_source", source(nam="LOWER", end="START", lower=True), **ALL)
    cli_case("name_opt_empty", source(), name="", **ALL)

    # no name at all: guard paths, in every combination
    cli_case("noname_all", source(), **ALL)
    cli_case("noname_bin", source(), to_bin="out.bin")
    cli_case("noname_cas", source(), to_cas="out.cas")
    cli_case("noname_dsk", source(), to_dsk="out.dsk")
    cli_case("noname_cas_dsk", source(), to_cas="out.cas", to_dsk="out.dsk")
    cli_case("noname_bin_dsk", source(), to_bin="out.bin", to_dsk="out.dsk")
    cli_case("noname_print", source(), symbols=True, print=True, to_cas="out.cas")

    # origins and entry points
    for index, origin in enumerate(("$0000", "$00FF", "$0100", "$0E00", "$7FFF", "$8000", "$FF00", "3584", None)):
        cli_case("origin_{}".format(index), source(origin=origin, nam="ORG{}".format(index), end="START"), **ALL)
    cli_case("two_orgs", "        NAM  TWO\n        ORG  $1000\nA       FCB  1,2\n        ORG  $2000\nB       FCB  3\n"
                         "        END  B\n", symbols=True, **ALL)
    cli_case("two_nams", "        NAM  FIRST\n        NAM  SECOND\n        ORG  $1000\nA       FCB  1,2\n", **ALL)
    cli_case("code_program", "        NAM  CODE\n        ORG  $3F00\nSTART   LDA  #$01\n        LDX  #$0400\n"
                             "LOOP    STA  ,X+\n        CMPX #$0600\n        BNE  LOOP\n        JMP  START\n"
                             "        END  START\n", print=True, symbols=True, **ALL)

    # sizes around the block, sector and granule boundaries
    for size in (0, 1, 254, 255, 256, 510, 511, 2298, 2299, 2300, 2304, 2305, 4608, 9300):
        cli_case("size_{}".format(size), source(nam="SIZED", size=size), **ALL)

    # existing targets, with and without --append, right and wrong kind
    existing = {"out.bin": image_of("bin", [other]), "out.cas": image_of("cas", [other]),
                "out.dsk": image_of("dsk", [other])}
    cli_case("exists_no_append", source(nam="HELLO"), pre=existing, **ALL)
    cli_case("exists_append", source(nam="HELLO"), pre=existing, append=True, **ALL)
    cli_case("exists_append_twice", source(nam="OTHER"), pre=existing, append=True, **ALL)
    cli_case("exists_noname", source(), pre=existing, append=True, **ALL)
    cli_case("wrong_kind", source(nam="HELLO"), append=True,
             pre={"out.bin": existing["out.cas"], "out.cas": existing["out.dsk"], "out.dsk": existing["out.cas"]},
             **ALL)
    cli_case("wrong_kind_garbage", source(nam="HELLO"), append=True,
             pre={"out.bin": [1, 2, 3], "out.cas": [9] * 40, "out.dsk": [7] * 100}, **ALL)
    cli_case("empty_targets", source(nam="HELLO"), pre={"out.bin": [], "out.cas": [], "out.dsk": []}, **ALL)
    cli_case("empty_targets_append", source(nam="HELLO"), append=True,
             pre={"out.bin": [], "out.cas": [], "out.dsk": []}, **ALL)
    cli_case("unwritable_dir", source(nam="HELLO"), to_bin="nodir/out.bin", to_cas="nodir/out.cas",
             to_dsk="nodir/out.dsk")
    full = image_of("dsk", [other._replace(name="F{}".format(x), data=[x] * 2400) for x in range(34)])
    cli_case("disk_nearly_full", source(nam="HELLO", size=2400), pre={"out.dsk": full}, append=True, to_dsk="out.dsk")
    cli_case("same_target_twice", source(nam="HELLO"), to_bin="out.img", to_cas="out.img", to_dsk="out.img",
             append=True)

    # errors from the assembler proper
    cli_case("parse_error", "        NAM  BAD\n   this is not ( assembly\n", **ALL)
    cli_case("unknown_op", "        NAM  BAD\n        ORG  $1000\n        FOO  #$01\n", **ALL)
    cli_case("redefined", "        NAM  BAD\nA       FCB  1\nA       FCB  2\n", **ALL)
    cli_case("undefined_symbol", "        NAM  BAD\n        LDA  NOWHERE\n", **ALL)
    cli_case("missing_source", None, **ALL)

    # the real command lines, as scripts
    def script_case(case_id, text, arguments, pre=None):
        import subprocess as sp
        case_dir = os.path.join(scratch, "script_" + case_id)
        os.makedirs(case_dir)
        os.chdir(case_dir)
        try:
            with open("prog.asm", "w") as handle:
                handle.write(text)
            for name, data in (pre or {}).items():
                with open(name, "wb") as handle:
                    handle.write(bytes(data))
            record = {"runs": []}
            commands = [[os.path.join(tree, "assembler.py"), "prog.asm"] + arguments]
            for image in ("out.cas", "out.dsk"):
                commands.append([os.path.join(tree, "file_util.py"), image, "--list"])
            commands.append([os.path.join(tree, "file_util.py"), "out.cas", "--to_dsk", "copy.dsk"])
            commands.append([os.path.join(tree, "file_util.py"), "out.dsk", "--to_cas", "copy.cas"])
            commands.append([os.path.join(tree, "file_util.py"), "out.dsk", "--to_bin", "copy.bin"])
            for command in commands:
                done = sp.run([PYTHON] + command, stdout=sp.PIPE, stderr=sp.PIPE, universal_newlines=True,
                              env=dict(os.environ, PYTHONDONTWRITEBYTECODE="1"))
                record["runs"].append([command[1:], done.returncode, done.stdout, done.stderr.replace(tree, "<tree>")])
            record["files"] = snapshot_dir()
            results["script:" + case_id] = record
        finally:
            os.chdir(scratch)

    everything = ["--to_bin", "out.bin", "--to_cas", "out.cas", "--to_dsk", "out.dsk"]
    script_case("nam", source(nam="Script", end="START"), everything + ["--symbols", "--print"])
    script_case("name_option", source(origin="$3F00", size=600), everything + ["--name", "fromoption"])
    script_case("no_name", source(), everything)
    script_case("append", source(nam="HELLO"), everything + ["--append"], pre=existing)
    script_case("no_append", source(nam="HELLO"), everything, pre=existing)
    script_case("bad_source", "        NAM  BAD\n        FOO  1\n", everything)
    script_case("bad_width", source(nam="HELLO"), everything + ["--width", "wide"])

    # ------------------------------------------------------------ library

    def lib_case(case_id, func):
        os.chdir(scratch)
        record, value = capture(func)
        record["value"] = value
        results["lib:" + case_id] = record

    def values_case():
        rows = []
        makers = [
            ("num", NumericValue, (0, 1, 0x7F, 0x80, 0xFF, 0x100, 0x0E00, 0x1234, 0xFF00, 0xFFFF, -1, -128, -129,
                                   "$00", "$FF", "$0000", "$00FF", "$0E00", "$FFFF", "255", "256", "-5", "'A",
                                   "%10101010", "%1010101011110000")),
            ("addr", AddressValue, (0, 5, 15, 16, 255, 256, 300, 4095, 4096, 65535)),
            ("none", NoneValue, (None,)),
            ("mbyte", MultiByteValue, ("$01,$02,$03", "1,2", "$AA")),
            ("mword", MultiWordValue, ("$0102,$0304", "$DEAD")),
            ("str", StringValue, ('"AB"', '"A"', '"ABCD"', '""')),
        ]
        for label, maker, inputs in makers:
            for given in inputs:
                row = [label, repr(given)]
                try:
                    value = maker(given)
                except Exception as error:
                    row.append("ctor {} {}".format(type(error).__name__, error))
                    rows.append(row)
                    continue
                for method in ("hex", "hex_len", "byte_len", "high_byte", "low_byte"):
                    try:
                        row.append(repr(getattr(value, method)()))
                    except Exception as error:
                        row.append("{} {}".format(type(error).__name__, error))
                rows.append(row)
        hinted = NumericValue(5, size_hint=4)
        rows.append(["hint4", hinted.hex(), hinted.high_byte(), hinted.low_byte()])
        hinted = NumericValue(0x1234, size_hint=2)
        for method in ("hex", "high_byte", "low_byte"):
            try:
                rows.append(["hint2", method, repr(getattr(hinted, method)())])
            except Exception as error:
                rows.append(["hint2", method, "{} {}".format(type(error).__name__, error)])
        return rows

    lib_case("values_high_low", values_case)

    def program_case(text):
        def run():
            program = Program()
            program.process(text.splitlines(keepends=True))
            return {
                "origin": None if program.origin is None else [type(program.origin).__name__, program.origin.hex(),
                                                               program.origin.int, program.origin.high_byte(),
                                                               program.origin.low_byte()],
                "name": program.name,
                "binary": program.get_binary_array(),
                "symbols": [str(x) for x in program.get_symbol_table()],
                "statements": [str(x) for x in program.get_statements()],
            }
        return run

    lib_case("program_plain", program_case(source(nam="HELLO", end="START")))
    lib_case("program_no_org", program_case(source(origin=None, nam="HELLO")))
    lib_case("program_no_nam", program_case(source()))
    lib_case("program_neither", program_case("A       FCB  1\n"))
    lib_case("program_empty", program_case(""))
    lib_case("program_two_orgs", program_case("        ORG  $1000\nA       FCB  1\n        ORG  $20\nB       FCB  2\n"))
    lib_case("program_org_symbol", program_case("BASE    EQU  $4000\n        ORG  BASE\nA       FCB  1\n"))
    lib_case("program_nam_after", program_case("        ORG  $1000\nA       FCB  1\n        NAM  LATE\n"))
    lib_case("program_nam_long", program_case("        NAM  ABCDEFGHIJKL\n        ORG  $1000\n"))
    lib_case("program_bad", program_case("        NAM  X\n        LDA  NOWHERE\n"))

    def make_file(**changes):
        base = CoCoFile(
            name="PROG", extension="bin", type=NumericValue(2), data_type=NumericValue(0),
            load_addr=NumericValue(0x0E00), exec_addr=NumericValue(0x0E00), data=[1, 2, 3],
        )
        return base._replace(**changes)

    def container_case(container_class, method, *args):
        def run():
            container = container_class()
            before = len(container.buffer)
            try:
                returned = getattr(container, method)(*args)
            except Exception as error:
                returned = "{} {}".format(type(error).__name__, error)
            return {"returned": returned, "before": before, "buffer": describe_buffer(container.buffer),
                    "small": list(container.buffer) if len(container.buffer) < 600 else None}
        return run

    header_files = {
        "plain": make_file(),
        "empty_name": make_file(name=""),
        "one_char": make_file(name="A"),
        "eight": make_file(name="ABCDEFGH"),
        "nine": make_file(name="ABCDEFGHI"),
        "twelve": make_file(name="abcdefghijkl"),
        "lower": make_file(name="hello"),
        "latin1": make_file(name="café"),
        "wide": make_file(name="€uro"),
        "nul": make_file(name="AB\x00CD"),
        "none_name": make_file(name=None),
        "bytes_name": make_file(name=b"ABC"),
        "list_name": make_file(name=["A", "BC"]),
        "addr_zero": make_file(load_addr=NumericValue(0), exec_addr=NumericValue(0)),
        "addr_ff": make_file(load_addr=NumericValue(0xFF), exec_addr=NumericValue(0x100)),
        "addr_max": make_file(load_addr=NumericValue(0xFFFF), exec_addr=NumericValue(0xFFFE)),
        "addr_address_value": make_file(load_addr=AddressValue(300), exec_addr=AddressValue(7)),
        "addr_none_value": make_file(load_addr=NoneValue(), exec_addr=NoneValue()),
        "addr_hex_string": make_file(load_addr=NumericValue("$0E"), exec_addr=NumericValue("$000E")),
        "exec_missing": make_file(exec_addr=None),
        "load_missing": make_file(load_addr=None),
        "type_basic": make_file(type=NumericValue(0), data_type=NumericValue(0xFF)),
        "type_none": make_file(type=NoneValue(), data_type=NoneValue()),
        "type_missing": make_file(type=None),
        "no_data": make_file(data=[]),
        "data_255": make_file(data=list(range(255))),
        "data_256": make_file(data=[x & 0xFF for x in range(256)]),
        "data_bad_byte": make_file(data=[1, 256, 3]),
    }
    for label, coco_file in header_files.items():
        lib_case("cas_header:" + label, container_case(CassetteFile, "append_header", coco_file))
        lib_case("cas_add_file:" + label, container_case(CassetteFile, "add_file", coco_file))
        lib_case("dsk_add_file:" + label, container_case(DiskFile, "add_file", coco_file))
        lib_case("bin_add_file:" + label, container_case(BinaryFile, "add_file", coco_file))
    for label, name in (("empty", ""), ("a", "A"), ("eight", "12345678"), ("ten", "1234567890"), ("none", None),
                        ("int", 5), ("tuple", ("A", "B"))):
        lib_case("cas_name:" + label, container_case(CassetteFile, "append_name", name))
    lib_case("cas_leader", container_case(CassetteFile, "append_leader"))
    lib_case("cas_blank", container_case(CassetteFile, "append_blank"))
    lib_case("cas_eof", container_case(CassetteFile, "append_eof"))

    def save_case(case_id, file_type, files, exists=False, append=False, pre=None, opened=True):
        def run():
            case_dir = os.path.join(scratch, "save_" + case_id.replace(":", "_"))
            os.makedirs(case_dir)
            os.chdir(case_dir)
            if pre is not None:
                with open("target.img", "wb") as handle:
                    handle.write(bytes(pre))
            source_file = SourceFile("target.img", file_type=SourceFileType.BINARY)
            virtual_file = VirtualFile(source_file, file_type)
            steps = []
            try:
                if opened:
                    virtual_file.open_virtual_file()
                steps.append(["opened", virtual_file.file_exists, str(virtual_file.virtual_file_type),
                              [x.name for x in virtual_file.list_files()]])
                if exists:
                    virtual_file.file_exists = True
                for coco_file in files:
                    virtual_file.add_coco_file(coco_file)
                steps.append(["returned", repr(virtual_file.save_virtual_file(append_mode=append))])
            except Exception as error:
                steps.append(["raised", type(error).__name__, str(error)])
            steps.append(["source_buffer", describe_buffer(source_file.get_buffer())])
            steps.append(["listed", [x.name for x in virtual_file.list_files()],
                          [x.name for x in virtual_file.list_files(filenames=["PROG"])]])
            steps.append(["files", snapshot_dir()])
            if os.path.exists("target.img"):
                steps.append(["contents", library_listing("target.img")])
            os.chdir(scratch)
            return steps
        lib_case("save:" + case_id, run)

    kinds = (("cas", VirtualFileType.CASSETTE), ("bin", VirtualFileType.BINARY), ("dsk", VirtualFileType.DISK),
             ("unknown", VirtualFileType.UNKNOWN), ("none", None), ("int1", 1), ("text", "CASSETTE"))
    for label, file_type in kinds:
        save_case(label + ":new", file_type, [make_file()])
        save_case(label + ":no_files", file_type, [])
        save_case(label + ":two_files", file_type, [make_file(), make_file(name="SECOND", data=[9] * 300)])
        save_case(label + ":exists_flag", file_type, [make_file()], exists=True)
        save_case(label + ":exists_flag_append", file_type, [make_file()], exists=True, append=True)
        save_case(label + ":bad_file_and_exists", file_type, [make_file(name=None, data=None)], exists=True)
        save_case(label + ":not_opened", file_type, [make_file()], opened=False, pre=[1, 2, 3])
    for label, file_type in kinds[:3] + kinds[4:5]:
        for pre_label in ("bin", "cas", "dsk"):
            save_case("{}:over_{}".format(label, pre_label), file_type, [make_file()],
                      pre=existing["out." + pre_label])
            save_case("{}:append_{}".format(label, pre_label), file_type, [make_file()],
                      pre=existing["out." + pre_label], append=True)
    save_case("dsk:full", VirtualFileType.DISK, [make_file(name="N{}".format(x), data=[x] * 2400) for x in range(70)])
    save_case("dsk:full_exists", VirtualFileType.DISK,
              [make_file(name="N{}".format(x), data=[x] * 2400) for x in range(70)], exists=True)
    save_case("dsk:many_dir_entries", VirtualFileType.DISK,
              [make_file(name="N{}".format(x), data=[x]) for x in range(75)])
    save_case("cas:big", VirtualFileType.CASSETTE, [make_file(data=[x & 0xFF for x in range(70000)])])
    save_case("dsk:big", VirtualFileType.DISK, [make_file(data=[x & 0xFF for x in range(70000)])])
    save_case("bin:big", VirtualFileType.BINARY, [make_file(data=[x & 0xFF for x in range(70000)])])

    with open(out_path, "w") as handle:
        json.dump(results, handle, sort_keys=True, default=repr)


# --------------------------------------------------------------------------
# parent
# --------------------------------------------------------------------------

def run_tree(tree, label, root):
    scratch = os.path.join(root, label, "work")
    os.makedirs(scratch)
    out_path = os.path.join(root, label + ".json")
    env = dict(os.environ)
    env["PYTHONDONTWRITEBYTECODE"] = "1"
    env.pop("PYTHONPATH", None)
    done = subprocess.run(
        [PYTHON, os.path.abspath(__file__), "--worker", os.path.abspath(tree), scratch, out_path],
        cwd=scratch, env=env, stdout=subprocess.PIPE, stderr=subprocess.STDOUT, universal_newlines=True,
    )
    if done.returncode != 0 or not os.path.exists(out_path):
        print("worker for {} failed ({}):\n{}".format(tree, done.returncode, done.stdout))
        return None
    with open(out_path) as handle:
        return json.load(handle)


def main(argv):
    if len(argv) == 5 and argv[1] == "--worker":
        worker(argv[2], argv[3], argv[4])
        return 0
    if len(argv) != 3:
        print(__doc__)
        return 2
    root = tempfile.mkdtemp(prefix="equiv_C11_")
    try:
        first = run_tree(argv[1], "A", root)
        second = run_tree(argv[2], "B", root)
    finally:
        shutil.rmtree(root, ignore_errors=True)
    if first is None or second is None:
        return 1
    differing = [key for key in sorted(set(first) | set(second)) if first.get(key) != second.get(key)]
    print("{} cases compared, {} differ".format(len(set(first) | set(second)), len(differing)))
    for key in differing[:20]:
        print("DIFFERS: {}".format(key))
        print("   A: {}".format(json.dumps(first.get(key), sort_keys=True)[:1500]))
        print("   B: {}".format(json.dumps(second.get(key), sort_keys=True)[:1500]))
    return 1 if differing else 0


if __name__ == "__main__":
    sys.exit(main(sys.argv))
