#!/usr/bin/env python
"""
Differential demonstration: runs the same set of cases against two source
trees (one subprocess per tree, the tree at the front of sys.path and as the
working directory) and compares every observable result.

usage: equiv.py <treeA> <treeB>      exit 0 = all cases agree, 1 = otherwise
"""
import json
import os
import subprocess
import sys

PYTHON = "/venv/bin/python" if os.path.exists("/venv/bin/python") else sys.executable

DRIVER_HEAD = r'''
import contextlib, enum, hashlib, io, json, os, shutil, subprocess, sys, tempfile
TREE = os.path.abspath(sys.argv[1])
PYTHON = sys.argv[2]
sys.path.insert(0, TREE)
os.chdir(TREE)
RESULTS = []


def norm(text):
    return str(text).replace(TREE, "<TREE>")


def show(obj, depth=0):
    """Canonical, address-free, JSON-able rendering of a result."""
    if depth > 8:
        return "<deep>"
    if obj is None or isinstance(obj, (bool, int, float)):
        return obj
    if isinstance(obj, str):
        return norm(obj)
    if isinstance(obj, (bytes, bytearray)):
        return {"bytes": bytes(obj).hex()}
    if isinstance(obj, enum.Enum):
        return str(obj)
    if isinstance(obj, dict):
        return {"dict": [[show(k, depth + 1), show(v, depth + 1)] for k, v in obj.items()]}
    if hasattr(obj, "_asdict"):
        return {"nt": type(obj).__name__, "f": show(obj._asdict(), depth + 1)}
    if isinstance(obj, (list, tuple, set, frozenset)):
        items = list(obj)
        if len(items) > 600 and all(isinstance(i, int) and not isinstance(i, bool) for i in items):
            blob = ",".join(map(str, items)).encode()
            return {type(obj).__name__: len(items), "sha": hashlib.sha256(blob).hexdigest(),
                    "head": items[:24], "tail": items[-24:]}
        return {type(obj).__name__: [show(i, depth + 1) for i in items]}
    if hasattr(obj, "__dict__"):
        return {"obj": type(obj).__name__, "vars": show(vars(obj), depth + 1)}
    return norm(repr(obj))


def case(label, fn):
    out_buf, err_buf = io.StringIO(), io.StringIO()
    try:
        with contextlib.redirect_stdout(out_buf), contextlib.redirect_stderr(err_buf):
            value = fn()
        out = {"ok": show(value)}
    except SystemExit as error:
        out = {"exit": show(error.code)}
    except BaseException as error:
        out = {"exc": type(error).__name__, "msg": norm(error)}
    out["stdout"] = norm(out_buf.getvalue())
    out["stderr"] = norm(err_buf.getvalue())
    RESULTS.append([label, out])


def cli(tool, argv, files=None, keep=None):
    """
    Runs <TREE>/<tool> with argv inside a fresh temporary directory that first
    receives `files` (name -> str or bytes). Returns return code, stdout, the
    last line of stderr and name/size/sha256 of every file left behind.
    """
    work = keep or tempfile.mkdtemp(prefix="equiv")
    try:
        for name, content in (files or {}).items():
            mode = "wb" if isinstance(content, (bytes, bytearray)) else "w"
            with open(os.path.join(work, name), mode) as handle:
                handle.write(content)
        env = dict(os.environ, PYTHONPATH=TREE, PYTHONDONTWRITEBYTECODE="1", COLUMNS="80")
        done = subprocess.run([PYTHON, os.path.join(TREE, tool)] + list(argv), cwd=work, env=env,
                              capture_output=True, text=True, timeout=600)
        left = {}
        for name in sorted(os.listdir(work)):
            with open(os.path.join(work, name), "rb") as handle:
                blob = handle.read()
            left[name] = [len(blob), hashlib.sha256(blob).hexdigest()]
        err_lines = [line for line in done.stderr.splitlines() if line.strip()]
        return {"rc": done.returncode, "stdout": norm(done.stdout).replace(work, "<WORK>"),
                "stderr_last": norm(err_lines[-1]).replace(work, "<WORK>") if err_lines else "",
                "files": left}
    finally:
        if not keep:
            shutil.rmtree(work, ignore_errors=True)


def read_back(work, name):
    with open(os.path.join(work, name), "rb") as handle:
        return handle.read()

'''

DRIVER_TAIL = r'''
print("@@RESULTS@@" + json.dumps(RESULTS))
'''

DRIVER_PROGS = r'''
def program(size, org="$0E00", nam=None, end=None, seed=7):
    """Assembly source producing `size` pseudo-random bytes at `org`."""
    lines = []
    if nam is not None:
        lines.append("\tNAM {}".format(nam))
    if org is not None:
        lines.append("\tORG {}".format(org))
    lines.append("START\tNOP") if size > 0 else None
    state, left = seed, max(size - 1, 0)
    while left > 0:
        count = min(left, 24)
        values = []
        for _ in range(count):
            state = (state * 1103515245 + 12345) & 0x7FFFFFFF
            values.append("${:02X}".format((state >> 16) & 0xFF))
        lines.append("\tFCB {}".format(",".join(values)))
        left -= count
    if end is not None:
        lines.append("\tEND {}".format(end))
    return "\n".join(lines) + "\n"


def data_bytes(size, seed=3):
    state, out = seed, []
    for _ in range(size):
        state = (state * 1103515245 + 12345) & 0x7FFFFFFF
        out.append((state >> 16) & 0xFF)
    return out

'''

DRIVER_CASES = DRIVER_PROGS + r'''
from cocoasm.virtualfiles.cassette import CassetteFile
from cocoasm.virtualfiles.coco_file import CoCoFile
from cocoasm.values import NumericValue


def blocks(data, gaps=None, prefill=None):
    def run():
        cassette = CassetteFile(buffer=prefill) if prefill is not None else CassetteFile()
        try:
            if gaps is None:
                returned = cassette.append_data_blocks(data)
            else:
                returned = cassette.append_data_blocks(data, gaps=gaps)
        except Exception as error:
            return ["raised", type(error).__name__, str(error), list(cassette.buffer)]
        return [returned, list(cassette.buffer)]
    return run


# 1. the block writer itself, sizes around every block boundary
for size in (0, 1, 2, 3, 127, 128, 253, 254, 255, 256, 257, 509, 510, 511, 512, 764, 765, 766, 1019, 1020, 1021,
             4096, 65535, 65536):
    case("blocks-list-{}".format(size), blocks(data_bytes(size)))
for size in (1, 254, 255, 256, 510, 511, 1021):
    case("blocks-gaps-{}".format(size), blocks(data_bytes(size, seed=11), gaps=True))
    case("blocks-nogaps-kw-{}".format(size), blocks(data_bytes(size, seed=11), gaps=False))
case("blocks-positional-gaps", lambda: (lambda c: [c.append_data_blocks(data_bytes(300), True), c.buffer])(CassetteFile()))

# 2. other sequence types and odd contents
case("blocks-bytes", blocks(bytes(data_bytes(300))))
case("blocks-bytearray", blocks(bytearray(data_bytes(600))))
case("blocks-tuple", blocks(tuple(data_bytes(256))))
case("blocks-range", blocks(range(0, 250)))
case("blocks-range-long", blocks(range(0, 700)))
case("blocks-all-ff", blocks([0xFF] * 255))
case("blocks-all-ff-254", blocks([0xFF] * 254))
case("blocks-zeroes", blocks([0] * 256))
case("blocks-wide-values", blocks([256, 1000, -1, 70000]))
case("blocks-bools", blocks([True, False, True]))
case("blocks-floats", blocks([1.5, 2.25]))
case("blocks-prefilled", blocks(data_bytes(260), prefill=[1, 2, 3]))
case("blocks-prefilled-bytearray", blocks(data_bytes(260), prefill=bytearray(b"abc")))
case("blocks-dict-keys", blocks({0: 5, 1: 6, 2: 7}))

# 3. error cases, the partial buffer is part of the result
case("blocks-none", blocks(None))
case("blocks-int", blocks(5))
case("blocks-str", blocks("AB"))
case("blocks-str-element", blocks([1, 2, "x", 4]))
case("blocks-none-element", blocks([1, None, 3]))
case("blocks-str-element-second-block", blocks(data_bytes(255) + [9, "x"]))
case("blocks-set", blocks({1, 2, 3}))
case("blocks-generator", blocks(iter([1, 2, 3])))
case("blocks-bytearray-prefill-wide", blocks([300], prefill=bytearray(b"a")))
case("blocks-dict-long", blocks({index: index & 0xFF for index in range(255)}))


# 4. whole files through add_file and back through list_files
def round_trip(size, name="PROG", load=0x0E00, execute=0x0E10):
    def run():
        cassette = CassetteFile()
        cassette.add_file(CoCoFile(name=name, extension="bin", type=NumericValue(2), data_type=NumericValue(0),
                                   load_addr=NumericValue(load), exec_addr=NumericValue(execute),
                                   data=data_bytes(size, seed=size + 1)))
        image = list(cassette.buffer)
        try:
            listed = CassetteFile(buffer=list(image)).list_files()
        except Exception as error:
            listed = ["raised", type(error).__name__, str(error)]
        return [image, listed]
    return run


for size in (0, 1, 254, 255, 256, 510, 2000, 16384):
    case("round-trip-{}".format(size), round_trip(size))


def two_files():
    cassette = CassetteFile()
    for name, size in (("ONE", 255), ("SECOND", 300)):
        cassette.add_file(CoCoFile(name=name, extension="bin", type=NumericValue(2), data_type=NumericValue(0),
                                   load_addr=NumericValue(0x2000), exec_addr=NumericValue(0x2000),
                                   data=data_bytes(size)))
    return [list(cassette.buffer), CassetteFile(buffer=list(cassette.buffer)).list_files()]


case("round-trip-two-files", two_files)


# 5. end to end through the command line tools
def assemble_and_list(size, nam="BLOCKS", extra=()):
    def run():
        work = tempfile.mkdtemp(prefix="equiv")
        try:
            first = cli("assembler.py", ["p.asm", "--to_cas", "p.cas", "--to_bin", "p.bin"] + list(extra),
                        files={"p.asm": program(size, nam=nam)}, keep=work)
            second = cli("file_util.py", ["p.cas", "--list"], keep=work)
            third = cli("file_util.py", ["p.cas", "--to_dsk", "q.dsk"], keep=work)
            return [first, second, third]
        finally:
            shutil.rmtree(work, ignore_errors=True)
    return run


for size in (1, 254, 255, 256, 511, 3000):
    case("cli-{}".format(size), assemble_and_list(size))
case("cli-no-name", assemble_and_list(300, nam=None))
case("cli-name-switch", assemble_and_list(300, nam=None, extra=["--name", "fromcli"]))
case("cli-empty-program", assemble_and_list(0))
'''


def run_tree(tree):
    tree = os.path.abspath(tree)
    env = dict(os.environ, PYTHONDONTWRITEBYTECODE="1")
    done = subprocess.run([PYTHON, "-c", DRIVER_HEAD + DRIVER_CASES + DRIVER_TAIL, tree, PYTHON],
                          cwd=tree, env=env, capture_output=True, text=True)
    marker = done.stdout.rfind("@@RESULTS@@")
    if done.returncode != 0 or marker < 0:
        print("driver failed for", tree)
        print(done.stdout[-2000:])
        print(done.stderr[-4000:])
        sys.exit(1)
    return json.loads(done.stdout[marker + len("@@RESULTS@@"):])


def main():
    if len(sys.argv) != 3:
        print(__doc__)
        sys.exit(2)
    first, second = run_tree(sys.argv[1]), run_tree(sys.argv[2])
    bad = 0
    if [label for label, _ in first] != [label for label, _ in second]:
        print("case lists differ")
        bad += 1
    for (label, left), (_, right) in zip(first, second):
        if left != right:
            bad += 1
            print("DIFF in case", label)
            print("  A:", json.dumps(left)[:1500])
            print("  B:", json.dumps(right)[:1500])
    print("{} cases compared, {} differ".format(len(first), bad))
    sys.exit(1 if bad or len(first) < 30 else 0)


if __name__ == "__main__":
    main()
