"""
Differential demonstration: run the same corpus against two source trees and
compare every observable result.

usage: python equiv.py <treeA> <treeB>
exit 0 if everything agrees, 1 otherwise.
"""
import hashlib
import json
import os
import subprocess
import sys
import tempfile

PY = sys.executable

RUNNER = r'''
import sys, os, json, io, traceback
tree = sys.argv[1]
sys.path.insert(0, tree)
os.chdir(tree)

from cocoasm.program import Program
from cocoasm.statement import Statement
from cocoasm.instruction import INSTRUCTIONS, CodePackage, Instruction, Mode
from cocoasm.operands import (Operand, SpecialOperand, IndexedOperand, ExtendedIndexedOperand,
                              ImmediateOperand, DirectOperand, ExtendedOperand, InherentOperand,
                              UnknownOperand, RelativeOperand, PseudoOperand)
from cocoasm.values import (Value, NumericValue, NoneValue, AddressValue, StringValue, SymbolValue,
                            ExpressionValue, LeftRightValue, MultiByteValue, MultiWordValue,
                            DirectNumericValue, ExtendedNumericValue, ExplicitAddressingMode)
from cocoasm.exceptions import TranslationError, ParseError

results = {}


def describe_error(error):
    info = {"exc": type(error).__name__, "msg": str(error)}
    if isinstance(error, (TranslationError, ParseError)):
        info["value"] = str(error.value)
        try:
            info["statement"] = str(error.statement)
        except Exception as inner:
            info["statement_exc"] = type(inner).__name__ + ":" + str(inner)
    return info


def run_program(lines):
    # the line grammar wants white space after the mnemonic even when there is no operand
    lines = [line + " " if line.strip() else line for line in lines]
    program = Program()
    try:
        program.process(lines)
    except Exception as error:
        return describe_error(error)
    out = {}
    try:
        out["bytes"] = program.get_binary_array()
    except Exception as error:
        out["bytes_exc"] = describe_error(error)
    try:
        out["listing"] = [str(s) for s in program.get_statements()]
    except Exception as error:
        out["listing_exc"] = describe_error(error)
    try:
        out["symbols"] = [str(s) for s in program.get_symbol_table()]
    except Exception as error:
        out["symbols_exc"] = describe_error(error)
    try:
        out["origin"] = [type(program.origin).__name__, program.origin.hex(), program.origin.int]
    except Exception as error:
        out["origin_exc"] = describe_error(error)
    out["name"] = program.name
    out["pkgs"] = [
        [s.code_pkg.size, s.code_pkg.max_size, s.code_pkg.additional_needs_resolution,
         list(s.code_pkg.post_byte_choices), type(s.operand).__name__, s.fixed_size, s.pcr_size_hint]
        for s in program.statements
    ]
    return out


def one(line):
    return ["START ORG $0E00", line, " NOP"]


# ---------------------------------------------------------------- programs
MNEMONICS = [i.mnemonic for i in INSTRUCTIONS]
results["mnemonic_order"] = MNEMONICS
results["table"] = [[i.mnemonic] + [None if v is None else v for v in i.mode] + [bool(x) for x in i[2:]]
                    for i in INSTRUCTIONS]

FORMS = [
    "", "#$12", "#$1234", "#0", "#255", "#256", "#65535", "#-1", "#-128", "#-129", "#%10101010", "#'A",
    "$12", "$0012", "$1234", "<$12", ">$12", "<$1234", ">$1234", "0", "255", "256", "65535", "-1",
    "[$1234]", "[$12]", "[4660]", "[START]",
    ",X", ",Y", ",U", ",S", "0,X", "$00,Y", "1,X", "15,Y", "16,U", "-16,S", "-17,X", "127,Y", "128,U",
    "-128,S", "-129,X", "$7F,X", "$80,X", "$FF,Y", "$0100,U", "$FFFF,S", "32767,X", "-32768,Y",
    "A,X", "B,Y", "D,U", "A,S", ",X+", ",Y++", ",-U", ",--S", "5,X+", "5,--Y",
    "[,X]", "[,Y]", "[0,U]", "[1,S]", "[15,X]", "[-16,X]", "[-17,Y]", "[127,U]", "[128,S]", "[-128,X]",
    "[-129,Y]", "[$1234,U]", "[A,X]", "[B,Y]", "[D,S]", "[,X+]", "[,X++]", "[,-Y]", "[,--Y]", "[5,U++]",
    "10,PCR", "$1234,PCR", "START,PCR", "[10,PCR]", "[START,PCR]", "[$1234,PCR]", "-5,PCR",
    "START", "START+1", "START-1", "<START", ">START", "#START", "START,X", "[START,Y]",
    "A", "A,B", "X,Y", "D,X", "CC,DP", "A,X,Y", "PC,U,S", "CC,A,B,DP,X,Y,U,PC", "Q", "X,Q", "S", "U",
    "1,2,3", "'A", "%1010", "%10101010", "$12345", "70000", "X", "[X]", "[", "]", "#", "<", ">", "@X",
]

progs = {}
for m in MNEMONICS:
    for f in FORMS:
        progs["m|{}|{}".format(m, f)] = one(" {} {}".format(m, f))

# value sweeps through the offset / literal width boundaries
SWEEP = sorted(set(
    list(range(-34, 35)) + [v + d for v in (-32768, -256, -129, -128, -127, -17, -16, -15, 15, 16, 17, 127, 128, 129,
                                            255, 256, 257, 4095, 4096, 32767, 32768, 65535)
                            for d in (-2, -1, 0, 1, 2)]))
SWEEP = [v for v in SWEEP if -32770 <= v <= 65537]
for v in SWEEP:
    for m in ("LDA", "LDX", "LEAY", "STD", "NEG", "JMP", "CMPU"):
        for reg in ("X", "S"):
            progs["sw|{}|{},{}".format(m, v, reg)] = one(" {} {},{}".format(m, v, reg))
            progs["swi|{}|[{},{}]".format(m, v, reg)] = one(" {} [{},{}]".format(m, v, reg))
        progs["swp|{}|{},PCR".format(m, v)] = one(" {} {},PCR".format(m, v))
        progs["swd|{}|{}".format(m, v)] = one(" {} {}".format(m, v))
        progs["swm|{}|#{}".format(m, v)] = one(" {} #{}".format(m, v))
        progs["swe|{}|[{}]".format(m, v)] = one(" {} [{}]".format(m, v))
        if v >= 0:
            progs["swh|{}|${:X},Y".format(m, v)] = one(" {} ${:X},Y".format(m, v))
            progs["swh2|{}|${:04X},U".format(m, v)] = one(" {} ${:04X},U".format(m, v))
            progs["swq|{}|".format(m) + str(v)] = ["V EQU {}".format(v), " {} V,X".format(m), " {} [V,Y]".format(m),
                                                      " {} V".format(m), " {} #V".format(m), " {} <V".format(m),
                                                      " {} >V".format(m)]

# register combinations
REGS = ["A", "B", "D", "X", "Y", "U", "S", "CC", "DP", "PC", "Q", "", "a", "PCR"]
for m in ("TFR", "EXG"):
    for r1 in REGS:
        for r2 in REGS:
            progs["rp|{}|{},{}".format(m, r1, r2)] = one(" {} {},{}".format(m, r1, r2))
import itertools
STACKABLE = ["CC", "A", "B", "D", "DP", "X", "Y", "U", "S", "PC"]
for m in ("PSHS", "PSHU", "PULS", "PULU"):
    for n in (1, 2, 3):
        for combo in itertools.combinations(STACKABLE, n):
            progs["st|{}|{}".format(m, ",".join(combo))] = one(" {} {}".format(m, ",".join(combo)))
    progs["st|{}|all".format(m)] = one(" {} {}".format(m, ",".join(STACKABLE)))
    progs["st|{}|dup".format(m)] = one(" {} A,A,B,X,X".format(m))
    progs["st|{}|bad".format(m)] = one(" {} A,Z".format(m))
    progs["st|{}|trail".format(m)] = one(" {} A,".format(m))

# multi statement programs: labels, forward/backward references, PCR sizing, branches
progs["multi1"] = [
    "        NAM  TEST", "        ORG  $0E00", "ZP      EQU  $10", "BIG     EQU  $1234", "NEGV    EQU  -5",
    "START   LDA  #$01", "        LDB  ZP", "        LDX  BIG", "        STA  <ZP", "        STB  >ZP",
    "LOOP    LEAX 1,X", "        LEAY ZP,Y", "        LEAU BIG,U", "        LDD  [BIG]", "        LDD  [ZP,X]",
    "        LDA  TABLE,PCR", "        LEAX TABLE,PCR", "        LDA  [TABLE,PCR]", "        BNE  LOOP",
    "        LBRA END", "        JSR  SUB", "        JMP  START", "        LDX  #TABLE", "        LDX  #TABLE+2",
    "        LDA  TABLE+1", "        STA  TABLE-1", "        PSHS A,B,X", "        PULS A,B,X,PC",
    "SUB     TFR  X,D", "        EXG  A,B", "        RTS", "TABLE   FCB  1,2,3", "        FDB  $1234,5",
    "        FCC  'HELLO'", "        RMB  4", "        FCB  $FF", "        FDB  START", "END     SWI", "        END  START",
]
progs["multi_far"] = ["        ORG $1000", "BEGIN   LDA FAR,PCR", "        LEAX FAR,PCR", "        LDB [FAR,PCR]"] + \
                     ["        LDD  #$1234"] * 60 + ["FAR     NOP", "        LDA BEGIN,PCR", "        LEAY BEGIN,PCR",
                                                     "        LBNE BEGIN", "        LBSR FAR"]
progs["multi_near"] = ["        ORG $1000", "BEGIN   LDA NEAR,PCR"] + ["        NOP"] * 120 + \
                      ["NEAR    NOP", "        LDA BEGIN,PCR", "        BRA NEAR"]
progs["branch_out_of_range"] = ["BEGIN   BRA FAR"] + ["        LDD  #$1234"] * 60 + ["FAR     NOP"]
progs["branch_back_out_of_range"] = ["BEGIN   NOP"] + ["        LDD  #$1234"] * 60 + ["        BRA BEGIN"]
progs["dup_label"] = ["A1 NOP", "A1 NOP"]
progs["undef"] = [" LDA NOPE"]
progs["undef_idx"] = [" LDA NOPE,X"]
progs["bad_mnemonic"] = [" FOO 1"]
progs["no_parse"] = ["!!!"]
progs["label_expr_idx"] = ["T EQU 4", "L NOP", " LDA T+1,X", " LDA L+1,X", " LDA [T*2,Y]", " LDA T/2,U", " LDA T-8,S",
                           " LEAX L+2,PCR", " LEAX [L-1,PCR]"]
progs["char_and_bin"] = [" LDA #'A", " LDB #%00001111", " LDX #%0000111100001111", " LDA %00010000", " CMPA #'z",
                         " LDA 'A,X", " LDA %00000001,Y"]
progs["pseudo"] = ["X1 EQU $10", "X2 EQU $0010", "X3 EQU 300", " FCB X1", " FDB X2", " FCB 1,", " FDB ,2", " RMB 0",
                   " RMB 3", " FCC /A B/ trailing", " SETDP $10", " FCB -1", " FDB -1", " FCB 'A"]
progs["fcb_big"] = [" FCB $1234"]
progs["rmb_sym"] = ["N EQU 3", " RMB N"]
progs["org_twice"] = [" ORG $100", " NOP", " ORG $200", "L NOP", " JMP L", " LDA L,PCR"]
progs["include_missing"] = [" INCLUDE nothere.asm"]
progs["end_only"] = [" END"]
progs["empty"] = []
progs["comment_only"] = ["; hello", "", "   ; another"]

for key, lines in progs.items():
    results["P:" + key] = run_program(lines)


# ---------------------------------------------------------------- unit level
def attempt(name, fn):
    try:
        results["U:" + name] = fn()
    except Exception as error:
        results["U:" + name] = describe_error(error)


def pkg(p):
    def v(x):
        if isinstance(x, Value):
            return [type(x).__name__, x.hex(), x.hex_len(), x.int, x.size_hint, x.negative, x.explict_addressing_mode.name]
        return repr(x)
    return {"op": v(p.op_code), "addr": v(p.address), "pb": v(p.post_byte), "add": v(p.additional), "size": p.size,
            "max": p.max_size, "res": p.additional_needs_resolution, "ch": list(p.post_byte_choices)}


def instr(m):
    return next(i for i in INSTRUCTIONS if i.mnemonic == m)


# SpecialOperand directly, including mnemonics that are not special-table members
for m in ("PSHS", "PSHU", "PULS", "PULU", "TFR", "EXG"):
    for s in ("", "A", "A,B", "X,Y", "U", "S", "U,S", "D,A", "PC,CC", "DP,DP", "Z", "A,B,C", ",", "A,", ",A",
              "CC,A,B,DP,X,Y,U,S,PC", "D,X", "X,A", "A,CC", "B,DP", "PC,PC", "S,U", "x,y", " A", "A, B"):
        attempt("special|{}|{}".format(m, s), lambda m=m, s=s: pkg(SpecialOperand(s, instr(m)).translate()))
for m in ("LDA", "NOP", "ORG"):
    attempt("special_ctor|" + m, lambda m=m: pkg(SpecialOperand("A", instr(m)).translate()))
fake = Instruction(mnemonic="WEIRD", mode=Mode(imm=0x77, imm_sz=2), is_special=True)
attempt("special_fake", lambda: pkg(SpecialOperand("A,B", fake).translate()))
fake2 = Instruction(mnemonic="PSHS", mode=Mode(), is_special=True)
attempt("special_fake2", lambda: pkg(SpecialOperand("A,B", fake2).translate()))

# Indexed / extended indexed operands directly (no symbol resolution, odd right hand sides)
IDX = [",X", ",Y", ",U", ",S", ",XY", ",US", ",Q", ",", "A,X", "B,U", "D,S", "E,X", "1,X", "-1,X", "-16,Y", "-17,Y",
       "16,U", "127,S", "128,S", "-128,X", "-129,X", "$10,X", "$0010,X", "65535,X", "-32768,X", ",X+", ",X++", ",-X",
       ",--X", ",+X", ",X-", "1,X+", "1,-X", "4,PCR", "$1234,PCR", "-4,PCR", "4,PC", "SYM,X", "SYM,PCR", "1+1,X",
       "SYM+1,Y", ",PCR", "A,PCR", "0,X+", "0,--Y", "$00,X", "0,PCR", "A,X+", "A,--S", "%00000001,X", "'A,X"]
for m in ("LDA", "LDX", "LEAX", "STD", "JMP", "NOP", "BRA", "ANDCC"):
    for s in IDX:
        def go(m=m, s=s, resolve=False):
            o = IndexedOperand(s, instr(m))
            if resolve:
                o = o.resolve_symbols({"SYM": NumericValue(20)})
            return [type(o).__name__, pkg(o.translate()), repr(o.left if isinstance(o.left, str) else o.left.hex())]
        attempt("idx|{}|{}".format(m, s), go)
        attempt("idxr|{}|{}".format(m, s), lambda m=m, s=s: go(m, s, True))

        def goe(m=m, s=s, resolve=False):
            o = ExtendedIndexedOperand("[" + s + "]", instr(m))
            if resolve:
                o = o.resolve_symbols({"SYM": NumericValue(20)})
            return [type(o).__name__, pkg(o.translate()), repr(o.left if isinstance(o.left, str) else o.left.hex())]
        attempt("eidx|{}|{}".format(m, s), goe)
        attempt("eidxr|{}|{}".format(m, s), lambda m=m, s=s: goe(m, s, True))
for s in ("[$1234]", "[$12]", "[10]", "[SYM]", "[]", "[", "X]", "[[1,X]]", "[#1]", "[<1]", "[>1,X]"):
    attempt("eidx_plain|" + s, lambda s=s: pkg(ExtendedIndexedOperand(s, instr("LDA")).translate()))
    attempt("eidx_plain_r|" + s, lambda s=s: pkg(
        ExtendedIndexedOperand(s, instr("LDA")).resolve_symbols({"SYM": AddressValue(3)}).translate()))

# Operand.create_from_str classification
CLS = ["", "#1", "#$FF", "#SYM", "1", "$FF", "$FFFF", "<1", ">1", "SYM", "SYM+1", "[1]", "[1,X]", "1,X", ",X", "A,B",
       "#", "[", "]", "1,2,3", "'A", "/HI/", "1,", "!!", "#1,X", "<1,X", "[SYM,PCR]", "SYM,PCR", "-1", "--1", "#-1"]
for m in ("LDA", "LDX", "NOP", "BRA", "LBRA", "PSHS", "TFR", "FCB", "FDB", "FCC", "EQU", "ORG", "RMB", "END", "INCLUDE",
          "NAM", "SETDP", "NEG", "LEAX", "JMP"):
    for s in CLS:
        def cl(m=m, s=s):
            o = Operand.create_from_str(s, instr(m))
            v = o.value
            return [type(o).__name__, o.type.name, o.operand_string, type(v).__name__, v.hex(), v.hex_len(), v.int,
                    v.size_hint, v.explict_addressing_mode.name,
                    repr(o.left if isinstance(o.left, str) else o.left.hex()),
                    repr(o.right if isinstance(o.right, str) else o.right.hex())]
        attempt("cls|{}|{}".format(m, s), cl)

        def rs(m=m, s=s):
            o = Operand.create_from_str(s, instr(m))
            o = o.resolve_symbols({"SYM": NumericValue(7), "ADR": AddressValue(2)})
            return [type(o).__name__, o.type.name, pkg(o.translate())]
        attempt("clsres|{}|{}".format(m, s), rs)

# per mode translate() against every table row
for i in INSTRUCTIONS:
    for cls_, arg in ((ImmediateOperand, "#$12"), (ImmediateOperand, "#$1234"), (DirectOperand, "<$12"),
                      (DirectOperand, "$12"), (DirectOperand, "$1234"), (ExtendedOperand, ">$12"),
                      (ExtendedOperand, "$1234"), (InherentOperand, ""), (InherentOperand, "1"),
                      (RelativeOperand, "SYM"), (UnknownOperand, "SYM"), (UnknownOperand, "1,2")):
        attempt("mode|{}|{}|{}".format(i.mnemonic, cls_.__name__, arg),
                lambda i=i, cls_=cls_, arg=arg: pkg(cls_(arg, i).translate()))

# NumericValue rendering
NV = list(range(-300, 300)) + [v + d for v in (4095, 4096, 32767, 32768, 65535, -32768, -4096, -65535)
                               for d in (-1, 0, 1)]
for v in NV:
    for hint in (None, 2, 4, 0, 1, 3, 6):
        def nv(v=v, hint=hint):
            n = NumericValue(v, size_hint=hint)
            return [n.int, n.negative, n.size_hint, n.explict_addressing_mode.name, n.hex(), n.hex(2), n.hex(4),
                    n.hex(1), n.hex(3), n.hex_len(), n.byte_len(), n.get_negative(), n.get_negative(2),
                    n.get_negative(4), n.is_4_bit(), n.is_8_bit(), n.is_16_bit(), n.high_byte(), n.low_byte(), str(n),
                    n.ascii(), n.is_negative()]
        attempt("nv|{}|{}".format(v, hint), nv)
STRS = ["0", "1", "15", "16", "127", "128", "255", "256", "65535", "65536", "-0", "-1", "-16", "-17", "-128", "-129",
        "-32768", "-32769", "$0", "$F", "$FF", "$0FF", "$FFF", "$FFFF", "$10000", "$00000", "$G", "$", "%0", "%1010",
        "%10101010", "%1010101010101010", "%101010101", "%", "%2", "'A", "'a", "'", "''", "' ", "'AB", "''A", "abc",
        "", " 1", "1 ", "+1", "1.0", "0x10", "007", "$ff", "$Ab"]
for s in STRS:
    for mode in ExplicitAddressingMode:
        for hint in (None, 2, 4):
            def ns(s=s, mode=mode, hint=hint):
                n = NumericValue(s, size_hint=hint, mode=mode)
                return [n.int, n.negative, n.size_hint, n.explict_addressing_mode.name, n.hex(), n.hex(2), n.hex(4),
                        n.hex_len(), n.get_negative(), n.is_4_bit(), n.is_8_bit(), n.is_16_bit()]
            attempt("ns|{}|{}|{}".format(s, mode.name, hint), ns)
for s in STRS + ["#1", "<1", ">1", "#$FF", "<$FFFF", ">$1", "A,X", "1,2,3", "A+B", "A+1", "$10+$20", "1/0", "@A", "A@",
                 "A_B", "#", "<", ">"]:
    for m in (None, "LDA", "LDX", "FCC", "FCB"):
        for dme in (True, False):
            def cv(s=s, m=m, dme=dme):
                n = Value.create_from_str(s, instr(m) if m else None, default_mode_extended=dme)
                return [type(n).__name__, n.int, n.negative, n.size_hint, n.explict_addressing_mode.name, n.hex(),
                        n.hex_len(), n.ascii()]
            attempt("cv|{}|{}|{}".format(s, m, dme), cv)
for cls_ in (DirectNumericValue, ExtendedNumericValue):
    for v in (0, 1, 255, 256, 65535, 65536, -1, "$10", "$1000", "10", "-10"):
        for hint in (None, 2, 4):
            attempt("dnv|{}|{}|{}".format(cls_.__name__, v, hint), lambda cls_=cls_, v=v, hint=hint: (
                lambda n: [n.int, n.size_hint, n.explict_addressing_mode.name, n.hex(), n.hex_len()])(cls_(v, hint)))

# byte emission from hand-made code packages
from cocoasm.statement import Statement as _S


def emit(op, pb, add):
    p = Program()
    s = _S("L NOP ")
    s.code_pkg = CodePackage(op_code=op, post_byte=pb, additional=add)
    c = _S("; just a comment")
    e = _S("")
    p.statements = [c, s, e, s]
    return p.get_binary_array()


EM = {
    "none": (NoneValue(), NoneValue(), NoneValue()),
    "op": (NumericValue(0x12), NoneValue(), NoneValue()),
    "op2": (NumericValue(0x1012), NoneValue(), NoneValue()),
    "all": (NumericValue(0x10AE), NumericValue(0x9F), NumericValue(0x1234)),
    "hint_short": (NumericValue(0x12), NumericValue(0x84), NumericValue(0x1234, size_hint=2)),
    "hint_long": (NumericValue(0x12), NumericValue(0x84), NumericValue(0x12, size_hint=4)),
    "hint6": (NumericValue(0x12), NoneValue(), NumericValue(0, size_hint=6)),
    "hint3": (NumericValue(0x12), NoneValue(), NumericValue(5, size_hint=3)),
    "hint1": (NumericValue(0x12), NoneValue(), NumericValue(5, size_hint=1)),
    "neg": (NumericValue(0x12), NoneValue(), NumericValue(-5)),
    "neg4": (NumericValue(0x12), NoneValue(), NumericValue(-5, size_hint=4)),
    "neg200": (NumericValue(0x12), NoneValue(), NumericValue(-200)),
    "addr": (NumericValue(0x12), NoneValue(), AddressValue(0x123)),
    "addr2": (NumericValue(0x12), NoneValue(), AddressValue(0x1234)),
    "addr1": (NumericValue(0x12), NoneValue(), AddressValue(0x1)),
    "str": (NoneValue(), NoneValue(), StringValue("'HELLO'")),
    "str_lowchar": (NoneValue(), NoneValue(), StringValue("'A\tB'")),
    "mb": (NoneValue(), NoneValue(), MultiByteValue("1,2,$FF")),
    "mw": (NoneValue(), NoneValue(), MultiWordValue("1,2,$FFFF")),
    "sym": (NumericValue(0x12), NoneValue(), SymbolValue("FOO")),
    "expr": (NumericValue(0x12), NoneValue(), ExpressionValue("FOO+1")),
    "lr": (NumericValue(0x12), NoneValue(), LeftRightValue("1,X")),
    "zero": (NumericValue(0), NumericValue(0), NumericValue(0)),
}
for key, (op, pb, add) in EM.items():
    attempt("emit|" + key, lambda op=op, pb=pb, add=add: emit(op, pb, add))

# statement level helpers
for line in ("L LDA #1 ; c", " LDA", " NOP ", "L NOP ;c", "LDA #1", " lda #1", "L: LDA #1", " LDA #1,", " FCC 'A B' ; c", " FCC", " FCC 'AB",
             "@L LDA @L", " LDA  [1,X] comment", "\tLDA\t#1"):
    def st(line=line):
        s = Statement(line)
        return [s.is_empty, s.is_comment_only, s.label, s.mnemonic, s.comment,
                None if s.operand is None else [type(s.operand).__name__, s.operand.operand_string]]
    attempt("stmt|" + line, st)

print(json.dumps(results, sort_keys=True, default=repr))
'''

CLI_SOURCES = {
    "ok.asm": "\n".join([
        "        NAM  DEMO", "        ORG  $0E00", "ZP      EQU  $10", "START   LDA  #$01", "        LDB  ZP",
        "LOOP    LEAX 1,X", "        LEAX -1,X", "        LEAX 100,X", "        LEAX -100,X", "        LEAX 1000,X",
        "        LEAX -1000,X", "        LDD  [$1234]", "        LDD  [5,X]", "        LDD  [A,X]", "        LDD  ,X++",
        "        LDD  [,--Y]", "        LDA  TABLE,PCR", "        BNE  LOOP", "        PSHS A,B,X,U", "        PULU A,B,X,S",
        "        TFR  X,D", "        EXG  A,B", "        NEG  <ZP", "        NEG  >ZP", "        NEG  ZP", "        SWI",
        "        SYNC", "        SWI2", "        SWI3", "        CWAI #$FF", "        ANDCC #$FE", "        LDX  1,X",
        "        LDX  100,Y", "        STX  -100,U", "        CMPY #$1234", "        CMPS ZP", "TABLE   FCB  1,2,3",
        "        FDB  $1234", "        FCC  'HI'", "        END  START", ""]),
    "bad_tfr.asm": " TFR A,X\n",
    "bad_psh.asm": " PSHS S\n",
    "bad_mnem.asm": " FOO 12\n",
    "bad_idx.asm": " LDA 5,X+\n",
    "bad_imm.asm": " STA #5\n",
    "bad_ind.asm": " LDA [,X+]\n",
    "undef.asm": " LDA NOPE,X\n",
    "noname.asm": " ORG $2000\n LDA #1\n RTS\n",
    "empty.asm": "",
}


def sha(path):
    with open(path, "rb") as handle:
        return hashlib.sha256(handle.read()).hexdigest()


def run_tree(tree):
    tree = os.path.abspath(tree)
    env = dict(os.environ, PYTHONDONTWRITEBYTECODE="1", PYTHONHASHSEED="0")
    proc = subprocess.run([PY, "-c", RUNNER, tree], cwd=tree, env=env, capture_output=True, text=True)
    if proc.returncode != 0:
        return {"runner_failed": proc.stderr[-4000:]}
    data = json.loads(proc.stdout)
    if proc.stderr:
        data["runner_stderr"] = proc.stderr

    # command line tool: stdout, exit code and every file written
    with tempfile.TemporaryDirectory() as work:
        for name, text in CLI_SOURCES.items():
            with open(os.path.join(work, name), "w") as handle:
                handle.write(text)
        for name in sorted(CLI_SOURCES):
            stem = name[:-4]
            variants = [
                ["--print", "--symbols"],
                ["--print", "--symbols", "--to_bin", stem + ".bin"],
                ["--to_cas", stem + ".cas", "--name", "FOO"],
                ["--to_dsk", stem + ".dsk", "--name", "FOO"],
                ["--to_cas", stem + ".cas", "--name", "BAR", "--append"],
            ]
            for index, extra in enumerate(variants):
                cmd = [PY, os.path.join(tree, "assembler.py"), name] + extra
                env2 = dict(env, PYTHONPATH=tree)
                proc = subprocess.run(cmd, cwd=work, env=env2, capture_output=True, text=True)
                stderr = proc.stderr.replace(tree, "<TREE>")
                # line numbers in tracebacks may legitimately move; keep only the final line
                stderr_tail = stderr.strip().splitlines()[-1:] if stderr.strip() else []
                data["CLI:{}:{}".format(name, index)] = {
                    "rc": proc.returncode, "stdout": proc.stdout, "stderr_tail": stderr_tail,
                    "files": {f: sha(os.path.join(work, f)) for f in sorted(os.listdir(work))},
                }
        # second command line tool: list and convert the images the assembler just wrote
        for image in sorted(f for f in os.listdir(work) if f.endswith((".cas", ".dsk", ".bin"))):
            for index, extra in enumerate((["--list"], ["--to_cas", image + ".out.cas"], ["--to_dsk", image + ".out.dsk"])):
                cmd = [PY, os.path.join(tree, "file_util.py"), image] + extra
                proc = subprocess.run(cmd, cwd=work, env=dict(env, PYTHONPATH=tree), capture_output=True, text=True)
                stderr = proc.stderr.replace(tree, "<TREE>")
                data["FU:{}:{}".format(image, index)] = {
                    "rc": proc.returncode, "stdout": proc.stdout,
                    "stderr_tail": stderr.strip().splitlines()[-1:] if stderr.strip() else [],
                    "files": {f: sha(os.path.join(work, f)) for f in sorted(os.listdir(work))},
                }
    return data


def main():
    if len(sys.argv) != 3:
        print(__doc__)
        return 2
    a = run_tree(sys.argv[1])
    b = run_tree(sys.argv[2])
    if "runner_failed" in a or "runner_failed" in b:
        print("runner failed:", a.get("runner_failed"), b.get("runner_failed"))
        return 1
    keys = sorted(set(a) | set(b))
    diffs = [k for k in keys if a.get(k, "<missing>") != b.get(k, "<missing>")]
    print("cases compared: {}".format(len(keys)))
    for k in diffs[:25]:
        print("DIFF {}:\n  A={}\n  B={}".format(k, json.dumps(a.get(k))[:600], json.dumps(b.get(k))[:600]))
    if diffs:
        print("{} differing cases".format(len(diffs)))
        return 1
    print("all agree")
    return 0


if __name__ == "__main__":
    sys.exit(main())
