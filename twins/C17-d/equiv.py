#!/usr/bin/env python
"""
Differential check for refactoring C17/d (PseudoOperand.translate and its new helpers sized_package / define_package).

usage: equiv.py <treeA> <treeB>

A driver is run once per tree in a subprocess (tree at the front of sys.path and as cwd); it prints
one JSON record per case (results, exception type and message, CLI stdout/stderr/exit status, hashes of
the files produced). The two outputs must be identical; exit 0 if so, 1 otherwise.
"""
import json
import os
import subprocess
import sys
import tempfile

DRIVER = r'''
import sys, os, json, subprocess, hashlib
tree, work = sys.argv[1], sys.argv[2]
sys.path.insert(0, tree)
from cocoasm.program import Program
from cocoasm.statement import Statement
from cocoasm.instruction import INSTRUCTIONS, CodePackage, Instruction, Mode
from cocoasm.operands import *
from cocoasm.operands import Operand
from cocoasm.values import *
from cocoasm.values import Value
from cocoasm.exceptions import *

def attempt(fn):
    try:
        return ["ok", fn()]
    except BaseException as e:
        extra = []
        if hasattr(e, "value"):
            extra.append(str(e.value))
        if hasattr(e, "statement"):
            try:
                extra.append(str(e.statement))
            except BaseException as inner:
                extra.append("unprintable statement: " + type(inner).__name__)
        return ["raise", type(e).__name__, str(e), extra]

CASES = []
def case(name, fn):
    CASES.append((name, fn))

def L(text):
    return [line + "\n" for line in text.strip("\n").split("\n")]

def vdesc(v):
    if v is None or isinstance(v, (str, int, bool, list, tuple)):
        return repr(v)
    out = [type(v).__name__]
    for attr in ("type", "int", "size_hint", "explict_addressing_mode", "negative", "resolved", "original_string"):
        out.append(repr(getattr(v, attr, "<none>")))
    for meth in ("hex", "hex_len", "byte_len"):
        try:
            out.append(repr(getattr(v, meth)()))
        except BaseException as e:
            out.append(type(e).__name__)
    for attr in ("left", "right", "value"):
        inner = getattr(v, attr, None)
        if inner is not None and inner is not v:
            out.append(attr + "=" + (vdesc(inner) if not isinstance(inner, str) else repr(inner)))
    return " ".join(out)

def pdesc(p):
    return dict(op_code=vdesc(p.op_code), address=vdesc(p.address), post_byte=vdesc(p.post_byte),
                additional=vdesc(p.additional), size=p.size, max_size=p.max_size,
                needs=p.additional_needs_resolution, choices=list(p.post_byte_choices))

def assemble(lines):
    given = list(lines)
    copy_of_given = list(given)
    program = Program()
    outcome = attempt(lambda: program.process(given))
    result = dict(outcome=outcome, untouched=(given == copy_of_given))
    result["binary"] = attempt(program.get_binary_array)
    result["listing"] = attempt(program.get_statements)
    result["symbols"] = attempt(program.get_symbol_table)
    result["symbol_order"] = list(program.symbol_table.keys())
    result["origin"] = vdesc(program.origin)
    result["name"] = program.name
    result["packages"] = attempt(lambda: [pdesc(s.code_pkg) for s in program.statements])
    return result


PROGRAMS = {}
PROGRAMS["basic"] = L("""
        NAM BASIC
        ORG $0E00
START   LDA #$01        ; load
        LDB #10
        STA $0400
        STB <$20
        LDX #START
        LDD #$1234
LOOP    DECA
        BNE LOOP
        JSR SUB
        RTS
SUB     CLRA
        RTS
        END START
""")
PROGRAMS["inherent"] = L("""
        ORG $1000
        ABX
        ASLA
        ASLB
        CLRA
        CLRB
        COMA
        DAA
        DECB
        INCA
        LSRA
        MUL
        NEGA
        NOP
        ROLA
        RORB
        RTI
        RTS
        SEX
        SWI
        SWI2
        SWI3
        SYNC
        TSTA
""")
PROGRAMS["immediate"] = L("""
        ORG $2000
        ADCA #$10
        ADDB #255
        ADDD #$1234
        ANDA #%10101010
        ANDCC #$FE
        BITA #'A
        CMPA #0
        CMPX #$FFFF
        CMPY #1
        CMPU #$0100
        CMPS #256
        CMPD #65535
        EORB #$0F
        LDS #$7FFF
        LDU #$0001
        LDY #%1111000011110000
        ORA #1
        ORCC #$50
        SBCA #2
        SUBD #3
        CWAI #$FF
""")
PROGRAMS["direct_extended"] = L("""
        ORG $3000
VAL     EQU $20
BIG     EQU $1234
        LDA $20
        LDA $0020
        LDA <$20
        LDA >$20
        LDA >$0020
        LDA VAL
        LDA BIG
        STA 32
        STA 300
        NEG $10
        NEG $1000
        JMP $4000
        JMP BIG
        JSR VAL
        LDX DATA
        STX DATA+2
        LDD DATA-1
        INC <VAL
        TST >VAL
DATA    FDB $0001,$0002
""")
PROGRAMS["indexed"] = L("""
        ORG $4000
        LDA ,X
        LDA ,Y
        LDA ,U
        LDA ,S
        LDA ,X+
        LDA ,X++
        LDA ,-Y
        LDA ,--Y
        LDA 0,X
        LDA 1,X
        LDA 15,X
        LDA 16,X
        LDA -16,X
        LDA -17,X
        LDA 127,Y
        LDA 128,Y
        LDA -128,U
        LDA -129,U
        LDA $10,S
        LDA $1000,S
        LDA A,X
        LDA B,Y
        LDA D,U
        LEAX 1,X
        LEAY -1,Y
        LEAS 10,S
        LEAU D,U
        STA 300,X
        LDD 32767,X
""")
PROGRAMS["indirect"] = L("""
        ORG $5000
        LDA [,X]
        LDA [,X++]
        LDA [,--Y]
        LDA [0,X]
        LDA [5,X]
        LDA [-5,Y]
        LDA [200,U]
        LDA [$1000,S]
        LDA [A,X]
        LDA [B,Y]
        LDA [D,S]
        LDA [$2000]
        LDA [TARGET]
        JMP [TARGET]
        JSR [$FFFE]
TARGET  FDB $1234
""")
PROGRAMS["pcr"] = L("""
        ORG $6000
BEGIN   LEAX TABLE,PCR
        LDA TABLE,PCR
        LDB [TABLE,PCR]
        LEAY BEGIN,PCR
        LDD 10,PCR
        LDD $1000,PCR
        LEAX TABLE+1,PCR
        LEAX FAR,PCR
        RMB 200
TABLE   FCB 1,2,3,4
FAR     FCB 5
        LEAX BEGIN,PCR
        LEAX TABLE,PCR
""")
PROGRAMS["branches"] = L("""
        ORG $7000
TOP     NOP
        BRA TOP
        BEQ DOWN
        BNE DOWN
        BSR DOWN
        LBRA TOP
        LBSR DOWN
        LBEQ DOWN
        LBNE TOP
        BCC TOP
        BCS TOP
        BGE TOP
        BGT TOP
        BHI TOP
        BHS TOP
        BLE TOP
        BLO TOP
        BLS TOP
        BLT TOP
        BMI TOP
        BPL TOP
        BRN TOP
        BVC TOP
        BVS TOP
DOWN    RTS
""")
PROGRAMS["special"] = L("""
        ORG $0100
        PSHS A,B,X
        PSHS CC,A,B,DP,X,Y,U,PC
        PULS D
        PULS PC
        PSHU S,X
        PULU A
        TFR A,B
        TFR X,Y
        TFR D,U
        TFR S,PC
        EXG A,B
        EXG X,D
        EXG CC,DP
""")
PROGRAMS["data"] = L("""
        NAM DATA
        ORG $0200
B1      FCB 1
B2      FCB $FF
B3      FCB 1,2,3
B4      FCB $AA,255,%00001111
W1      FDB 1
W2      FDB $1234
W3      FDB 1,$FFFF,300
S1      FCC "HELLO"
S2      FCC /WORLD/ trailing comment
S3      FCC "A;B" ; real comment
R1      RMB 1
R2      RMB 16
AFTER   FCB 0
        SETDP $02
        END
""")
PROGRAMS["equ_chain"] = L("""
ONE     EQU 1
TWO     EQU $02
BIG     EQU $1000
BIGH    EQU $0010
CH      EQU 'A
        ORG BIG
        LDA #ONE
        LDA #TWO
        LDA #CH
        LDX #BIG
        LDA ONE
        LDA BIG
        LDA BIGH
        LDA ONE+1
        LDA BIG+1
        LDA BIG-1
        LDA #ONE+TWO
        LDX #BIG*2
        LDX #BIG/2
        LDA TWO,X
        LDA BIG,X
        LDA HERE,X
HERE    STA BIG,Y
        LDX #HERE
        LDX #HERE+4
        LDX #HERE-4
""")
PROGRAMS["forward_refs"] = L("""
        ORG $0E00
        JMP END1
        LDX #END1
        LDA END1
        LDA END1+1
        BRA END1
        LBRA END1
        LEAX END1,PCR
        LDA END1,X
MID     NOP
END1    FCB 1
        FDB 2
""")
PROGRAMS["no_org"] = L("""
FIRST   LDA #1
        STA FIRST
        BRA FIRST
        JMP FIRST
""")
PROGRAMS["two_orgs"] = L("""
        ORG $1000
A1      LDA #1
        ORG $2000
A2      LDA #2
        JMP A1
        JMP A2
""")
PROGRAMS["case_ws"] = L("""
        org $0e00
start   lda #$01
  ldb   #2     ; odd spacing
label@1 sta   $400
Lower   Jmp   start
	TAB	NOP
        bra label@1
""")
PROGRAMS["comments_blank"] = L("""
; a comment line

        ; indented comment
        ORG $0E00   ; origin
        NOP         ; a ; second ; semicolon
        NOP;tight
X1      NOP
""")
PROGRAMS["long_branch_range"] = ["        ORG $0E00\n", "TOP     NOP\n"] + ["        LDA $1234\n"] * 60 + \
    ["        LBRA TOP\n", "        LBNE BOT\n"] + ["        STA $1234\n"] * 60 + ["BOT     RTS\n"]
PROGRAMS["short_edge_back"] = ["        ORG $0E00\n", "TOP     NOP\n"] + ["        NOP\n"] * 125 + ["        BRA TOP\n"]
PROGRAMS["short_edge_fwd"] = ["        ORG $0E00\n", "        BRA BOT\n"] + ["        NOP\n"] * 127 + ["BOT     RTS\n"]
PROGRAMS["pcr_sizes"] = ["        ORG $0E00\n", "TOP     LEAX BOT,PCR\n", "        LEAY TOP,PCR\n"] + \
    ["        NOP\n"] * 120 + ["        LEAX BOT,PCR\n", "        LEAX TOP,PCR\n", "MIDDLE  LEAU FARBOT,PCR\n"] + \
    ["        NOP\n"] * 10 + ["BOT     RTS\n"] + ["        NOP\n"] * 140 + ["FARBOT  RTS\n", "        LEAX MIDDLE,PCR\n"]
PROGRAMS["register_labels"] = L("""
        ORG $0E00
AX      LDA #1
BY      LDB AX
XS      STA BY,X
PCX     LDA XS,PCR
        LDA AX,Y
        LDX #PCX
""")
PROGRAMS["fdb_symbol"] = L("""
        ORG $0E00
TAB     FDB $0E10
        FCB 7
PTR     LDX TAB
        LDD #TAB
""")
PROGRAMS["negatives"] = L("""
        ORG $0E00
        LDA #-1
        LDB #-128
        LDX #-1
        LDD #-32768
        LDA -1,X
        ADDA #-5
""")
# rejected programs
PROGRAMS["bad_mnemonic"] = L("""
        ORG $0E00
        FOO #1
""")
PROGRAMS["bad_line"] = L("""
        ORG $0E00
NOSPACE
""")
PROGRAMS["dup_label"] = L("""
        ORG $0E00
SAME    NOP
SAME    NOP
""")
PROGRAMS["undefined_symbol"] = L("""
        ORG $0E00
        LDA MISSING
""")
PROGRAMS["undefined_branch"] = L("""
        ORG $0E00
        BRA NOWHERE
""")
PROGRAMS["branch_out_of_range"] = ["        ORG $0E00\n", "TOP     NOP\n"] + ["        NOP\n"] * 200 + ["        BRA TOP\n"]
PROGRAMS["branch_out_of_range_fwd"] = ["        ORG $0E00\n", "        BEQ BOT\n"] + ["        NOP\n"] * 200 + ["BOT     NOP\n"]
PROGRAMS["bad_register"] = L("""
        ORG $0E00
        PSHS Q
""")
PROGRAMS["own_stack"] = L("""
        ORG $0E00
        PSHS S
""")
PROGRAMS["bad_tfr"] = L("""
        ORG $0E00
        TFR A,X
""")
PROGRAMS["tfr_one_reg"] = L("""
        ORG $0E00
        TFR A
""")
PROGRAMS["empty_push"] = L("""
        ORG $0E00
        PSHS
""")
PROGRAMS["no_immediate"] = L("""
        ORG $0E00
        STA #1
""")
PROGRAMS["no_indexed"] = L("""
        ORG $0E00
        ANDCC 1,X
""")
PROGRAMS["no_extended"] = L("""
        ORG $0E00
        ANDCC $1000
""")
PROGRAMS["no_direct"] = L("""
        ORG $0E00
        LEAX $10
""")
PROGRAMS["needs_operand"] = L("""
        ORG $0E00
        LDA
""")
PROGRAMS["inherent_with_operand"] = L("""
        ORG $0E00
        NOP 5
""")
PROGRAMS["hex_too_long"] = L("""
        ORG $0E00
        LDA $12345
""")
PROGRAMS["int_too_big"] = L("""
        ORG $0E00
        LDX #70000
""")
PROGRAMS["bad_binary"] = L("""
        ORG $0E00
        LDA #%101
""")
PROGRAMS["bad_string"] = L("""
        ORG $0E00
        FCC "UNTERMINATED
""")
PROGRAMS["empty_string"] = L("""
        ORG $0E00
        FCC
""")
PROGRAMS["bad_indexed_auto"] = L("""
        ORG $0E00
        LDA 5,X+
""")
PROGRAMS["bad_indirect_auto"] = L("""
        ORG $0E00
        LDA [,X+]
""")
PROGRAMS["div_zero"] = L("""
        ORG $0E00
        LDA #4/0
""")
PROGRAMS["symbol_to_string"] = L("""
        ORG $0E00
MSG     EQU 1,2
        LDA MSG
""")
PROGRAMS["missing_include"] = L("""
        ORG $0E00
        INCLUDE no_such_file.asm
""")
PROGRAMS["equ_no_value"] = L("""
X       EQU
        LDA X
""")
PROGRAMS["expr_unresolved"] = L("""
        ORG $0E00
        LDA FOO+BAR
""")
PROGRAMS["empty"] = []
PROGRAMS["only_comments"] = ["; nothing\n", "\n", "   \n"]
PROGRAMS["equ_chain_ok"] = [l for l in PROGRAMS["equ_chain"] if "HERE,X" not in l]
PROGRAMS["forward_refs_ok"] = [l for l in PROGRAMS["forward_refs"] if "END1,X" not in l]
PROGRAMS["case_ws_ok"] = [l for l in PROGRAMS["case_ws"] if "TAB" not in l]
PROGRAMS["comments_blank_ok"] = [l for l in PROGRAMS["comments_blank"] if "tight" not in l]
PROGRAMS["register_labels_ok"] = L("""
        ORG $0E00
AX      LDA #1
BY      LDB AX
XS      STA BY
PCX     LDA XS,PCR
        LDA [AX,PCR]
        LDX #PCX
        JMP PCX+1
""")

PROGRAMS["data_more"] = L("""
        NAM MORE
        ORG $0300
V       EQU 5
        FCB V
        FCB 'A
        FCB -1
        FCB 256
        FCB $1234
        FCB 1,
        FCB ,2
        FDB V
        FDB -1
        FDB 'B
        FDB $12
        FDB 1,
        FDB 65535
        RMB V
        RMB 0
        RMB $10
        RMB 300
        FCC ""
        FCC "A"
        FCC 'single'
        SETDP 0
        SET 5
L1      RMB 2
L2      FCB 1
        END
""")
PROGRAMS["rmb_symbol"] = L("""
        ORG $0300
        RMB LATER
LATER   FCB 1
""")
PROGRAMS["fcb_bad_list"] = L("""
        ORG $0300
        FCB 1,X
""")
PROGRAMS["fdb_bad_list"] = L("""
        ORG $0300
        FDB 1,70000
""")
PROGRAMS["org_symbol"] = L("""
BASE    EQU $2000
        ORG BASE
HERE    NOP
        JMP HERE
""")
PROGRAMS["org_none"] = L("""
        ORG
HERE    NOP
        JMP HERE
""")

def instr(mnemonic):
    return next(i for i in INSTRUCTIONS if i.mnemonic == mnemonic)

def pseudo(mnemonic, text):
    operand = PseudoOperand(text, instr(mnemonic))
    before = operand.value
    package = operand.translate()
    again = operand.translate()
    return dict(value=vdesc(operand.value), package=pdesc(package), same_value=operand.value is before,
                additional_is_value=package.additional is operand.value,
                address_is_value=package.address is operand.value,
                fresh_package=package is not again, fresh_choices=package.post_byte_choices is not again.post_byte_choices,
                again=pdesc(again))

OPERANDS = ["", "0", "1", "255", "256", "65535", "$00", "$FF", "$0100", "$FFFF", "%00000001", "%1111111100000000",
            "'A", "-1", "-128", "-129", "SYMBOL", "SYM+1", "1+2", "1,2", "1,2,3", "$AA,$BB", "1,", ",", "300,2",
            "\"TEXT\"", "/T/", "\"\"", "\"AB", "#5", "<$10", ">$10", "1,X", "70000", "$12345", "A B"]
for mnemonic in ("FCB", "FDB", "RMB", "ORG", "FCC", "END", "EQU", "SET", "SETDP", "NAM", "INCLUDE"):
    for text in OPERANDS:
        case("pseudo:%s:%s" % (mnemonic, text), lambda mnemonic=mnemonic, text=text: pseudo(mnemonic, text))
case("pseudo:not_pseudo", lambda: pseudo("LDA", "1"))

CLI_PROGRAMS = ["basic", "data", "data_more", "pcr", "dup_label", "bad_mnemonic", "rmb_symbol", "org_symbol", "fcb_bad_list"]

# every program: cold-ish (first time in this process), again after everything else, and in reverse order
names = list(PROGRAMS)
for name in names:
    case("asm1:" + name, lambda name=name: assemble(PROGRAMS[name]))
for name in reversed(names):
    case("asm2:" + name, lambda name=name: assemble(PROGRAMS[name]))
for name in names[::3]:
    case("asm3:" + name, lambda name=name: [assemble(PROGRAMS[name]), assemble(PROGRAMS[name])])

def snapshot():
    out = {}
    for n in sorted(os.listdir(work)):
        path = os.path.join(work, n)
        if os.path.isfile(path) and not n.endswith(".asm"):
            with open(path, "rb") as f:
                out[n] = hashlib.sha256(f.read()).hexdigest() + ":" + str(os.path.getsize(path))
    return out

def cli(*args, seed="0"):
    env = dict(os.environ, PYTHONHASHSEED=seed, PYTHONDONTWRITEBYTECODE="1")
    p = subprocess.run([sys.executable, os.path.join(tree, "assembler.py")] + list(args), cwd=work,
                       capture_output=True, text=True, env=env)
    err = p.stderr.replace(tree, "<TREE>")
    if "Traceback" in err:
        err = "Traceback ... " + err.strip().splitlines()[-1]
    return [p.returncode, p.stdout.replace(tree, "<TREE>"), err, snapshot()]

for name in names:
    with open(os.path.join(work, name + ".asm"), "w") as f:
        f.writelines(PROGRAMS[name])
for index, name in enumerate(CLI_PROGRAMS):
    case("cli:" + name, lambda name=name, index=index: cli(name + ".asm", "--print", "--symbols", "--to_bin", name + ".bin",
                                              seed=str(index * 7919 % 1000)))

for name, fn in CASES:
    print(json.dumps([name, attempt(fn)], sort_keys=True))
print(json.dumps(["#cases", len(CASES)]))
'''


def run(tree):
    tree = os.path.abspath(tree)
    with tempfile.TemporaryDirectory() as tmp:
        driver = os.path.join(tmp, "driver.py")
        work = os.path.join(tmp, "work")
        os.mkdir(work)
        with open(driver, "w") as handle:
            handle.write(DRIVER)
        env = dict(os.environ, PYTHONDONTWRITEBYTECODE="1", PYTHONHASHSEED="0")
        env.pop("PYTHONPATH", None)
        proc = subprocess.run([sys.executable, driver, tree, work], cwd=tree, env=env,
                              capture_output=True, text=True)
        return proc.returncode, proc.stdout.replace(work, "<WORK>"), proc.stderr.replace(tree, "<TREE>")


def main():
    if len(sys.argv) != 3:
        print(__doc__)
        return 2
    a = run(sys.argv[1])
    b = run(sys.argv[2])
    if a[0] != 0 or b[0] != 0:
        print("driver failed:", a[0], a[2][-2000:], b[0], b[2][-2000:])
        return 1
    lines_a, lines_b = a[1].splitlines(), b[1].splitlines()
    bad = 0
    for la, lb in zip(lines_a, lines_b):
        if la != lb:
            bad += 1
            print("DIFF\n  A: %s\n  B: %s" % (la[:600], lb[:600]))
    if len(lines_a) != len(lines_b):
        bad += 1
        print("different number of records: %d vs %d" % (len(lines_a), len(lines_b)))
    count = json.loads(lines_a[-1])[1] if lines_a else 0
    if count < 30:
        print("too few cases:", count)
        return 1
    print("%d cases compared, %d differences" % (count, bad))
    return 1 if bad else 0


if __name__ == "__main__":
    sys.exit(main())
