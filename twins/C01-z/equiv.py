#!/usr/bin/env python
"""
Differential demonstration for refactoring C01/z.

Usage: python equiv.py <treeA> <treeB>

Runs the same battery of inputs against the code of both trees (one
subprocess per tree, the tree is cwd and the first entry of sys.path) and
compares every observable result: emitted bytes, listing lines, symbol table
lines, origin / name, exception type and message, return values of the
refactored functions, stdout / exit status of assembler.py and the files it
writes.  Exit status 0 when everything agrees, 1 otherwise.
"""
import json
import os
import shutil
import subprocess
import sys
import tempfile

# ---------------------------------------------------------------------------
# Worker: executed once per tree.
# ---------------------------------------------------------------------------
WORKER = r'''
import enum, json, os, subprocess, sys, traceback
tree, spec_path = sys.argv[1], sys.argv[2]
sys.path.insert(0, tree)
os.chdir(tree)
import cocoasm
assert os.path.realpath(os.path.dirname(cocoasm.__file__)).startswith(os.path.realpath(tree)), cocoasm.__file__
from cocoasm import values as V, operands as O, statement as S, program as P, instruction as I
from cocoasm import exceptions as E
from cocoasm.instruction import INSTRUCTIONS, CodePackage, Instruction, Mode
from cocoasm.program import Program
from cocoasm.statement import Statement
from cocoasm.values import *
from cocoasm.operands import *

spec = json.load(open(spec_path))
WORK = spec["workdir"]


def norm(obj, depth=0):
    if depth > 6:
        return "<deep>"
    if obj is None or isinstance(obj, (bool, int, str, float)):
        return obj
    if isinstance(obj, bytes):
        return obj.hex()
    if isinstance(obj, enum.Enum):
        return "{}.{}".format(type(obj).__name__, obj.name)
    if isinstance(obj, (list, tuple)):
        return [norm(x, depth + 1) for x in obj]
    if isinstance(obj, dict):
        return {str(k): norm(v, depth + 1) for k, v in obj.items()}
    if isinstance(obj, BaseException):
        out = {"exc": type(obj).__name__, "msg": str(obj)}
        if hasattr(obj, "value"):
            out["value"] = norm(obj.value, depth + 1)
        if hasattr(obj, "statement"):
            st = obj.statement
            try:
                out["statement"] = st if isinstance(st, str) else str(st)
            except Exception as inner:
                out["statement"] = "unprintable:" + type(inner).__name__
        return out
    if isinstance(obj, V.Value):
        out = {"cls": type(obj).__name__}
        for attr in ("original_string", "type", "resolved", "int", "size_hint",
                     "explict_addressing_mode", "negative", "hex_array", "operation",
                     "original_value"):
            if hasattr(obj, attr):
                out[attr] = norm(getattr(obj, attr), depth + 1)
        for attr in ("left", "right", "value"):
            if hasattr(obj, attr):
                out[attr] = norm(getattr(obj, attr), depth + 1)
        for meth in ("hex", "hex_len", "byte_len", "is_8_bit", "is_16_bit", "high_byte", "low_byte", "ascii"):
            try:
                out[meth + "()"] = norm(getattr(obj, meth)(), depth + 1)
            except Exception as error:
                out[meth + "()"] = "raises " + type(error).__name__ + ": " + str(error)
        return out
    if isinstance(obj, CodePackage):
        return {"cls": "CodePackage", **{k: norm(v, depth + 1) for k, v in sorted(vars(obj).items())}}
    if isinstance(obj, O.Operand):
        out = {"cls": type(obj).__name__}
        for attr in ("type", "operand_string", "requires_resolution", "value", "left", "right", "operation"):
            out[attr] = norm(getattr(obj, attr, "<missing>"), depth + 1)
        out["mnemonic"] = obj.instruction.mnemonic if obj.instruction else None
        return out
    if isinstance(obj, Statement):
        out = {"cls": "Statement"}
        for attr in ("is_empty", "is_comment_only", "label", "mnemonic", "comment", "fixed_size",
                     "pcr_size_hint", "operand", "original_operand", "code_pkg"):
            out[attr] = norm(getattr(obj, attr, "<missing>"), depth + 1)
        try:
            out["str"] = str(obj)
        except Exception as error:
            out["str"] = "raises " + type(error).__name__
        return out
    if isinstance(obj, (Instruction, Mode)):
        return norm(obj._asdict(), depth + 1)
    return "<{}>".format(type(obj).__name__)


def ins(mnemonic):
    return next(i for i in INSTRUCTIONS if i.mnemonic == mnemonic)


def asm(lines):
    """Assemble a program, report everything observable."""
    program = Program()
    try:
        program.process(list(lines))
    except BaseException as error:
        return {"error": norm(error)}
    out = {}
    for key, fn in (("bin", program.get_binary_array), ("listing", program.get_statements),
                    ("symbols", program.get_symbol_table)):
        try:
            out[key] = fn()
        except BaseException as error:
            out[key] = norm(error)
    out["origin"] = norm(program.origin)
    out["name"] = program.name
    out["sizes"] = [(s.code_pkg.size, s.code_pkg.max_size, s.fixed_size, s.pcr_size_hint) for s in program.statements]
    return out


def operand(mnemonic, text):
    return O.Operand.create_from_str(text, ins(mnemonic))


def translate(mnemonic, text, symbols=None):
    op = operand(mnemonic, text)
    op = op.resolve_symbols(symbols or {})
    return [op, op.translate()]


def stmt(line):
    return Statement(line)


def guarded(fn):
    try:
        return norm(fn())
    except BaseException as error:
        return norm(error)


def cli(name, source, args, pre_files=None):
    """Run assembler.py of this tree as a real command line."""
    tag = "A" if spec["which"] == "A" else "B"
    d = os.path.join(WORK, "cli_" + tag + "_" + name)
    os.makedirs(d, exist_ok=True)
    src = os.path.join(d, "prog.asm")
    with open(src, "w") as fh:
        fh.write(source)
    argv = [sys.executable, os.path.join(tree, "assembler.py"), "prog.asm"] + list(args)
    env = dict(os.environ, PYTHONPATH=tree)
    proc = subprocess.run(argv, cwd=d, env=env, capture_output=True, text=True)
    files = {}
    for fn in sorted(os.listdir(d)):
        if fn != "prog.asm":
            with open(os.path.join(d, fn), "rb") as fh:
                files[fn] = fh.read().hex()
    stderr_tail = proc.stderr.strip().splitlines()[-1:] if proc.stderr.strip() else []
    return {"rc": proc.returncode, "stdout": proc.stdout, "stderr_tail": stderr_tail, "files": files}


results = {}
for name, lines in spec["programs"]:
    results["prog:" + name] = asm(lines)

# sweep: every mnemonic of the table against every operand form
for form in spec["forms"]:
    for instruction in INSTRUCTIONS:
        if instruction.is_include:
            continue
        key = "sweep:{} {}".format(instruction.mnemonic, form)
        results[key] = asm(["L1 {} {} ".format(instruction.mnemonic, form)])

for name, code in spec["probes"]:
    results["probe:" + name] = guarded(lambda: eval(code))

for name, source, args in spec["cli"]:
    results["cli:" + name] = cli(name, source, args)

json.dump(results, sys.stdout)
'''

# ---------------------------------------------------------------------------
# Inputs
# ---------------------------------------------------------------------------
FORMS = [
    "", "#$12", "#$1234", "#-1", "#-200", "#255", "#256", "#0", "$12", "$1234", "$0012", "<$12", ">$12",
    "<$1234", ">$1234", "<300", ">30", "0", "255", "256", "65535", "65536", "-1", "[$1234]", "[$12]", "[300]",
    ",X", ",Y", ",U", ",S", "0,X", "$0,Y", "5,X", "-5,Y", "-16,X", "-17,X", "15,U", "16,U", "100,S", "127,X",
    "128,X", "-128,X", "-129,X", "1000,X", "-1000,Y", "$10,X", "$1000,X", "32767,X", "-32768,U", "65535,X",
    "A,X", "B,Y", "D,U", "A,S", ",X+", ",X++", ",-X", ",--X", ",Y+", ",--S", ",U++", "5,X+", "A,X+",
    "[,X]", "[,X++]", "[,--Y]", "[,X+]", "[,-X]", "[0,U]", "[5,X]", "[-5,X]", "[127,S]", "[128,S]", "[200,X]",
    "[-128,Y]", "[-129,Y]", "[-200,X]", "[$1000,U]", "[A,X]", "[B,S]", "[D,Y]", "[5,X++]",
    "10,PCR", "-10,PCR", "1000,PCR", "$10,PCR", "$1000,PCR", "[10,PCR]", "[1000,PCR]", "[$1000,PCR]",
    "L1,PCR", "[L1,PCR]", "L1+2,PCR", "L1", "L1+1", "L1-1", "#L1", "[L1]", "L1,X", "[L1,Y]", "<L1", ">L1",
    "A,B", "X,Y", "D,X", "A,D", "CC,DP", "PC,S", "U,U", "A,Q", "A", "A,B,X", "X,Y,U,PC", "S", "U", "D", "Q",
    "A,CC,DP", "CC,A,B,DP,X,Y,U,PC", "CC,A,B,DP,X,Y,S,PC", "D,A",
    "%10101010", "#%10101010", "%1010101010101010", "%101", "'A", "#'A", "'", "NOLABEL", "#NOLABEL",
    "5+3", "#5+3", "$1000+2", "7/0", "#7/0", "2*3", "9-10", "$12345", "#$123", "1,2,3", "$41,$42", "-1,2",
    "\"AB\"", "/A B/", "X", ",", "[", "[]", "#", "<", ">",
]


def _lines(text):
    return [ln + "\n" for ln in text.split("\n")]


PROGRAMS = []


def prog(name, text):
    PROGRAMS.append((name, _lines(text)))


# --- layout / symbols -------------------------------------------------------
prog("layout_basic", """\
        NAM     DEMO
        ORG     $0E00
START   LDA     #$01      ; first
        LDB     <$20
        LDX     #TABLE
LOOP    STA     ,X+
        DECB
        BNE     LOOP
        JSR     >SUB
        RTS
SUB     CLRA
        RTS
TABLE   FCB     1,2,3,4
WORDS   FDB     $1234,$5678
PTR     FDB     TABLE
MSG     FCC     "HELLO WORLD"
BUF     RMB     10
VAL     EQU     $40
FIN     END     START
""")
prog("layout_no_org", """\
A1      NOP
A2      LDA     #1
A3      LDX     A1
A4      JMP     A4
""")
prog("layout_low_org", """\
        ORG     $20
P1      LDA     P2
P2      NOP
P3      STA     P1
""")
prog("layout_two_orgs", """\
        ORG     $1000
Q1      NOP
        ORG     $2000
Q2      NOP
        JMP     Q1
        JMP     Q2
""")
prog("layout_code_before_org", """\
R1      NOP
R2      LDA     #2
        ORG     $3000
R3      JMP     R1
""")
prog("dup_label", """\
X1      NOP
X1      NOP
""")
prog("dup_label_equ", """\
X1      EQU     5
X1      EQU     6
""")
prog("undefined_symbol", """\
        LDA     NOWHERE
""")
prog("undefined_branch", """\
        BRA     NOWHERE
""")
prog("bad_mnemonic", """\
        FOO     #1
""")
prog("bad_line", """\
!!!
""")
prog("blank_and_comments", """\

; just a comment
   ; another
        NOP
""")
prog("forward_refs", """\
        ORG     $4000
        LDA     FWD
        LDX     #FWD
        LDD     FWD+1
        JMP     FWD
        LEAX    FWD,PCR
        LDA     [FWD]
FWD     FCB     $AA
        FDB     FWD
""")
prog("name_and_end", """\
        NAM     MYPROG
        ORG     $7000
GO      RTS
        END     GO
""")
prog("setdp", """\
        SETDP   $20
        ORG     $2000
        LDA     $2010
        LDA     <$10
""")
prog("every_inherent", "\n".join("I{} {} ".format(i, m) for i, m in enumerate(
    ["ABX", "ASLA", "ASRB", "CLRA", "COMB", "DAA", "DECA", "INCB", "LSLA", "LSRB", "MUL", "NEGA", "NOP", "ROLA",
     "RORB", "RTI", "RTS", "SEX", "SWI", "SWI2", "SWI3", "SYNC", "TSTA", "TSTB"])))

# --- branches ---------------------------------------------------------------
for n in [0, 1, 2, 100, 120, 124, 125, 126, 127, 128, 129, 130, 131, 200, 255, 256, 257, 1000]:
    prog("bra_fwd_%d" % n, "        ORG $1000\n        BRA T\n        RMB %d\nT       NOP \n" % n)
    prog("bra_back_%d" % n, "        ORG $1000\nT       NOP \n        RMB %d\n        BRA T\n" % n)
    prog("lbne_fwd_%d" % n, "        ORG $1000\n        LBNE T\n        RMB %d\nT       NOP \n" % n)
    prog("lbsr_back_%d" % n, "        ORG $1000\nT       NOP \n        RMB %d\n        LBSR T\n" % n)
for n in [32700, 32760, 32764, 32765, 32766, 32767, 32768, 32769, 32770]:
    prog("lbra_fwd_%d" % n, "        LBRA T\n        RMB %d\nT       NOP \n" % n)
    prog("lbra_back_%d" % n, "T       NOP \n        RMB %d\n        LBRA T\n" % n)
prog("all_short_branches", "\n".join(
    ["TOP     NOP "] + ["        %s TOP" % m for m in
                       ["BCC", "BCS", "BEQ", "BGE", "BGT", "BHI", "BHS", "BLE", "BLO", "BLS", "BLT", "BMI",
                        "BNE", "BPL", "BRA", "BRN", "BSR", "BVC", "BVS"]] +
    ["        %s BOT" % m for m in ["BCC", "BEQ", "BRA", "BSR", "BVS"]] + ["BOT     NOP "]))
prog("all_long_branches", "\n".join(
    ["TOP     NOP "] + ["        %s TOP" % m for m in
                       ["LBCC", "LBCS", "LBEQ", "LBGE", "LBGT", "LBHI", "LBHS", "LBLE", "LBLO", "LBLS", "LBLT",
                        "LBMI", "LBNE", "LBPL", "LBRA", "LBRN", "LBSR", "LBVC", "LBVS"]] +
    ["        %s BOT" % m for m in ["LBCC", "LBEQ", "LBRA", "LBSR", "LBVS"]] + ["BOT     NOP "]))
prog("branch_to_self", "S1      BRA S1\nS2      LBRA S2\n")
prog("branch_numeric", "        BRA $10\n")
prog("branch_expr", "T       NOP \n        BRA T+1\n")

# --- PCR --------------------------------------------------------------------
for n in [0, 1, 100, 118, 119, 120, 121, 122, 123, 124, 125, 126, 127, 128, 129, 130, 131, 132, 200, 300]:
    prog("pcr_fwd_%d" % n, "        ORG $1000\n        LEAX T,PCR\n        RMB %d\nT       NOP \n" % n)
    prog("pcr_back_%d" % n, "        ORG $1000\nT       NOP \n        RMB %d\n        LEAX T,PCR\n" % n)
    prog("pcr_ind_fwd_%d" % n, "        ORG $1000\n        LDA [T,PCR]\n        RMB %d\nT       NOP \n" % n)
    prog("pcr_ind_back_%d" % n, "        ORG $1000\nT       NOP \n        RMB %d\n        LDY [T,PCR]\n" % n)
    prog("pcr_expr_fwd_%d" % n, "        ORG $1000\n        LDD T+2,PCR\n        RMB %d\nT       NOP \n" % n)
    prog("pcr_expr_back_%d" % n, "        ORG $1000\nT       NOP \n        RMB %d\n        CMPY T-1,PCR\n" % n)
for n in [100, 110, 114, 115, 116, 117, 118, 119, 120, 121, 122, 123, 124, 125, 126]:
    prog("pcr_chain_%d" % n, """\
        ORG $1000
        LEAX T1,PCR
        LEAY T2,PCR
        LDA [T1,PCR]
        RMB %d
T1      NOP
        LEAU T1,PCR
T2      NOP
        LDD T2,PCR
""" % n)
    prog("pcr_cross_%d" % n, """\
T0      NOP
        LEAX T3,PCR
        RMB %d
        LEAY T0,PCR
T3      NOP
""" % n)
prog("pcr_numeric", "        LEAX 10,PCR\n        LEAX 1000,PCR\n        LDA [10,PCR]\n        LDA [$1000,PCR]\n        LEAX -5,PCR\n")
prog("pcr_undefined", "        LEAX NOPE,PCR\n")
prog("pcr_equ", "K       EQU $20\n        LEAX K,PCR\n        LDA [K,PCR]\n")

# --- expressions ------------------------------------------------------------
prog("expr_equ_spellings", """\
E1      EQU     10
E2      EQU     $0A
E3      EQU     $000A
E4      EQU     %00001010
E5      EQU     'A
E6      EQU     300
E7      EQU     $1234
E8      EQU     65535
E9      EQU     E1+1
        LDA     #E1
        LDA     #E2
        LDA     #E3
        LDA     #E4
        LDA     #E5
        LDX     #E6
        LDX     #E7
        LDX     #E8
        LDA     E1
        LDA     E3
        LDA     E6
        LDA     <E7
        LDA     >E1
        LDA     [E7]
        LDA     E1,X
        LDA     E6,Y
        LDA     [E1,U]
        LDA     [E7,S]
        FCB     E1
        FDB     E7
""")
_EXPR_LINES = [
    "LDA     #K1{op}K2", "LDX     #K3{op}K2", "LDA     K1{op}K2", "LDA     K3{op}K2", "LDA     K4{op}1",
    "LDA     K4{op}K4", "LDX     HERE{op}2", "LDX     #HERE{op}2", "LDX     #AFTER{op}1", "LDA     [HERE{op}2]",
    "LDA     K1{op}K2,X", "LDA     [K3{op}K2,Y]", "LDA     HERE{op}1,X", "LEAX    AFTER{op}1,PCR",
    "LDA     [AFTER{op}1,PCR]", "LDA     2{op}3", "LDA     #$10{op}$2", "LDX     #$1000{op}$10", "JMP     AFTER{op}K2",
    "LDD     #K2{op}K1", "FCB     K1{op}K2", "FDB     K3{op}K2", "RMB     K1{op}K2", "BRA     AFTER{op}1",
    "LDA     <K3{op}K2", "LDA     >K1{op}K2",
]
for op in "+-*/":
    for n, line in enumerate(_EXPR_LINES):
        prog("expr_%s_%d" % ({"+": "add", "-": "sub", "*": "mul", "/": "div"}[op], n), (
            "        ORG     $2000\nK1      EQU     $10\nK2      EQU     3\nK3      EQU     $1000\nK4      EQU     255\n"
            "HERE    " + line + "\n        NOP\nAFTER   NOP\nZ       NOP").format(op=op))
prog("expr_div_zero", "        LDA #5/0\n")
prog("expr_div_zero_sym", "Z       EQU 0\n        LDA #5/Z\n")
prog("expr_div_zero_label", "        ORG $100\nZ       EQU 0\nH       LDX #H/Z\n")
prog("expr_overflow", "        LDX #65535+1\n")
prog("expr_overflow_mul", "        LDX #$1000*$100\n")
prog("expr_negative", "        LDX #1-2\n")
prog("expr_negative_8", "        LDA #1-2\n")
prog("expr_label_label", "        ORG $1000\nA1      NOP \nA2      NOP \n        LDX #A2-A1\n")
prog("expr_undefined", "        LDA #FOO+1\n")
prog("expr_undefined_right", "        LDA #1+FOO\n")
prog("expr_label_overflow", "        ORG $FFF0\nH       LDX #H+$100\n")
prog("expr_label_negative", "        ORG $10\nH       LDX #H-$100\n")
prog("expr_equ_expr_fwd", "        LDA #E9\nE9      EQU E1+1\nE1      EQU 4\n")
prog("expr_in_data", "        ORG $3000\nD1      FCB D1\n        FDB D1+1\n        FCB 1+2\n        FDB 1+2\n        RMB 2+2\n")

# --- data directives ----------------------------------------------------------
prog("data_fcb", """\
        FCB     1
        FCB     $FF
        FCB     255
        FCB     256
        FCB     -1
        FCB     -128
        FCB     -129
        FCB     1,2,3
        FCB     $01,$FF,%10101010,'A
        FCB     -1,-2
        FCB     1,,2
        FCB     1,
        FCB     ,
        FCB     $1234
        FCB     1,$1234
        FCB     'A
""")
prog("data_fcb_bad_list", "        FCB     1,FOO\n")
prog("data_fcb_symbol", "K       EQU 7\n        FCB     K\n")
prog("data_fdb", """\
        FDB     1
        FDB     $FFFF
        FDB     65535
        FDB     -1
        FDB     -32768
        FDB     1,2,3
        FDB     $0001,$FFFF,%1010101010101010,'A
        FDB     -1,-2
        FDB     1,,2
        FDB     $12
""")
prog("data_fdb_too_big", "        FDB     65536\n")
prog("data_fdb_too_small", "        FDB     -32769\n")
prog("data_fdb_list_too_big", "        FDB     1,65536\n")
for i, s in enumerate(['"HELLO"', '"HELLO WORLD"', "/A  B   C/", '"A;B"', '"A ; B" ; real comment', "'X'", '""', '"',
                       '"UNTERMINATED', '"A"B"', "/P/Q", "|pipe|", '"  "', '" LEAD"', '"TRAIL "', "ZabcZ",
                       '"a,b,c"', '"#$%&()*+-./:<=>?@[]^"', '"TAB\tTAB"', ""]):
    prog("data_fcc_%d" % i, "STR     FCC     %s\n        NOP \n" % s)
for n in ["0", "1", "2", "255", "256", "1000", "$10", "$100", "-1", "65535", "K", "2*3", "", "'A"]:
    prog("data_rmb_%s" % n, "K       EQU 4\n        ORG $100\nB1      RMB %s\nB2      NOP \n" % n)
prog("data_no_bytes", """\
        NAM     THING
        ORG     $1000
V1      EQU     5
        SETDP   0
        END
""")
prog("data_end_operand", "        ORG $1000\nGO      NOP \n        END GO\n")
prog("data_include_missing", "        INCLUDE /nonexistent/file.asm\n")
prog("data_org_variants", "        ORG 4096\nO1      NOP \n")
prog("data_org_small", "        ORG $10\nO1      NOP \n")
prog("data_org_sym", "BASE    EQU $2000\n        ORG BASE\nO1      NOP \n")
prog("data_org_expr", "        ORG $2000+$10\nO1      NOP \n")

# --- instruction encodings through symbols -----------------------------------
_ENC_LINES = [
    "LDA ZP", "LDA ABS", "LDA <ABS", "LDA >ZP", "STX LBL", "LDA #ZP", "LDX #ABS", "LDX #LBL", "LDA ZP,X", "LDA ABS,X",
    "LDA LBL,X", "LDA [ZP,X]", "LDA [ABS,X]", "LDA [LBL]", "LDA [ZP]", "LEAX NEG,Y", "NEG ZP", "NEG ABS", "CMPD ZP",
    "CMPD #ABS", "LDY ZP,U", "STS ABS,Y", "LDA [LBL,X]", "JSR [ABS]", "TFR A,B", "EXG X,Y", "PSHS A,B,X", "PULU D,PC",
    "LDA <ZP", "LDA >ABS", "STA <LBL", "STA >LBL", "ASL ZP", "LSL ZP", "LDA ,X+", "LDA [,--Y]", "SWI ", "SYNC ",
]
for n, line in enumerate(_ENC_LINES):
    prog("enc_sym_%d" % n, "        ORG     $5000\nZP      EQU     $20\nABS     EQU     $2000\nNEG     EQU     5\n"
                           "LBL     NOP\n        " + line + "\nEND1    NOP")

PROBES = []


def probe(name, code):
    PROBES.append((name, code))


CLI = []


def cli(name, source, args):
    CLI.append((name, source, args))


_CLI_SRC = """\
        NAM     CLIDEMO
        ORG     $0E00
START   LDA     #$01
        LEAX    DATA,PCR
LOOP    STA     ,X+
        DECB
        BNE     LOOP
        LDD     DATA+1
        RTS
DATA    FCB     1,2,3
        FDB     START
        FCC     "HI THERE"
        END     START
"""
cli("print_symbols", _CLI_SRC, ["--print", "--symbols"])
cli("outputs", _CLI_SRC, ["--to_bin", "out.bin", "--to_cas", "out.cas", "--to_dsk", "out.dsk", "--name", "DEMO"])
cli("translation_error", "        LDA NOWHERE\n", ["--print", "--symbols"])
cli("parse_error", "        FROB #1\n", ["--print"])
cli("range_error", "        BRA T\n        RMB 200\nT       NOP \n", ["--print"])
cli("dup_label", "L       NOP \nL       NOP \n", ["--symbols"])

# ---------------------------------------------------------------------------
# Inputs specific to this refactoring
# ---------------------------------------------------------------------------
# accumulator-offset indexed operands: every accumulator x index register x direct/indirect x mnemonic class
for _m in ["LDA", "LDX", "LEAX", "STD", "JMP", "CMPY", "NEG", "ABX", "BRA", "TFR"]:
    for _acc in ["A", "B", "D", "E", "a", "X", "CC", "", "0", "1", "AA"]:
        for _reg in ["X", "Y", "U", "S", "PC", "PCR", "X+", "-X", "Z", ""]:
            probe("translate %s %s,%s" % (_m, _acc, _reg), "translate(%r, %r)" % (_m, "%s,%s" % (_acc, _reg)))
            probe("translate %s [%s,%s]" % (_m, _acc, _reg), "translate(%r, %r)" % (_m, "[%s,%s]" % (_acc, _reg)))
# left hand side that is a Value object rather than a string
probe("left is NumericValue", "(lambda o: (setattr(o, 'left', V.NumericValue(0)), o.translate())[1])(operand('LDA', '5,X'))")
probe("left is NoneValue", "(lambda o: (setattr(o, 'left', V.NoneValue()), o.translate())[1])(operand('LDA', '[5,X]'))")
for _n in range(16):
    prog("acc_prog_%d" % _n, "        ORG $100\nS       %s %s,%s\n        %s [%s,%s]\nE       NOP \n" % (
        ["LDA", "STB", "LEAY", "ADDD"][_n % 4], "ABD"[_n % 3], "XYUS"[_n // 4],
        ["LDX", "JSR", "CMPU", "ORA"][_n % 4], "DBA"[_n % 3], "XYUS"[_n // 4]))


# ---------------------------------------------------------------------------
# Driver
# ---------------------------------------------------------------------------
def run_tree(tree, which, workdir, worker_path):
    spec = {"programs": PROGRAMS, "forms": FORMS, "probes": PROBES, "cli": CLI, "workdir": workdir, "which": which}
    spec_path = os.path.join(workdir, "spec_%s.json" % which)
    with open(spec_path, "w") as fh:
        json.dump(spec, fh)
    env = dict(os.environ)
    env.pop("PYTHONPATH", None)
    env["PYTHONDONTWRITEBYTECODE"] = "1"
    proc = subprocess.run([sys.executable, worker_path, os.path.abspath(tree), spec_path],
                          cwd=os.path.abspath(tree), env=env, capture_output=True, text=True)
    if proc.returncode != 0:
        print("worker failed for", tree)
        print(proc.stderr[-4000:])
        sys.exit(1)
    return json.loads(proc.stdout)


def main():
    if len(sys.argv) != 3:
        print(__doc__)
        sys.exit(2)
    tree_a, tree_b = sys.argv[1], sys.argv[2]
    workdir = tempfile.mkdtemp(prefix="equiv_")
    try:
        worker_path = os.path.join(workdir, "worker.py")
        with open(worker_path, "w") as fh:
            fh.write(WORKER)
        with open(os.path.join(workdir, "inc.asm"), "w") as fh:
            fh.write("INC1    LDA     #1\n        RTS \n")
        # programs that need the work directory (include files)
        inc = os.path.join(workdir, "inc.asm")
        PROGRAMS.append(("include_ok", ["        ORG $1000", "        INCLUDE " + inc, "AFTER   JMP INC1"]))
        res_a = run_tree(tree_a, "A", workdir, worker_path)
        res_b = run_tree(tree_b, "B", workdir, worker_path)
    finally:
        shutil.rmtree(workdir, ignore_errors=True)

    if os.environ.get("EQUIV_DUMP"):
        with open(os.environ["EQUIV_DUMP"], "w") as fh:
            json.dump({"A": res_a, "B": res_b}, fh, indent=1)

    keys = sorted(set(res_a) | set(res_b))
    bad = 0
    ok_results = 0
    for key in keys:
        a, b = res_a.get(key, "<absent>"), res_b.get(key, "<absent>")
        if a != b:
            bad += 1
            if bad <= 20:
                print("DIFF", key)
                print("   A:", json.dumps(a)[:600])
                print("   B:", json.dumps(b)[:600])
        if isinstance(a, dict) and "error" not in a and "exc" not in a:
            ok_results += 1
    kinds = {}
    for key in keys:
        kinds[key.split(":")[0]] = kinds.get(key.split(":")[0], 0) + 1
    print("cases compared: %d %s; %d of them without error in tree A; differences: %d" % (
        len(keys), kinds, ok_results, bad))
    sys.exit(1 if bad else 0)


if __name__ == "__main__":
    main()
