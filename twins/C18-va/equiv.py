#!/venv/bin/python
"""
Differential check for the refactoring of IndexedOperand.translate and
ExtendedIndexedOperand.translate (index register bits of the post byte).

usage: equiv.py <treeA> <treeB>

For each tree a child process (tree first on sys.path) runs
  * operand cases: every mnemonic x operand text combination is built with
    Operand.create_from_str, resolved against a symbol table and translated;
    the code package (or the exception) is recorded;
  * register text cases: translate() with hand made right hand sides;
  * program cases: whole programs through Program.process (bytes, listing,
    symbol table, origin, name or the diagnostic), at several origins, with
    renamed labels and different spacing / case;
  * command line cases: assembler.py --print --symbols --to_bin.
The JSON dumps of both trees must be equal.
"""
import json
import os
import subprocess
import sys
import tempfile

REGISTERS = ["X", "Y", "U", "S"]
MNEMONICS = ["LDA", "STB", "LDD", "LEAX", "LEAS", "JMP", "JSR", "ADDD", "CMPX", "CLR", "LDY", "STS", "NOP", "BRA",
             "PSHS", "TFR"]


def operand_texts():
    texts = []
    for r in REGISTERS:
        texts += [",%s" % r, ",%s+" % r, ",%s++" % r, ",-%s" % r, ",--%s" % r, "0,%s" % r, "$00,%s" % r,
                  "A,%s" % r, "B,%s" % r, "D,%s" % r, "1,%s" % r, "15,%s" % r, "16,%s" % r, "-1,%s" % r,
                  "-16,%s" % r, "-17,%s" % r, "127,%s" % r, "128,%s" % r, "-128,%s" % r, "-129,%s" % r,
                  "$7F,%s" % r, "$80,%s" % r, "$1234,%s" % r, "$FFFF,%s" % r, "-$1234,%s" % r, "%%101,%s" % r,
                  "'A,%s" % r, "HERE,%s" % r, "FAR,%s" % r, "HERE+2,%s" % r, "FAR-1,%s" % r, "SMALL,%s" % r,
                  "MISSING,%s" % r, "5,%s+" % r, "5,-%s" % r, "A,%s++" % r,
                  "[,%s]" % r, "[,%s+]" % r, "[,%s++]" % r, "[,-%s]" % r, "[,--%s]" % r, "[0,%s]" % r,
                  "[A,%s]" % r, "[B,%s]" % r, "[D,%s]" % r, "[1,%s]" % r, "[-1,%s]" % r, "[$7F,%s]" % r,
                  "[$80,%s]" % r, "[-$80,%s]" % r, "[-$81,%s]" % r, "[$1234,%s]" % r, "[-$1234,%s]" % r,
                  "[HERE,%s]" % r, "[FAR+1,%s]" % r, "[SMALL,%s]" % r, "[MISSING,%s]" % r, "[5,%s++]" % r,
                  "[5,--%s]" % r, ",%s " % r, ", %s" % r, ",%s" % r.lower(), "a,%s" % r.lower()]
    texts += ["HERE,PCR", "FAR,PCR", "SMALL,PCR", "$10,PCR", "$1234,PCR", "-5,PCR", "HERE+1,PCR", "MISSING,PCR",
              "[HERE,PCR]", "[FAR,PCR]", "[$10,PCR]", "[$1234,PCR]", "[SMALL,PCR]", "[HERE-1,PCR]", ",PCR", "[,PCR]",
              "A,PCR", "[D,PCR]", "0,PCR", ",PC", "5,PC", "[5,PC]", ",Z", "5,Z", "[5,Z]", ",XY", ",YU", ",US", ",SX",
              "[,YS]", "[,UX++]", ",XYUS", ",", "5,", "[,]", "[5,]", "[]", "[$1234]", "[$12]", "[HERE]", "[FAR]",
              "[SMALL]", "[MISSING]", "[HERE+1]", "[A]", "[X]", ",DP", ",CC", "X,Y", "S,U", "[X,Y]", ",A", ",D",
              "1,2,X", ",X,Y", ",+X", ",X-", ",X--", ",++X", "[,X-]", "[,++Y]", "-,X", "+,X", "$,X", "#5,X",
              "<5,X", ">5,X", "<$10,Y", ">$10,U", "[<5,X]", "[>$10,S]", "HERE", "#1", ""]
    return texts


def describe_package(package):
    def value(v):
        if isinstance(v, (int, str)) or v is None:
            return repr(v)
        return [type(v).__name__, v.hex() if hasattr(v, "hex") else None, getattr(v, "int", None)]
    return {
        "op_code": value(package.op_code), "post_byte": value(package.post_byte),
        "additional": value(package.additional), "size": package.size, "max_size": package.max_size,
        "choices": [int(x) if isinstance(x, int) else value(x) for x in package.post_byte_choices],
        "needs": package.additional_needs_resolution,
    }


def attempt(function):
    try:
        return {"ok": function()}
    except BaseException as error:
        return {"exc": type(error).__name__, "msg": str(getattr(error, "value", error)),
                "stmt": str(getattr(error, "statement", "")), "args": repr(error.args)[:300]}


def operand_cases():
    from cocoasm.instruction import INSTRUCTIONS
    from cocoasm.operands import Operand, IndexedOperand, ExtendedIndexedOperand
    from cocoasm.values import AddressValue, NumericValue, NoneValue
    results = {}
    instructions = {m: next(i for i in INSTRUCTIONS if i.mnemonic == m) for m in MNEMONICS}

    def symbols():
        return {"HERE": AddressValue(3), "FAR": AddressValue(2000), "SMALL": NumericValue(5),
                "WORD": NumericValue(0x1234)}

    for mnemonic, instruction in instructions.items():
        for text in operand_texts():
            def run():
                operand = Operand.create_from_str(text, instruction)
                record = {"class": type(operand).__name__}
                operand = operand.resolve_symbols(symbols())
                record["resolved"] = type(operand).__name__
                record["package"] = describe_package(operand.translate())
                record["left"] = str(type(operand.left).__name__)
                record["right"] = repr(operand.right) if isinstance(operand.right, str) else type(operand.right).__name__
                record["string"] = operand.operand_string
                # translating twice must also agree (translate may rewrite self.left)
                record["again"] = attempt(lambda: describe_package(operand.translate()))
                return record
            results["%s %s" % (mnemonic, text)] = attempt(run)

    # hand made right hand sides, straight into translate()
    lda = instructions["LDA"]
    rights = ["X", "Y", "U", "S", "PCR", "PC", "", "x", "XS", "SY", "YU", "UY", "XYUS", "X+", "Y++", "-U", "--S",
              "S+", "-Y", "Q", "X Y", ["X"], ["Y", "S"], ("U",), {"S": 1}, None, 5, NoneValue(None)]
    lefts = ["", "A", "B", "D", NumericValue(0), NumericValue(5), NumericValue(-3), NumericValue(200),
             NumericValue(0x1234), AddressValue(4), "7"]
    for cls, text in ((IndexedOperand, "1,X"), (ExtendedIndexedOperand, "[1,X]")):
        for right in rights:
            for left in lefts:
                def run():
                    operand = cls(text, lda)
                    operand.left = left
                    operand.right = right
                    return describe_package(operand.translate())
                results["%s left=%r right=%r" % (cls.__name__, str(left), str(right))] = attempt(run)
    results["has_method_translate"] = [hasattr(IndexedOperand, "translate"), hasattr(ExtendedIndexedOperand, "translate")]
    return results


TEMPLATE = """
            NAM   {name}
            ORG   ${origin:04X}
{start}       LDX   #{table}   ; point at {table}
{loop}        LDA   ,X+
            STA   ,Y++
            LDB   ,-U
            STB   ,--S
            LDD   [,X++]
            STD   [,--Y]
            LDA   A,X
            LDA   B,Y
            LDD   D,U
            LEAX  5,X
            LEAY  -5,Y
            LEAU  $40,U
            LEAS  -64,S
            LDA   $1234,X
            LDB   -4660,Y
            LDA   {count},U
            LDY   [$10,X]
            LDU   [A,S]
            LEAX  {table},PCR
            LEAY  {loop},PCR
            LDA   [{table},PCR]
            JMP   [{vector}]
            JSR   [$FFFE]
            JMP   ,X
            JSR   {sub},PCR
            CLR   ,S
            CMPX  ,U
            ADDD  2,S
            BNE   {loop}
            LBRA  {start}
{sub}         RTS
{count}       EQU   $07
{table}       FCB   $01,$02,$03
{vector}      FDB   {start}
            END   {start}
"""

NAMES = [dict(name="PROG", start="START", loop="LOOP", sub="SUB", count="COUNT", table="TABLE", vector="VECTOR"),
         dict(name="OTHER", start="QQ", loop="L1", sub="ZED", count="N", table="T9", vector="VV"),
         dict(name="PROG", start="MAINLINE", loop="AGAINXX", sub="SUBYS", count="UCOUNT", table="SXYU",
              vector="PCRX")]


def program_texts():
    texts = {}
    for which, names in enumerate(NAMES):
        for origin in (0x0000, 0x00F0, 0x0100, 0x0E00, 0x7FF0, 0xFE00):
            texts["names%d@%04X" % (which, origin)] = TEMPLATE.format(origin=origin, **names)
    base = TEMPLATE.format(origin=0x2000, **NAMES[0])
    texts["lowercase"] = "\n".join(
        line if ";" in line or "'" in line else line[:12] + line[12:18].lower() + line[18:] for line in base.split("\n"))
    texts["tabs"] = base.replace("            ", "\t").replace("   ", "\t")
    texts["no_comments"] = "\n".join(line.split(";")[0] for line in base.split("\n"))
    texts["suffix"] = base.replace("            END   START", "EXTRA       LDA   ,S+\n            LDB   [EXTRA,PCR]\n"
                                   "            END   START")
    for label, line in (("bad_plus", "            LDA   [,X+]"), ("bad_minus", "            LDA   [,-Y]"),
                        ("offset_autoinc", "            LDA   5,X+"), ("offset_autodec", "            LDA   [5,--S]"),
                        ("no_indexed", "            NOP   ,X"), ("undefined", "            LDA   NOWHERE,U"),
                        ("undefined_pcr", "            LDA   [NOWHERE,PCR]"), ("odd_register", "            LDA   ,Z"),
                        ("two_registers", "            LDA   ,XS"), ("pc_register", "            LDA   4,PC"),
                        ("label_named_like_register", "            LDA   S,X"),
                        ("ext_label", "            LDA   [TABLE+2]"),
                        ("label_plus_offset", "            LDB   TABLE+1,Y"),
                        ("label_offset", "            LDA   TABLE,X"), ("label_offset_indirect", "            LDX   [TABLE,S]")):
        texts["error_or_edge:" + label] = base.replace("            CLR   ,S", line)
    return texts


def program_cases():
    from cocoasm.program import Program
    results = {}
    for label, text in program_texts().items():
        def run():
            program = Program()
            program.process([line + "\n" for line in text.split("\n")])
            return {"bytes": list(program.get_binary_array()),
                    "listing": [str(x) for x in program.get_statements()],
                    "symbols": [str(x) for x in program.get_symbol_table()],
                    "origin": str(program.origin), "name": program.name}
        results[label] = attempt(run)
    return results


def cli_cases(tree):
    results = {}
    env = dict(os.environ, PYTHONPATH=tree, PYTHONDONTWRITEBYTECODE="1")
    chosen = [k for k in program_texts() if k.startswith("names0@0E") or k.startswith("names2@00F")
              or k.startswith("error_or_edge") or k in ("lowercase", "suffix")]
    for label in chosen:
        with tempfile.TemporaryDirectory() as tmp:
            with open(os.path.join(tmp, "p.asm"), "w") as handle:
                handle.write(program_texts()[label] + "\n")
            done = subprocess.run([sys.executable, os.path.join(tree, "assembler.py"), "p.asm", "--print", "--symbols",
                                   "--to_bin", "p.bin"], cwd=tmp, env=env, capture_output=True, text=True)
            image = None
            if os.path.exists(os.path.join(tmp, "p.bin")):
                with open(os.path.join(tmp, "p.bin"), "rb") as handle:
                    image = handle.read().hex()
            results[label] = {"rc": done.returncode, "out": done.stdout, "err": done.stderr.replace(tree, "<tree>"),
                              "files": sorted(os.listdir(tmp)), "image": image}
    return results


def child(tree):
    sys.path.insert(0, tree)
    print(json.dumps({"operand": operand_cases(), "program": program_cases(), "cli": cli_cases(tree)}))


def main():
    if len(sys.argv) == 3 and sys.argv[1] == "--child":
        child(os.path.abspath(sys.argv[2]))
        return 0
    if len(sys.argv) != 3:
        print(__doc__)
        return 2
    outputs = []
    for tree in sys.argv[1:3]:
        tree = os.path.abspath(tree)
        done = subprocess.run([sys.executable, os.path.abspath(__file__), "--child", tree], cwd=tree,
                              capture_output=True, text=True,
                              env=dict(os.environ, PYTHONPATH=tree, PYTHONDONTWRITEBYTECODE="1"))
        if done.returncode != 0:
            print("child failed for", tree)
            print(done.stderr[-3000:])
            return 1
        outputs.append(json.loads(done.stdout))
    first, second = outputs
    bad = 0
    total = 0
    summary = []
    for group in ("operand", "program", "cli"):
        names = sorted(set(first[group]) | set(second[group]))
        good = sum(1 for n in names if isinstance(first[group].get(n), dict) and "exc" not in first[group][n])
        summary.append("%s: %d (%d without exception)" % (group, len(names), good))
        for name in names:
            total += 1
            if first[group].get(name) != second[group].get(name):
                bad += 1
                print("DIFFERENT: %s/%s" % (group, name))
                print("   A:", json.dumps(first[group].get(name))[:600])
                print("   B:", json.dumps(second[group].get(name))[:600])
    print("%d cases compared; %s; %d differ" % (total, "; ".join(summary), bad))
    return 1 if bad else 0


if __name__ == "__main__":
    sys.exit(main())
