"""
Differential demonstration for property C12 (no accepted statement yields a
malformed or silently truncated instruction).

usage: equiv.py <treeA> <treeB>

The probe below is executed once per tree in a separate interpreter, with the
tree at the front of sys.path and a private scratch directory as cwd. It prints
one JSON record per case; the two transcripts must be identical.
"""
import subprocess
import sys
import tempfile
import os

PROBE = r'''
import sys, os, io, json, hashlib, contextlib, itertools, random
tree = os.path.abspath(sys.argv[1])
work = os.path.abspath(sys.argv[2])
sys.path.insert(0, tree)
os.chdir(work)

import cocoasm
assert os.path.abspath(cocoasm.__file__).startswith(tree + os.sep), cocoasm.__file__

from cocoasm.instruction import INSTRUCTIONS
from cocoasm.program import Program
from cocoasm.statement import Statement
from cocoasm.operands import (Operand, SpecialOperand, IndexedOperand, ExtendedIndexedOperand, ImmediateOperand,
                              InherentOperand, RelativeOperand, PseudoOperand, REGISTERS)
from cocoasm.values import (Value, NumericValue, AddressValue, NoneValue, StringValue, MultiByteValue, MultiWordValue,
                            ExpressionValue, SymbolValue, DirectNumericValue, ExtendedNumericValue)
import assembler
assert os.path.abspath(assembler.__file__).startswith(tree + os.sep)

CASES = 0
def emit(label, payload):
    global CASES
    CASES += 1
    print(json.dumps([label, payload], sort_keys=True, default=repr))

def failure(error):
    info = [type(error).__name__, str(error)]
    statement = getattr(error, "statement", None)
    if statement is not None:
        try:
            info.append(str(statement))
        except BaseException as nested:
            info.append("unprintable: " + type(nested).__name__)
    return info

def attempt(fn):
    try:
        return ["ok", fn()]
    except BaseException as error:
        return ["raised"] + failure(error)

def assemble(lines):
    program = Program()
    program.process([line + "\n" for line in lines])
    return [program.get_binary_array(), program.get_statements(), program.get_symbol_table(),
            program.origin.hex(), program.name,
            [[s.code_pkg.size, s.code_pkg.max_size, s.code_pkg.address.hex()] for s in program.statements]]

MNEMONICS = [instruction.mnemonic for instruction in INSTRUCTIONS]

# ---------------------------------------------------------------- section A
# every mnemonic against a wide operand universe, one statement at a time
OPERANDS = [
    "", "#0", "#1", "#$7F", "#$80", "#$FF", "#255", "#256", "#$100", "#$FFFF", "#65535", "#65536", "#70000", "#-1",
    "#-128", "#-129", "#-32768", "#-32769", "#%10101010", "#%1010", "#%1010101010101010", "#'A", "#START", "#TARGET",
    "#START+1", "#TARGET-START", "0", "1", "$00", "$7F", "$FF", "$100", "$0100", "$1234", "$FFFF", "$10000", "255", "256",
    "65535", "65536", "70000", "-1", "-129", "<$12", "<$1234", "<START", "<255", "<256", ">$12", ">$1234", ">START", ">5",
    "START", "TARGET", "UNDEFINED", "START+1", "TARGET-1", "START+TARGET", "1+2", "$10+$20", "TARGET*2", "TARGET/2",
    "[$12]", "[$1234]", "[START]", "[UNDEFINED]", "[70000]", "[,X]", "[,Y]", "[,U]", "[,S]", "[,X+]", "[,X++]", "[,-X]",
    "[,--X]", "[,Y++]", "[,--S]", "[A,X]", "[B,Y]", "[D,U]", "[5,X]", "[$10,Y]", "[$1234,S]", "[-5,X]", "[-129,U]",
    "[127,X]", "[128,X]", "[START,PCR]", "[TARGET,PCR]", "[5,PCR]", "[$1234,PCR]", "[5,Z]", "[1,PC]", "[0,X]", "[E,X]",
    ",X", ",Y", ",U", ",S", ",X+", ",X++", ",-X", ",--X", ",Y+", ",U++", ",-S", ",--Y", ",X+++", ",---X", ",+X", ",X-",
    "A,X", "B,Y", "D,U", "A,S", "E,X", "0,X", "1,X", "15,X", "16,X", "-1,X", "-16,X", "-17,X", "127,Y", "128,Y", "-128,U",
    "-129,U", "255,S", "256,S", "$7F,X", "$80,X", "$FF,X", "$100,X", "$1234,Y", "$FFFF,X", "65536,X", "70000,X",
    "START,X", "TARGET,Y", "UNDEFINED,X", "START+1,X", "START,PCR", "TARGET,PCR", "UNDEFINED,PCR", "5,PCR", "$1234,PCR",
    "-5,PCR", "START+2,PCR", "5,Z", "1,PC", "5,", ",", ",,", "5,X,Y", "X", "Y", "A", "PC", "X,Y", "A,B", "D,X", "A,X",
    "CC,DP", "DP,CC", "PC,S", "U,S", "A,CC", "B,DP", "A,A", "D,D", "X,X", "A,Z", "Z,A", "A,B,D", "a,b", "A, B", "A,",
    ",A", "A,B,X,Y,U,PC,CC,DP", "A,B,X,Y,S,PC,CC,DP", "D,A", "CC", "S", "U", "Z", "A,Z", "PC,PC", "X,", "PCR",
    '"HELLO"', "/HI/", "'A'", '"UNTERMINATED', '""', "1,2,3", "$12,$34", "$1234,$5678", "1,", "1,,2", "256,1", "1,70000",
    "FILE.ASM", "(5)", "5)", "#", "<", ">", "[", "]", "[]", "[,]", "$", "%", "'", "$G", "%2", "#$", "#%", "*", "@5",
]

for mnemonic in MNEMONICS:
    results = []
    for operand in OPERANDS:
        lines = ["START NOP", "LABEL %s %s" % (mnemonic, operand), "TARGET NOP"]
        results.append([operand, attempt(lambda: assemble(lines))])
    emit("A/" + mnemonic, results)

# ---------------------------------------------------------------- section B
# register lists for the stack instructions: every subset, several orders, bad members
random.seed(12)
for mnemonic in ("PSHS", "PSHU", "PULS", "PULU"):
    results = []
    for size in range(0, len(REGISTERS) + 1):
        for subset in itertools.combinations(REGISTERS, size):
            operand = ",".join(subset)
            results.append([operand, attempt(lambda: assemble(["  %s %s" % (mnemonic, operand)]))])
    for _ in range(300):
        pool = REGISTERS + ["Z", "", "a", "PCR", "W", "E", "DPR", " A"]
        operand = ",".join(random.choice(pool) for _ in range(random.randint(1, 6)))
        results.append([operand, attempt(lambda: assemble(["  %s %s" % (mnemonic, operand)]))])
    emit("B/" + mnemonic, [len(results), hashlib.sha256(json.dumps(results, default=repr).encode()).hexdigest()])
    emit("B/" + mnemonic + "/sample", results[::37])

# ---------------------------------------------------------------- section C
# register pairs for EXG / TFR
PAIR_POOL = REGISTERS + ["Z", "", "a", "x", "PCR", "W", "DPR", "AB", "0", "$1"]
for mnemonic in ("EXG", "TFR"):
    results = []
    for first in PAIR_POOL:
        for second in PAIR_POOL:
            operand = "%s,%s" % (first, second)
            results.append([operand, attempt(lambda: assemble(["  %s %s" % (mnemonic, operand)]))])
    for operand in ("", "A", "A,B,X", ",", "A,B,", ",A,B"):
        results.append([operand, attempt(lambda: assemble(["  %s %s" % (mnemonic, operand)]))])
    emit("C/" + mnemonic, results)

# ---------------------------------------------------------------- section D
# operand objects translated directly
def package(pkg):
    return [pkg.op_code.hex(), pkg.post_byte.hex(), pkg.additional.hex(), pkg.size, pkg.max_size,
            pkg.additional_needs_resolution, pkg.post_byte_choices, pkg.address.hex()]

by_name = {instruction.mnemonic: instruction for instruction in INSTRUCTIONS}
for mnemonic in ("PSHS", "PSHU", "PULS", "PULU", "EXG", "TFR", "LDA", "NOP", "ORG"):
    results = []
    for operand in ("", "A", "A,B", "U", "S", "U,S", "S,U", "D,A,B", "PC,CC", "Z", "A,Z", "X,Y", "A,X", "CC,DP", "D,D"):
        results.append([operand, attempt(lambda: package(SpecialOperand(operand, by_name[mnemonic]).translate()))])
    emit("D/special/" + mnemonic, results)

# ---------------------------------------------------------------- section E
# numeric rendering: hex(), hex_len(), get_negative(), byte_len() on every constructor path
def render(value):
    out = [type(value).__name__, value.int, value.negative, value.size_hint]
    for call in (value.hex, value.hex_len, value.byte_len, value.high_byte, value.low_byte, value.is_8_bit, value.is_16_bit):
        out.append(attempt(call))
    for size in (0, 1, 2, 3, 4, 6):
        out.append(attempt(lambda: value.hex(size=size)))
    get_negative = getattr(value, "get_negative", None)
    if get_negative:
        for size in (None, 0, 2, 4):
            out.append(attempt(lambda: get_negative(size)))
        out.append(attempt(get_negative))
    return out

NUMBERS = [0, 1, 9, 10, 15, 16, 17, 100, 127, 128, 129, 200, 255, 256, 257, 4095, 4096, 32767, 32768, 32769, 65535, 65536, 1 << 20]
TEXTS = ["0", "7", "15", "16", "127", "128", "255", "256", "65535", "65536", "-0", "-1", "-15", "-16", "-17", "-127", "-128",
         "-129", "-255", "-256", "-32767", "-32768", "-32769", "$0", "$F", "$10", "$FF", "$100", "$FFF", "$1000", "$FFFF",
         "$10000", "$00", "$0000", "$007F", "%00000000", "%11111111", "%0000000011111111", "%1111111111111111", "%101",
         "'A", "'z", "' ", "", "abc", "$", "%", "12A", "1.5", None]
results = []
for number in NUMBERS:
    for hint in (None, 0, 1, 2, 3, 4, 6):
        results.append([number, hint, attempt(lambda: render(NumericValue(number, size_hint=hint)))])
    results.append([number, "address", attempt(lambda: render(AddressValue(number)))])
    results.append([number, "direct", attempt(lambda: render(DirectNumericValue(number)))])
    results.append([number, "extended", attempt(lambda: render(ExtendedNumericValue(number)))])
emit("E/numbers", results)
results = []
for text in TEXTS:
    for hint in (None, 2, 4):
        results.append([text, hint, attempt(lambda: render(NumericValue(text, size_hint=hint)))])
emit("E/texts", results)

# ---------------------------------------------------------------- section F
# whole programs and the command line listing
PROGRAM = [
    "        NAM DEMO", "        ORG $0E00", "VALUE   EQU $42", "WORD    EQU $1234",
    "START   LDA #VALUE", "        LDX #WORD", "        LDB VALUE", "        STA WORD", "        PSHS A,B,X,Y,U,CC,DP,PC",
    "        PULU A,B,X,Y,S,CC,DP,PC", "        PSHS D", "        TFR A,B", "        EXG X,Y", "        TFR D,PC",
    "        EXG CC,DP", "LOOP    LDA ,X+", "        STA -1,Y", "        LDD [WORD]", "        LEAX LOOP,PCR",
    "        LEAY TABLE,PCR", "        LDA [TABLE,PCR]", "        BNE LOOP", "        LBRA START", "        JSR [,X]",
    "        LDA -17,U", "        LDA 127,S", "        LDA 128,S", "        LDA $1234,X", "        LDA A,X", "        LDA [D,Y]",
    "TABLE   FCB 1,2,3", "        FDB $1234,5", "        FCC /TEXT/", "        RMB 3", "        FCB $FF", "        FDB START",
    "        END START",
]
emit("F/program", attempt(lambda: assemble(PROGRAM)))
for index in range(len(PROGRAM)):
    emit("F/program-without-%d" % index, attempt(lambda: assemble(PROGRAM[:index] + PROGRAM[index + 1:])))

def run_cli(argv):
    out, err = io.StringIO(), io.StringIO()
    saved, status = sys.argv, None
    sys.argv = ["assembler.py"] + argv
    try:
        with contextlib.redirect_stdout(out), contextlib.redirect_stderr(err):
            try:
                assembler.main(assembler.parse_arguments())
            except SystemExit as stop:
                status = ["exit", stop.code]
            except BaseException as error:
                status = ["raised"] + failure(error)
    finally:
        sys.argv = saved
    return [status, out.getvalue(), err.getvalue(), sorted(os.listdir("."))]

def cli(label, lines, argv):
    with open("prog.asm", "w") as handle:
        handle.write("\n".join(lines) + "\n")
    emit("F/cli/" + label, run_cli(argv))

cli("listing", PROGRAM, ["prog.asm", "--print", "--symbols"])
cli("binary", PROGRAM, ["prog.asm", "--to_bin", "demo.bin"])
cli("bad-register", ["  PSHS S"], ["prog.asm", "--print"])
cli("bad-pair", ["  TFR A,X"], ["prog.asm", "--print"])
cli("bad-mode", ["  STA #1"], ["prog.asm", "--print"])
cli("bad-index", ["  LDA 5,Z"], ["prog.asm", "--print"])
cli("too-big", ["  LDA #256"], ["prog.asm", "--print", "--symbols"])
with open("demo.bin", "rb") as handle:
    emit("F/cli/binary-bytes", list(handle.read()))

print(json.dumps(["cases", CASES]))
'''


def run(tree):
    tree = os.path.abspath(tree)
    with tempfile.TemporaryDirectory() as work:
        completed = subprocess.run(
            [sys.executable, "-c", PROBE, tree, work],
            cwd=work, capture_output=True, text=True, timeout=1800,
        )
    return completed.returncode, completed.stdout, completed.stderr


def count_cases(lines):
    import json
    total = 0
    for line in lines:
        record = json.loads(line)
        payload = record[1]
        if isinstance(payload, list) and payload and isinstance(payload[0], list):
            total += len(payload)
        else:
            total += 1
    return total


def main():
    if len(sys.argv) != 3:
        print(__doc__)
        return 2
    code_a, out_a, err_a = run(sys.argv[1])
    code_b, out_b, err_b = run(sys.argv[2])
    if code_a != 0 or code_b != 0:
        print("probe failed: A={} B={}".format(code_a, code_b))
        print(err_a[-2000:])
        print(err_b[-2000:])
        return 1
    lines_a = out_a.splitlines()
    lines_b = out_b.splitlines()
    differences = 0
    for index in range(max(len(lines_a), len(lines_b))):
        left = lines_a[index] if index < len(lines_a) else "<missing>"
        right = lines_b[index] if index < len(lines_b) else "<missing>"
        if left != right:
            differences += 1
            if differences <= 10:
                position = next((i for i, (a, b) in enumerate(zip(left, right)) if a != b), 0)
                start = max(0, position - 200)
                print("DIFF in {}\n  A: ...{}\n  B: ...{}".format(left[:40], left[start:position + 200], right[start:position + 200]))
    if err_a != err_b:
        differences += 1
        print("stderr differs")
    print("{} records ({} individual cases) compared, {} differing records".format(
        len(lines_a), count_cases(lines_a), differences))
    return 1 if differences else 0


if __name__ == "__main__":
    sys.exit(main())
