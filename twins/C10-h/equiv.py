#!/usr/bin/env python
"""
Differential check for property C10 (an existing target file is never modified unless append applies to it).

usage: equiv.py <treeA> <treeB>

The PROBE below is run once per tree in a subprocess (tree at the front of
sys.path, a private scratch directory as cwd).  It prints one JSON document
with every observable result; the two documents must be identical.
"""
import json
import os
import subprocess
import sys
import tempfile

PROBE = r'''
import hashlib, io, json, os, subprocess, sys, contextlib
TREE = sys.argv[1]
sys.path.insert(0, TREE)
from cocoasm.virtualfiles.disk import DiskFile, DiskConstants
from cocoasm.virtualfiles.cassette import CassetteFile
from cocoasm.virtualfiles.binary import BinaryFile
from cocoasm.virtualfiles.coco_file import CoCoFile
from cocoasm.virtualfiles.virtual_file import VirtualFile, VirtualFileType
from cocoasm.virtualfiles.virtual_file_container import VirtualFileContainer
from cocoasm.virtualfiles.source_file import SourceFile, SourceFileType
from cocoasm.values import NumericValue, NoneValue

RESULTS = []
FAT = 78592
DIR = 78848
GRAN = 2304

def digest(buf):
    raw = bytes(bytearray(buf))
    return {"len": len(raw), "sha": hashlib.sha256(raw).hexdigest(), "head": raw[:48].hex(), "tail": raw[-24:].hex()}

def image(buf):
    out = digest(buf)
    if len(buf) == DiskConstants.IMAGE_SIZE:
        raw = bytes(bytearray(buf))
        out["fat"] = raw[FAT:FAT + 256].hex()
        out["dirsha"] = hashlib.sha256(raw[DIR:DIR + 72 * 32]).hexdigest()
    return out

def val(v):
    if v is None or not hasattr(v, "hex"):
        return repr(v)
    return [type(v).__name__, v.int, v.hex(), v.hex(size=4), v.negative]

def show_file(f):
    return {"name": f.name, "ext": f.extension, "type": val(f.type), "dtype": val(f.data_type), "gaps": val(f.gaps),
            "load": val(f.load_addr), "exec": val(f.exec_addr), "data": digest(f.data), "str": str(f)}

def case(label, fn):
    try:
        out = fn()
        RESULTS.append([label, "ok", out])
    except BaseException as error:
        RESULTS.append([label, "exc", type(error).__name__, str(error)])

def pattern(length, seed):
    marker = [0x55, 0x3C, 0x00, 0x55, 0x3C, 0x01, 0x55, 0x3C, 0xFF, 0x00, 0x0F]
    if seed % 4 == 0:
        return [marker[(i + seed) % len(marker)] for i in range(length)]
    return [((i * (seed + 7)) + seed * 31 + (i >> 8)) & 0xFF for i in range(length)]

ML, BASIC, ASCII, DATA = (2, 0), (0, 0), (0, 0xFF), (1, 0)
def mkfile(name, length, seed=1, kind=ML, load=0x0E00, exe=0x0E10, ext="BIN"):
    return CoCoFile(name=name, extension=ext, type=NumericValue(kind[0]), data_type=NumericValue(kind[1]), gaps=NumericValue(0),
                    load_addr=NumericValue(load), exec_addr=NumericValue(exe), data=pattern(length, seed))

def disk_bytes(filename):
    with open(filename, "rb") as handle:
        return handle.read()

# ---- histories through VirtualFile on real files
def history(filename, vtype, steps):
    """steps: list of (list of files to add, append_mode); each step opens, adds, saves; then re-opens untyped and lists"""
    log = []
    for number, (files, append_mode) in enumerate(steps):
        entry = {"step": number}
        try:
            target = VirtualFile(SourceFile(filename, file_type=SourceFileType.BINARY), virtual_file_type=vtype)
            target.open_virtual_file()
            entry["opened"] = [target.file_exists, repr(target.virtual_file_type), [f.name for f in target.list_files()]]
            for coco_file in files:
                target.add_coco_file(coco_file)
            entry["save"] = target.save_virtual_file(append_mode=append_mode) if append_mode is not None else target.save_virtual_file()
        except Exception as error:
            entry["error"] = [type(error).__name__, str(error)]
        entry["image"] = image(disk_bytes(filename)) if os.path.exists(filename) else None
        try:
            probe = VirtualFile(SourceFile(filename, file_type=SourceFileType.BINARY))
            probe.open_virtual_file()
            entry["sniffed"] = [probe.file_exists, repr(probe.virtual_file_type), [show_file(f) for f in probe.list_files()]]
            entry["filtered"] = [f.name for f in probe.list_files(filenames=[files[0].name.upper() if files else "NONE", "ZZ"])]
        except Exception as error:
            entry["sniff_error"] = [type(error).__name__, str(error)]
        log.append(entry)
    return log

CAS, DSK, BIN = VirtualFileType.CASSETTE, VirtualFileType.DISK, VirtualFileType.BINARY
BOUNDARY = [0, 1, 255, 256, 2294, 2299, 2304, 4603]
for length in BOUNDARY:
    for tname, vtype, ext in (("cas", CAS, ".cas"), ("dsk", DSK, ".dsk")):
        case("hist-%s-two-%d" % (tname, length), lambda: history("two%d%s" % (length, ext), vtype,
             [([mkfile("FIRST", length, length & 7)], False), ([mkfile("SECOND", 300, 5, BASIC, ext="BAS")], True), ([mkfile("THIRD", length, 2, ASCII, ext="TXT")], True)]))
case("hist-cas-exists-noappend", lambda: history("exists.cas", CAS, [([mkfile("A", 10)], False), ([mkfile("B", 10)], False), ([mkfile("C", 10)], None), ([mkfile("D", 10)], True)]))
case("hist-dsk-exists-noappend", lambda: history("exists.dsk", DSK, [([mkfile("A", 10)], False), ([mkfile("B", 10)], False), ([mkfile("C", 10)], None), ([mkfile("D", 10)], True)]))
case("hist-bin", lambda: history("prog.bin", BIN, [([mkfile("A", 10)], False), ([mkfile("B", 20, 2)], False), ([mkfile("C", 30, 3)], True), ([], True)]))
case("hist-cas-many-per-step", lambda: history("many.cas", CAS, [([mkfile("A%d" % n, 100 * n + 1, n) for n in range(5)], True), ([], True), ([mkfile("B%d" % n, 255 * n, n) for n in range(4)], True)]))
case("hist-dsk-many-per-step", lambda: history("many.dsk", DSK, [([mkfile("A%d" % n, 1000 * n + 1, n) for n in range(5)], True), ([], True), ([mkfile("B%d" % n, 2304 * n + 5, n) for n in range(4)], True)]))
case("hist-cas-huge", lambda: history("huge.cas", CAS, [([mkfile("BIG1", 65535, 1)], False), ([mkfile("BIG2", 65535, 2)], True), ([mkfile("BIG3", 65535, 3)], True), ([mkfile("SMALL", 7, 4)], True)]))
case("hist-cas-size-of-disk", lambda: history("disksize.cas", CAS, [([mkfile("PAD%d" % n, 65535, n) for n in range(2)] + [mkfile("FIT", 161280 - 2 * (65535 + 257 * 8 + 2 * 256 + 21 + 6) - (2 * 256 + 21 + 6 + 8), 3)], False), ([mkfile("MORE", 5)], True)]))
case("hist-cas-ff-payload", lambda: history("ff.cas", CAS, [([CoCoFile(name="FF%d" % n, extension="BIN", type=NumericValue(2), data_type=NumericValue(0), gaps=NumericValue(0), load_addr=NumericValue(0), exec_addr=NumericValue(0), data=[0xFF] * 60000) for n in range(3)], False), ([mkfile("AFTER", 9)], True)]))
case("hist-dsk-fill", lambda: history("fill.dsk", DSK, [([mkfile("F%d" % n, 2304 * 3, n) for n in range(10)], False), ([mkfile("G%d" % n, 2304 * 2, n) for n in range(10)], True), ([mkfile("H%d" % n, 2304, n) for n in range(10)], True), ([mkfile("LAST", 1)], True)]))
case("hist-dsk-capacity", lambda: history("cap.dsk", DSK, [([mkfile("N%d" % n, 10 + n, n, (ML, BASIC, ASCII)[n % 3]) for n in range(60)], False), ([mkfile("M%d" % n, 10, n) for n in range(8)], True), ([mkfile("OVER", 5)], True)]))
case("hist-dsk-kinds", lambda: history("kinds.dsk", DSK, [([mkfile("ML", 3000, 1, ML), mkfile("BAS", 3000, 2, BASIC, ext="BAS")], False), ([mkfile("ASC", 3000, 3, ASCII, ext="TXT"), mkfile("DAT", 3000, 5, DATA, ext="DAT")], True)]))
case("hist-type-mismatch-cas-as-dsk", lambda: history("mismatch.cas", CAS, [([mkfile("A", 10)], False)]) + history("mismatch.cas", DSK, [([mkfile("B", 10)], True)]) + history("mismatch.cas", BIN, [([mkfile("C", 10)], True)]))
case("hist-type-mismatch-dsk-as-cas", lambda: history("mismatch.dsk", DSK, [([mkfile("A", 10)], False)]) + history("mismatch.dsk", CAS, [([mkfile("B", 10)], True)]) + history("mismatch.dsk", BIN, [([mkfile("C", 10)], True)]))
case("hist-type-mismatch-bin", lambda: history("mismatch.bin", BIN, [([mkfile("A", 10)], False)]) + history("mismatch.bin", CAS, [([mkfile("B", 10)], True)]) + history("mismatch.bin", DSK, [([mkfile("C", 10)], True)]))
case("hist-untyped", lambda: history("untyped.img", None, [([mkfile("A", 10)], False), ([mkfile("B", 10)], True)]))
case("hist-unknown-type", lambda: history("unknown.img", VirtualFileType.UNKNOWN, [([mkfile("A", 10)], False), ([mkfile("B", 10)], True)]))
def preexisting(filename, content, vtype, append=True):
    with open(filename, "wb") as handle:
        handle.write(bytearray(content))
    return history(filename, vtype, [([mkfile("NEW", 12)], append)])
case("hist-empty-existing-cas", lambda: preexisting("empty0.cas", [], CAS))
case("hist-empty-existing-dsk", lambda: preexisting("empty0.dsk", [], DSK))
case("hist-junk-existing-cas", lambda: preexisting("junk.cas", [1, 2, 3] * 100, CAS))
case("hist-junk-existing-dsk", lambda: preexisting("junk.dsk", [1, 2, 3] * 100, DSK))
case("hist-blank-disk-existing", lambda: preexisting("blank.dsk", [0xFF] * 161280, DSK))
case("hist-blank-disk-as-cas", lambda: preexisting("blank2.dsk", [0xFF] * 161280, CAS))
case("hist-zero-disk-existing", lambda: preexisting("zero.dsk", [0x00] * 161280, DSK))
case("hist-oversize-disk", lambda: preexisting("over.dsk", [0xFF] * 161281, DSK))
case("hist-undersize-disk", lambda: preexisting("under.dsk", [0xFF] * 161279, DSK))
case("hist-bad-tape-existing", lambda: preexisting("bad.cas", [0x55, 0x3C, 0x00, 0x0F] + [65] * 8 + [2, 0, 0, 0, 0, 0, 0, 0, 0x55] + [0x55, 0x3C, 0x01, 0x05, 1, 2], CAS))
case("hist-trunc-tape-existing", lambda: preexisting("trunc.cas", [0x55, 0x3C, 0x00, 0x0F] + [65] * 8 + [2, 0, 0, 0, 0, 0, 0, 0, 0x55] + [0x55, 0x3C, 0x07, 0x05, 1, 2], CAS))

# ---- VirtualFile method by method
def vf_state(vf):
    return [vf.file_exists, repr(vf.virtual_file_type), [f.name for f in vf.coco_file_list]]
def methods():
    out = []
    vf = VirtualFile()
    out.append(vf_state(vf))
    out.append([len(vf.list_files()), vf.list_files(filenames=["A"]), len(vf.list_files(filenames=[])), vf.delete_coco_file("X")])
    vf.add_coco_file(mkfile("A", 3)); vf.add_coco_file(mkfile("B", 3)); vf.add_coco_file(mkfile("A", 4))
    out.append([[f.name for f in vf.list_files()], [len(f.data) for f in vf.list_files(filenames=["A"])], [f.name for f in vf.list_files(filenames=("B", "C"))], vf.list_files() is vf.coco_file_list])
    out.append(vf.save_virtual_file())
    try:
        vf.open_virtual_file()
    except Exception as error:
        out.append([type(error).__name__, str(error)])
    return out
case("vf-methods", methods)
def get_coco(content, vtype=None):
    with open("probe.img", "wb") as handle:
        handle.write(bytearray(content))
    source = SourceFile("probe.img", file_type=SourceFileType.BINARY)
    source.read_file()
    vf = VirtualFile(source, virtual_file_type=vtype)
    files, kind = vf.get_coco_files()
    return [[show_file(f) for f in files], repr(kind), vf_state(vf)]
def cas_image(files):
    cas = CassetteFile(); cas.add_files(files); return cas.get_buffer()
def dsk_image(files):
    dsk = DiskFile(); dsk.add_files(files); return dsk.get_buffer()
case("sniff-empty", lambda: get_coco([]))
case("sniff-junk", lambda: get_coco([7] * 50))
case("sniff-cas", lambda: get_coco(cas_image([mkfile("T", 50)])))
case("sniff-dsk", lambda: get_coco(dsk_image([mkfile("D", 50)])))
case("sniff-dsk-bad-file", lambda: get_coco(dsk_image([mkfile("D", 2299)])))
case("sniff-dsk-then-tape", lambda: get_coco(list(dsk_image([mkfile("D", 2299)])) + list(cas_image([mkfile("T", 5)]))))
case("sniff-tape-padded-to-disk", lambda: get_coco(list(cas_image([mkfile("T", 5)])) + [0xFF] * 161280))
case("sniff-tape-padded-zero", lambda: get_coco(list(cas_image([mkfile("T", 5)])) + [0x00] * 161280))
case("sniff-tape-broken", lambda: get_coco(list(cas_image([mkfile("T", 5)]))[:-8]))
case("sniff-tape-unknown-block", lambda: get_coco([0x55, 0x3C, 0x00, 0x0F] + [65] * 8 + [2, 0, 0, 0, 0, 0, 0, 0, 0x55, 0x55, 0x3C, 0x09, 0x00]))
case("sniff-tape-truncated", lambda: get_coco([0x55, 0x3C, 0x00, 0x0F] + [65] * 4))


# ---- host file primitives
def source_file_cases():
    out = []
    with open("sf.bin", "wb") as handle:
        handle.write(bytes(range(256)) * 3 + b"\r\n\x00\xff")
    with open("sf.asm", "w") as handle:
        handle.write("first line\n\tsecond line  \n\nlast line without newline")
    with open("sf_empty.bin", "wb") as handle:
        pass
    for name, ftype in (("sf.bin", SourceFileType.BINARY), ("sf.asm", SourceFileType.ASSEMBLY), ("sf_empty.bin", SourceFileType.BINARY), ("sf_empty.bin", SourceFileType.ASSEMBLY), ("sf.asm", SourceFileType.BINARY), ("sf.asm", None)):
        sf = SourceFile(name, file_type=ftype) if ftype is not None else SourceFile(name)
        before = [sf.get_file_name(), repr(sf.file_type), sf.get_buffer()]
        sf.read_file()
        buf = sf.get_buffer()
        out.append([before, type(buf).__name__, len(buf), [type(x).__name__ for x in buf[:2]], buf[:6], buf[-6:], sf.get_buffer() is sf.buffer])
    out.append([SourceFile.read_binary_contents("sf.bin")[250:260], SourceFile.read_assembly_contents("sf.asm")])
    sf = SourceFile("sf_out.bin", file_type=SourceFileType.BINARY)
    out.append([sf.set_buffer([1, 2, 3, 255, 0]), sf.write_file(), disk_bytes("sf_out.bin").hex()])
    out.append([sf.set_buffer(bytearray(b"xyz")), sf.write_file(), disk_bytes("sf_out.bin").hex()])
    out.append([sf.set_buffer(b"bytes"), sf.write_file(), disk_bytes("sf_out.bin").hex()])
    out.append([sf.set_buffer([]), sf.write_file(), disk_bytes("sf_out.bin").hex()])
    asm = SourceFile("sf_out.asm")
    out.append([asm.set_buffer([65, 66]), asm.write_file(), os.path.exists("sf_out.asm")])
    odd = SourceFile("sf_odd.bin", file_type="other")
    out.append([odd.read_file(), odd.get_buffer(), odd.set_buffer([1]), odd.write_file(), os.path.exists("sf_odd.bin")])
    out.append([SourceFile.write_binary_contents("sf_static.bin", [9, 8, 7]), disk_bytes("sf_static.bin").hex()])
    return out
case("source-file", source_file_cases)
def failing(fn):
    try:
        return ["ok", fn()]
    except Exception as error:
        return [type(error).__name__, str(error)]
def source_file_errors():
    out = []
    out.append(failing(lambda: SourceFile("sf_missing.bin", file_type=SourceFileType.BINARY).read_file()))
    out.append(failing(lambda: SourceFile("sf_missing.asm").read_file()))
    out.append(failing(lambda: SourceFile(None, file_type=SourceFileType.BINARY).read_file()))
    with open("sf_keep.bin", "wb") as handle:
        handle.write(b"precious")
    bad = SourceFile("sf_keep.bin", file_type=SourceFileType.BINARY)
    bad.set_buffer([1, 2, 300])
    out.append(failing(bad.write_file)); out.append(disk_bytes("sf_keep.bin").hex())
    bad.set_buffer(None)
    out.append(failing(bad.write_file)); out.append(disk_bytes("sf_keep.bin").hex())
    nodir = SourceFile("sf_nodir/x.bin", file_type=SourceFileType.BINARY)
    nodir.set_buffer([1])
    out.append(failing(nodir.write_file))
    with open("sf_utf.asm", "wb") as handle:
        handle.write(b"\xff\xfe bad utf8\n")
    out.append(failing(lambda: SourceFile("sf_utf.asm").read_file()))
    return out
case("source-file-errors", source_file_errors)

# ---- command line front ends: the overwrite matrix
def run(args):
    proc = subprocess.run([sys.executable] + args, stdout=subprocess.PIPE, stderr=subprocess.PIPE, universal_newlines=True)
    stderr = proc.stderr.replace(TREE, "<TREE>")
    if "Traceback (most recent call last)" in stderr:
        # an uncaught exception: the quoted source lines and line numbers of the frames are not
        # behaviour, the exception reported on the last line is
        stderr = "\n".join(line for line in stderr.splitlines() if line and not line.startswith((" ", "Traceback")))
    return [proc.returncode, proc.stdout, stderr]
FILE_UTIL = os.path.join(TREE, "file_util.py")
ASSEMBLER = os.path.join(TREE, "assembler.py")
with open("prog.asm", "w") as handle:
    handle.write("        ORG $0E00\nSTART   LDA #$55\n        LDB #$3C\n        FDB $553C,$0155,$3CFF\nLOOP    JMP LOOP\n        END START\n")
with open("named.asm", "w") as handle:
    handle.write("        NAM INSIDE\n        ORG $2000\nSTART   NOP\n        END START\n")
with open("src_one.cas", "wb") as handle:
    handle.write(bytearray(cas_image([mkfile("SRCONE", 700, 3)])))
with open("src_many.cas", "wb") as handle:
    handle.write(bytearray(cas_image([mkfile("SRCA", 10, 1), mkfile("SRCB", 3000, 2, BASIC, ext="BAS")])))
with open("src_one.dsk", "wb") as handle:
    handle.write(bytearray(dsk_image([mkfile("DSKONE", 700, 5)])))
OLD = 1000000000
def big_tape():
    return cas_image([mkfile("BIG%d" % n, 65535, n + 1) for n in range(3)])
EXISTING = {
    "absent": None,
    "empty": [],
    "cassette": cas_image([mkfile("OLDTAPE", 300, 3)]),
    "disk": dsk_image([mkfile("OLDDISK", 300, 5)]),
    "binary": pattern(100, 2),
    "arbitrary": [0x55, 0x3C, 0x00, 0x0F] + [65] * 8 + [2, 0, 0, 0, 0, 0, 0, 0, 0x55, 0x55, 0x3C, 0x09, 0x00] + [7] * 40,
    "truncated-tape": [0x55, 0x3C, 0x00, 0x0F] + [65] * 4,
    "big-cassette": big_tape(),
    "ff-disk-size": [0xFF] * 161280,
    "zero-disk-size": [0x00] * 161280,
}
def invoke(label, target, content, args):
    if os.path.exists(target):
        os.remove(target)
    if content is not None:
        with open(target, "wb") as handle:
            handle.write(bytearray(content))
        os.utime(target, (OLD, OLD))
    before = digest(disk_bytes(target)) if content is not None else None
    result = run(args)
    exists = os.path.exists(target)
    after = image(disk_bytes(target)) if exists else None
    touched = exists and (content is None or int(os.stat(target).st_mtime) != OLD)
    unchanged = content is not None and exists and disk_bytes(target) == bytes(bytearray(content))
    listing = run([FILE_UTIL, "--list", target]) if exists else None
    return {"run": result, "before": before, "after": after, "touched": touched, "unchanged": unchanged, "listing": listing, "others": sorted(n for n in os.listdir(".") if n.startswith("t_"))}
for ename, content in EXISTING.items():
    for option, ext in (("--to_bin", ".bin"), ("--to_cas", ".cas"), ("--to_dsk", ".dsk")):
        for append in (False, True):
            extra = ["--append"] if append else []
            target = "t_%s%s" % (ename, ext)
            tag = "%s-%s-%s" % (ename, option[5:], "append" if append else "plain")
            case("matrix-asm-" + tag, lambda: invoke(tag, target, content, [ASSEMBLER, "prog.asm", option, target, "--name", "newprog"] + extra))
            case("matrix-util-" + tag, lambda: invoke(tag, target, content, [FILE_UTIL, "src_one.cas", option, target] + extra))
            if os.path.exists(target):
                os.remove(target)
# sequences and odd corners
SEQUENCE = [
    ("asm-three-targets", [ASSEMBLER, "prog.asm", "--to_bin", "s_all.bin", "--to_cas", "s_all.cas", "--to_dsk", "s_all.dsk", "--name", "all"]),
    ("asm-three-targets-again", [ASSEMBLER, "prog.asm", "--to_bin", "s_all.bin", "--to_cas", "s_all.cas", "--to_dsk", "s_all.dsk", "--name", "again"]),
    ("asm-three-targets-append", [ASSEMBLER, "named.asm", "--to_bin", "s_all.bin", "--to_cas", "s_all.cas", "--to_dsk", "s_all.dsk", "--append"]),
    ("asm-noname-all", [ASSEMBLER, "prog.asm", "--to_bin", "s_nn.bin", "--to_cas", "s_nn.cas", "--to_dsk", "s_nn.dsk"]),
    ("asm-noname-dsk", [ASSEMBLER, "prog.asm", "--to_dsk", "s_nn.dsk"]),
    ("asm-same-target-twice", [ASSEMBLER, "prog.asm", "--to_cas", "s_same.img", "--to_dsk", "s_same.img", "--name", "same"]),
    ("asm-same-target-twice-append", [ASSEMBLER, "prog.asm", "--to_cas", "s_same.img", "--to_dsk", "s_same.img", "--name", "same", "--append"]),
    ("asm-nodir", [ASSEMBLER, "prog.asm", "--to_bin", "nodir/x.bin", "--to_cas", "nodir/x.cas", "--to_dsk", "nodir/x.dsk", "--name", "x"]),
    ("asm-target-is-dir", [ASSEMBLER, "prog.asm", "--to_cas", ".", "--name", "x", "--append"]),
    ("asm-print-symbols", [ASSEMBLER, "prog.asm", "--print", "--symbols"]),
    ("asm-missing-source", [ASSEMBLER, "missing.asm", "--to_cas", "s_missing.cas", "--name", "x"]),
    ("util-list-missing", [FILE_UTIL, "--list", "s_none.cas"]),
    ("util-list-all-cas", [FILE_UTIL, "--list", "s_all.cas"]),
    ("util-list-all-dsk", [FILE_UTIL, "--list", "s_all.dsk"]),
    ("util-list-all-bin", [FILE_UTIL, "--list", "s_all.bin"]),
    ("util-list-files", [FILE_UTIL, "--list", "src_many.cas", "--files", "srcb"]),
    ("util-many-to-bin", [FILE_UTIL, "src_many.cas", "--to_bin", "s_many.bin"]),
    ("util-many-to-bin-files", [FILE_UTIL, "src_many.cas", "--to_bin", "s_many.bin", "--files", "SRCA"]),
    ("util-one-to-bin-filtered-out", [FILE_UTIL, "src_one.cas", "--to_bin", "s_filtered.bin", "--files", "other"]),
    ("util-none-to-bin", [FILE_UTIL, "s_none.cas", "--to_bin", "s_none.bin"]),
    ("util-none-to-cas", [FILE_UTIL, "s_none.cas", "--to_cas", "s_none_out.cas"]),
    ("util-all-options", [FILE_UTIL, "src_one.dsk", "--to_cas", "s_u.cas", "--to_dsk", "s_u.dsk", "--to_bin", "s_u.bin"]),
    ("util-all-options-again", [FILE_UTIL, "src_one.dsk", "--to_cas", "s_u.cas", "--to_dsk", "s_u.dsk", "--to_bin", "s_u.bin"]),
    ("util-all-options-append", [FILE_UTIL, "src_many.cas", "--to_cas", "s_u.cas", "--to_dsk", "s_u.dsk", "--to_bin", "s_u.bin", "--append", "--files", "srca"]),
    ("util-list-and-copy", [FILE_UTIL, "src_one.dsk", "--list", "--to_cas", "s_listcopy.cas"]),
    ("util-self-copy", [FILE_UTIL, "src_one.cas", "--to_cas", "src_one.cas", "--append"]),
    ("util-nodir", [FILE_UTIL, "src_one.cas", "--to_dsk", "nodir/x.dsk"]),
    ("util-files-lower", [FILE_UTIL, "src_many.cas", "--to_dsk", "s_sel.dsk", "--files", "srcb", "zz"]),
]
def files_here():
    return {name: image(disk_bytes(name)) for name in sorted(os.listdir(".")) if name.startswith(("s_", "src_")) and os.path.isfile(name)}
for label, args in SEQUENCE:
    case("seq-" + label, lambda: [run(args), files_here()])

json.dump(RESULTS, sys.stdout, indent=0, sort_keys=True, default=repr)
'''


def run_probe(tree):
    tree = os.path.abspath(tree)
    with tempfile.TemporaryDirectory() as scratch:
        env = dict(os.environ, PYTHONDONTWRITEBYTECODE="1", PYTHONHASHSEED="0")
        env.pop("PYTHONPATH", None)
        proc = subprocess.run([sys.executable, "-c", PROBE, tree], cwd=scratch, env=env,
                              stdout=subprocess.PIPE, stderr=subprocess.PIPE, universal_newlines=True)
    if proc.returncode != 0:
        print("probe failed for %s:\n%s" % (tree, proc.stderr))
        sys.exit(1)
    return json.loads(proc.stdout)


def main():
    if len(sys.argv) != 3:
        print(__doc__)
        sys.exit(2)
    from concurrent.futures import ThreadPoolExecutor
    with ThreadPoolExecutor(max_workers=2) as pool:
        first, second = pool.map(run_probe, sys.argv[1:3])
    labels_a = [entry[0] for entry in first]
    labels_b = [entry[0] for entry in second]
    bad = 0
    if labels_a != labels_b:
        print("case lists differ")
        bad += 1
    for left, right in zip(first, second):
        if left != right:
            bad += 1
            print("DIFF %s\n  A: %s\n  B: %s" % (left[0], json.dumps(left)[:600], json.dumps(right)[:600]))
    errors = sum(1 for entry in first if entry[1] == "exc")
    print("%d cases (%d raising), %d differences" % (len(first), errors, bad))
    sys.exit(1 if bad else 0)


if __name__ == "__main__":
    main()
