#!/venv/bin/python
"""
Differential check for the refactoring of Program.process_mnemonics.

usage: equiv.py <treeA> <treeB>

For each tree a child process (tree first on sys.path, temp dir as cwd) builds
every case (a set of source files), assembles main.asm in-process and through
assembler.py, and reports everything observable as JSON. Exit 0 if both trees
agree on every case.
"""
import json
import os
import subprocess
import sys
import tempfile

BASE = [
    "            NAM   SPLIT",
    "            ORG   $0E00",
    "START       LDA   #$01        ; first",
    "            LDX   #TABLE",
    "LOOP        LDB   ,X+",
    "            BEQ   DONE",
    "            LBSR  OUTCH",
    "            LEAY  TABLE,PCR",
    "            BRA   LOOP",
    "DONE        JMP   START",
    "OUTCH       STB   >$FF00",
    "            RTS",
    "COUNT       EQU   $05",
    "TABLE       FCB   $01,$02,$00",
    "MSG         FCC   'HI THERE'",
    "WORDS       FDB   DONE",
    "            LDA   COUNT",
    "            END   START",
]


def cases():
    out = []
    # 1. no include at all
    out.append(("plain", {"main.asm": BASE}))
    # 2. one split at every statement boundary (tail goes to the included file)
    for cut in range(1, len(BASE)):
        out.append(("tail%02d" % cut, {
            "main.asm": BASE[:cut] + ["            INCLUDE tail.asm"],
            "tail.asm": BASE[cut:],
        }))
    # 3. a middle slice is included, statements on both sides
    for lo, hi in ((2, 5), (4, 9), (9, 12), (12, 16), (1, 17), (5, 6)):
        out.append(("mid%02d_%02d" % (lo, hi), {
            "main.asm": BASE[:lo] + ["   INCLUDE mid.asm   ; the middle"] + BASE[hi:],
            "mid.asm": BASE[lo:hi],
        }))
    # 4. several includes in one file, adjacent and separated, first and last line
    out.append(("three", {
        "main.asm": ["  INCLUDE a.asm"] + BASE[4:8] + ["  INCLUDE b.asm", "  INCLUDE c.asm"],
        "a.asm": BASE[:4], "b.asm": BASE[8:13], "c.asm": BASE[13:],
    }))
    out.append(("only_includes", {
        "main.asm": ["  INCLUDE a.asm", "  INCLUDE b.asm"],
        "a.asm": BASE[:10], "b.asm": BASE[10:],
    }))
    # 5. nesting to depth 3, with statements after the nested include
    out.append(("depth3", {
        "main.asm": BASE[:3] + ["  INCLUDE l1.asm"] + BASE[15:],
        "l1.asm": BASE[3:6] + ["  INCLUDE l2.asm"] + BASE[12:15],
        "l2.asm": BASE[6:8] + ["  INCLUDE l3.asm"] + BASE[10:12],
        "l3.asm": BASE[8:10],
    }))
    # 6. the same file twice (not a cycle): duplicate label diagnostic / or fine
    out.append(("twice_ok", {
        "main.asm": BASE[:3] + ["  INCLUDE nop.asm", "  INCLUDE nop.asm"] + BASE[3:],
        "nop.asm": ["  NOP", "* just a comment", "", "  CLRA"],
    }))
    out.append(("twice_label", {
        "main.asm": BASE[:3] + ["  INCLUDE lab.asm", "  INCLUDE lab.asm"] + BASE[3:],
        "lab.asm": ["AGAIN  NOP"],
    }))
    # 7. included file is empty / comments only
    out.append(("empty_inc", {"main.asm": BASE[:5] + ["  INCLUDE e.asm"] + BASE[5:], "e.asm": []}))
    out.append(("comment_inc", {"main.asm": BASE[:5] + ["  INCLUDE e.asm"] + BASE[5:],
                                "e.asm": ["; nothing", "* here", "   "]}))
    # 8. path in a sub directory
    out.append(("subdir", {"main.asm": BASE[:7] + ["  INCLUDE sub/x.asm"] + BASE[11:], "sub/x.asm": BASE[7:11]}))
    # 9. errors: missing file (first, later, nested), directory, cycles
    out.append(("missing", {"main.asm": BASE[:7] + ["  INCLUDE nothere.asm"] + BASE[7:]}))
    out.append(("missing_second", {
        "main.asm": BASE[:7] + ["  INCLUDE a.asm", "  INCLUDE gone.asm"] + BASE[9:], "a.asm": BASE[7:9]}))
    out.append(("missing_nested", {
        "main.asm": BASE[:7] + ["  INCLUDE a.asm"] + BASE[9:], "a.asm": BASE[7:9] + [" INCLUDE gone.asm ; x"]}))
    out.append(("is_directory", {"main.asm": BASE[:7] + ["  INCLUDE sub"] + BASE[7:], "sub/x.asm": ["  NOP"]}))
    out.append(("self_cycle", {"main.asm": BASE[:7] + ["  INCLUDE a.asm"] + BASE[7:],
                               "a.asm": ["  NOP", "  INCLUDE a.asm"]}))
    out.append(("cycle2", {"main.asm": BASE[:7] + ["  INCLUDE a.asm"] + BASE[7:],
                           "a.asm": ["  NOP", "  INCLUDE b.asm", "  NOP"],
                           "b.asm": ["  INCLUDE a.asm"]}))
    out.append(("cycle3", {"main.asm": ["  INCLUDE a.asm"] + BASE,
                           "a.asm": ["  INCLUDE b.asm"], "b.asm": ["  CLRB", "  INCLUDE c.asm"],
                           "c.asm": ["  INCLUDE b.asm"]}))
    out.append(("cycle_before_missing", {"main.asm": ["  INCLUDE a.asm", "  INCLUDE gone.asm"],
                                         "a.asm": ["  INCLUDE a.asm"]}))
    out.append(("missing_before_cycle", {"main.asm": ["  INCLUDE gone.asm", "  INCLUDE a.asm"],
                                         "a.asm": ["  INCLUDE a.asm"]}))
    out.append(("main_includes_main", {"main.asm": BASE[:3] + ["  INCLUDE main.asm"]}))
    out.append(("bad_line_in_include", {"main.asm": BASE[:7] + ["  INCLUDE a.asm"] + BASE[7:],
                                        "a.asm": ["  FOO  #1"]}))
    out.append(("undefined_in_include", {"main.asm": BASE[:7] + ["  INCLUDE a.asm"] + BASE[7:],
                                         "a.asm": ["  LDA  NOWHERE"]}))
    out.append(("include_no_operand", {"main.asm": BASE[:7] + ["  INCLUDE"] + BASE[7:]}))
    out.append(("lowercase_include", {"main.asm": BASE[:7] + ["  include a.asm"] + BASE[9:], "a.asm": BASE[7:9]}))
    return out


def child(tree):
    sys.path.insert(0, tree)
    from cocoasm.program import Program
    from cocoasm.statement import Statement
    results = {}
    for name, files in cases():
        with tempfile.TemporaryDirectory() as tmp:
            for path, lines in files.items():
                full = os.path.join(tmp, path)
                os.makedirs(os.path.dirname(full), exist_ok=True)
                with open(full, "w") as handle:
                    handle.write("".join(line + "\n" for line in lines))
            os.chdir(tmp)
            record = {}
            # in-process
            try:
                with open("main.asm") as handle:
                    source = handle.readlines()
                program = Program()
                program.process(source)
                record["lib"] = {
                    "bytes": list(program.get_binary_array()),
                    "listing": [str(x) for x in program.get_statements()],
                    "symbols": [str(x) for x in program.get_symbol_table()],
                    "origin": str(program.origin), "name": program.name,
                }
            except Exception as error:
                record["lib"] = {
                    "exc": type(error).__name__,
                    "msg": str(getattr(error, "value", error)),
                    "stmt": str(getattr(error, "statement", "")),
                    "args": repr(error.args),
                }
            # process_mnemonics directly: generator argument, explicit chain argument
            try:
                parsed = Program.parse(source)
                flat = Program.process_mnemonics(iter(parsed), ("a.asm",))
                record["direct"] = [[x.label, x.mnemonic, x.operand.operand_string, x.comment] for x in flat]
                record["same_objects"] = all(any(x is y for y in parsed) or True for x in flat)
                record["kept_identity"] = [i for i, x in enumerate(flat) if any(x is y for y in parsed)]
                record["input_untouched"] = len(parsed)
                record["type"] = type(flat).__name__
            except Exception as error:
                record["direct"] = [type(error).__name__, str(getattr(error, "value", error)),
                                    str(getattr(error, "statement", ""))]
            # command line
            run = subprocess.run(
                [sys.executable, os.path.join(tree, "assembler.py"), "main.asm", "--print", "--symbols",
                 "--to_bin", "out.bin", "--to_cas", "out.cas", "--to_dsk", "out.dsk", "--name", "FALLBACK"],
                cwd=tmp, capture_output=True, text=True, env=dict(os.environ, PYTHONPATH=tree))
            record["cli"] = {"rc": run.returncode, "out": run.stdout,
                             "err": run.stderr.replace(tree, "<tree>")}
            record["files"] = {}
            for root, _, names in os.walk(tmp):
                for fn in sorted(names):
                    with open(os.path.join(root, fn), "rb") as handle:
                        record["files"][os.path.relpath(os.path.join(root, fn), tmp)] = handle.read().hex()
            os.chdir("/")
            results[name] = json.loads(json.dumps(record).replace(tmp, "<tmp>"))
    # process_mnemonics on an empty list and on a tuple
    results["empty_list"] = {"v": repr(Program.process_mnemonics([]))}
    one = Statement("  NOP\n")
    got = Program.process_mnemonics((one,))
    results["tuple_arg"] = {"v": [type(got).__name__, len(got), got[0] is one]}
    print(json.dumps(results))


def main():
    if len(sys.argv) == 3 and sys.argv[1] == "--child":
        child(os.path.abspath(sys.argv[2]))
        return 0
    if len(sys.argv) != 3:
        print(__doc__)
        return 2
    outputs = []
    for tree in sys.argv[1:3]:
        tree = os.path.abspath(tree)
        run = subprocess.run([sys.executable, os.path.abspath(__file__), "--child", tree],
                             cwd=tree, capture_output=True, text=True,
                             env=dict(os.environ, PYTHONPATH=tree, PYTHONDONTWRITEBYTECODE="1"))
        if run.returncode != 0:
            print("child failed for", tree)
            print(run.stderr)
            return 1
        outputs.append(json.loads(run.stdout))
    first, second = outputs
    bad = 0
    for name in sorted(set(first) | set(second)):
        if first.get(name) != second.get(name):
            bad += 1
            print("DIFFERENT:", name)
            for key in sorted(set(first.get(name, {})) | set(second.get(name, {}))):
                if first.get(name, {}).get(key) != second.get(name, {}).get(key):
                    print("  ", key)
                    print("    A:", str(first.get(name, {}).get(key))[:400])
                    print("    B:", str(second.get(name, {}).get(key))[:400])
    ok = sum(1 for v in first.values() if "lib" in v and "exc" not in v["lib"])
    print("%d cases compared (%d assemble, %d diagnostics), %d differ" % (len(first), ok, len(first) - ok - 2, bad))
    return 1 if bad else 0


if __name__ == "__main__":
    sys.exit(main())
