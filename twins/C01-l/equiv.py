#!/usr/bin/env python
"""
Differential demonstration: runs the same inputs through the code of two source
trees (one subprocess per tree, the tree first on sys.path and as cwd) and
compares every observable result.

usage: equiv.py <treeA> <treeB>      exit 0 = all cases agree, 1 = a difference
"""
import json
import os
import subprocess
import sys
import tempfile

WORKER = r'''
import contextlib, io, json, os, subprocess, sys, tempfile

tree = os.path.abspath(sys.argv[1])
sys.path.insert(0, tree)
os.chdir(tree)
cases = json.load(sys.stdin)

from cocoasm.program import Program


def describe_exc(error):
    info = {"type": type(error).__name__, "str": str(error)}
    if hasattr(error, "value"):
        info["value"] = str(error.value)
    statement = getattr(error, "statement", None)
    if statement is not None:
        try:
            info["statement"] = str(statement)
        except Exception as inner:
            info["statement"] = "unprintable " + type(inner).__name__
    return info


def guarded(function):
    try:
        return function()
    except Exception as error:
        return {"error": describe_exc(error)}


def observe_program(lines):
    program = Program()
    try:
        program.process(lines)
    except Exception as error:
        return {"error": describe_exc(error)}
    return {
        "binary": guarded(program.get_binary_array),
        "listing": guarded(program.get_statements),
        "symbols": guarded(program.get_symbol_table),
        "origin": guarded(lambda: program.origin.hex()),
        "name": program.name,
        "detail": guarded(lambda: [
            [s.code_pkg.size, s.code_pkg.max_size, s.fixed_size, s.pcr_size_hint,
             type(s.operand).__name__, list(s.code_pkg.post_byte_choices),
             s.code_pkg.additional_needs_resolution, s.code_pkg.op_code.hex(),
             s.code_pkg.post_byte.hex(), s.code_pkg.additional.hex(), s.code_pkg.address.hex()]
            for s in program.statements]),
    }


def observe_call(code):
    namespace = {}
    try:
        exec(code, namespace)
        return {"result": namespace.get("result")}
    except Exception as error:
        return {"error": describe_exc(error)}


def observe_cli(lines, args, tool="assembler.py", extra_files=None):
    with tempfile.TemporaryDirectory() as work:
        with open(os.path.join(work, "prog.asm"), "w") as handle:
            handle.writelines(lines)
        for name, text in (extra_files or {}).items():
            with open(os.path.join(work, name), "w") as handle:
                handle.write(text)
        before = set(os.listdir(work))
        done = subprocess.run(
            [sys.executable, os.path.join(tree, tool)] + args,
            cwd=work, capture_output=True, text=True,
            env=dict(os.environ, PYTHONPATH=tree, PYTHONDONTWRITEBYTECODE="1"),
        )
        files = {}
        for name in sorted(set(os.listdir(work)) - before):
            with open(os.path.join(work, name), "rb") as handle:
                files[name] = handle.read().hex()
        stderr_tail = done.stderr.strip().splitlines()[-1:] if done.stderr.strip() else []
        return {"code": done.returncode, "stdout": done.stdout, "stderr_tail": stderr_tail, "files": files}


results = []
for case in cases:
    kind = case["kind"]
    if kind == "program":
        results.append(observe_program(case["lines"]))
    elif kind == "call":
        results.append(observe_call(case["code"]))
    elif kind == "cli":
        results.append(observe_cli(case["lines"], case["args"], case.get("tool", "assembler.py"),
                                   case.get("extra_files")))
    else:
        raise SystemExit("unknown case kind " + kind)
json.dump(results, sys.stdout)
'''


def prog(*lines):
    """A program case; every line gets its newline like a line read from a file."""
    return {"kind": "program", "lines": [line + "\n" for line in lines]}


def call(code):
    """A direct library call; the snippet leaves a JSON-friendly value in `result`."""
    return {"kind": "call", "code": code}


def cli(lines, args=("prog.asm", "--print", "--symbols", "--to_bin", "out.bin"), extra_files=None):
    return {"kind": "cli", "lines": [line + "\n" for line in lines], "args": list(args),
            "extra_files": extra_files}


def run_tree(tree, cases):
    with tempfile.TemporaryDirectory() as work:
        worker = os.path.join(work, "worker.py")
        with open(worker, "w") as handle:
            handle.write(WORKER)
        done = subprocess.run(
            [sys.executable, worker, tree], input=json.dumps(cases), capture_output=True, text=True,
            cwd=tree, env=dict(os.environ, PYTHONDONTWRITEBYTECODE="1"),
        )
    if done.returncode != 0:
        print("worker failed for", tree)
        print(done.stderr)
        sys.exit(1)
    return json.loads(done.stdout)


def main(cases):
    if len(sys.argv) != 3:
        print(__doc__)
        sys.exit(2)
    tree_a, tree_b = (os.path.abspath(p) for p in sys.argv[1:3])
    results_a = run_tree(tree_a, cases)
    results_b = run_tree(tree_b, cases)
    differences = 0
    accepted = 0
    for number, (case, a, b) in enumerate(zip(cases, results_a, results_b)):
        if "error" not in a:
            accepted += 1
        if a != b:
            differences += 1
            print("DIFFERENCE in case", number, json.dumps(case)[:300])
            print("   A:", json.dumps(a)[:600])
            print("   B:", json.dumps(b)[:600])
    print("{} cases, {} without error in tree A, {} differences".format(len(cases), accepted, differences))
    sys.exit(1 if differences or len(results_a) != len(cases) or len(results_b) != len(cases) else 0)


# ---------------------------------------------------------------------------
# cases
# ---------------------------------------------------------------------------
CASES = []

# the constructors directly, with and without a ready made value, for many operand texts
TEXTS = ["", "#5", "#$FF", "#$1234", "#LABEL", "#A+1", "#", "5", "$20", "$0020", "<$20", "<$1234", ">$20", ">5",
         "300", "-5", "LABEL", "LABEL+2", "A,X", "5,Y", "[5,Y]", "[$1234]", "%00001111", "'A", "#'A", "1+", "$", "#$",
         "<", ">", "$12345", "70000", "#70000", "#-1", ">LABEL", "<LABEL", "\\n", ">$20\\nX", "a b"]
for text in TEXTS:
    CASES.append(call('''
from cocoasm.operands import UnknownOperand, InherentOperand, ImmediateOperand, DirectOperand, ExtendedOperand, Operand
from cocoasm.statement import Statement
from cocoasm.values import NumericValue, NoneValue, SymbolValue
from cocoasm.instruction import INSTRUCTIONS
text = "%s"
result = []
def show(operand):
    value = operand.value
    return [type(operand).__name__, operand.type.name, operand.operand_string, type(value).__name__, value.type.name,
            value.int, value.hex(), value.hex_len(), value.size_hint, value.explict_addressing_mode.name, value.ascii(),
            value.is_negative(), operand.left.hex(), operand.right.hex(), operand.requires_resolution]
for mnemonic in ("LDA", "LDX", "NEG", "CLRA", "FCC"):
    instruction = next(i for i in INSTRUCTIONS if i.mnemonic == mnemonic)
    ready = [None, NumericValue(7), NumericValue(-7), NoneValue(), SymbolValue("FOO"), NumericValue(0)]
    for kind in (UnknownOperand, InherentOperand, ImmediateOperand, DirectOperand, ExtendedOperand):
        for value in ready:
            try:
                result.append(show(kind(text, instruction, value) if value is not None else kind(text, instruction)))
            except Exception as error:
                result.append([type(error).__name__, str(error), repr(error.__cause__)])
    try:
        result.append(show(Operand.create_from_str(text, instruction)))
    except Exception as error:
        result.append([type(error).__name__, str(error)])
''' % text))

# whole programs through every addressing mode that these constructors feed
MODES = ["#5", "#$FF", "#-1", "5", "$20", "<$20", ">$20", "<300", "$1234", "300", "LABEL", "<LABEL", ">LABEL", "#LABEL",
         "LABEL+1", "FIVE", "#FIVE", "FIVE+FIVE", "", "-5", "#'A", "%00001111", "%0000111100001111"]
for mnemonic in ("LDA", "LDX", "STA", "STX", "NEG", "JMP", "CMPY", "ADDD", "CLRA", "RTS", "SWI2", "LEAX", "ANDCC"):
    for mode in MODES:
        CASES.append(prog("FIVE  EQU 5", "      ORG $1000", "LABEL NOP ", "      {} {}".format(mnemonic, mode), "      RTS "))

CASES.append(cli(["      NAM MODES", "      ORG $E00", "BEGIN LDA #1", "      STA <$20", "      STA >$20", "      STA $20",
                  "      LDX #BEGIN", "      JMP BEGIN", "      CLRA ", "      END BEGIN"]))
CASES.append(cli(["      CLRA 5"]))
CASES.append(cli(["      STA #5"]))

main(CASES)
