#!/venv/bin/python
"""
Differential demonstration: runs the same battery of cases against two source
trees (one subprocess per tree, tree as cwd and at the front of sys.path) and
compares every observable result.  Exit 0 when all agree, 1 otherwise.

usage: equiv.py <treeA> <treeB>
"""
import json
import subprocess
import sys

FOCUS = "SpecialOperand.translate (PSHS/PULS/EXG/TFR register recognition)"

DRIVER = r'''
import sys, os, io, json, hashlib, tempfile, subprocess, shutil, contextlib
tree = os.path.abspath(sys.argv[1])
os.chdir(tree)
sys.path.insert(0, tree)
PY = sys.executable

from cocoasm.program import Program
from cocoasm.exceptions import TranslationError, ParseError
from cocoasm.values import NumericValue, NoneValue, AddressValue, StringValue, MultiByteValue, MultiWordValue
from cocoasm.virtualfiles.coco_file import CoCoFile
from cocoasm.virtualfiles.cassette import CassetteFile
from cocoasm.virtualfiles.disk import DiskFile, DiskConstants
from cocoasm.virtualfiles.binary import BinaryFile
from cocoasm.virtualfiles.virtual_file import VirtualFile, VirtualFileType
from cocoasm.virtualfiles.source_file import SourceFile, SourceFileType
from cocoasm.virtualfiles.virtual_file_container import VirtualFileContainer

R = {}

def digest(seq):
    try:
        seq = list(seq)
    except Exception as e:
        return "undigestable:" + repr(seq)
    h = hashlib.sha1(repr(seq).encode()).hexdigest()
    return {"len": len(seq), "sha": h, "head": seq[:24], "tail": seq[-8:]}

def exc(e):
    d = {"exc": type(e).__name__, "msg": str(e)}
    if hasattr(e, "value"):
        d["value"] = str(e.value)
    if hasattr(e, "statement"):
        try:
            d["statement"] = str(e.statement)
        except Exception as e2:
            d["statement"] = "unprintable " + type(e2).__name__
    return d

def vhex(v):
    try:
        return [type(v).__name__, v.hex(), v.hex(size=4), v.int if hasattr(v, "int") else None]
    except Exception as e:
        return ["bad", repr(v), type(e).__name__]

def cf(c):
    if c is None:
        return None
    return {"name": c.name, "ext": c.extension, "type": vhex(c.type), "load": vhex(c.load_addr),
            "exec": vhex(c.exec_addr), "dtype": vhex(c.data_type), "gaps": vhex(c.gaps),
            "data": digest(c.data), "str": str(c)}

def guarded(key, fn):
    out = io.StringIO()
    try:
        with contextlib.redirect_stdout(out):
            res = fn()
        R[key] = {"ok": res, "stdout": out.getvalue()}
    except BaseException as e:
        R[key] = {"err": exc(e), "stdout": out.getvalue()}

# ---------------------------------------------------------------- assembling
def assemble(lines):
    p = Program()
    p.process(lines)
    return {"bytes": digest(p.get_binary_array()), "full": p.get_binary_array()[:64],
            "listing": p.get_statements(), "symbols": p.get_symbol_table(),
            "origin": vhex(p.origin), "name": p.name}

OPERANDS = ["", "#1", "#$FF", "#256", "#$1234", "#70000", "#-1", "#-129", "#%10101010", "#%101010101",
            "$10", "$1234", "<$12", "<$1234", ">$12", ">$1234", "[$12]", "[$1234]", "70000", "65535", "65536",
            "-32768", "-32769", ",X", "5,X", "-16,X", "15,X", "16,X", "127,Y", "128,U", "-129,S", "32768,X",
            "5,Z", "1,PC", "A,X", "B,Y", "D,U", "E,X", ",X+", ",X++", ",-X", ",--X", "[,X]", "[,X++]", "[,X+]",
            "[5,X]", "[A,X]", "10,PCR", "[10,PCR]", "LBL,PCR", "LBL", "#LBL", "[LBL]", "<LBL", ">LBL",
            "A,B", "X,Y", "A,X", "S", "A,B,X,Y", "PC,U,Y,X,DP,B,A,CC", "Z", "'A", "#'A", "\"AB\"", "/AB/", "/AB",
            "$", "%", "#", "[", "]", ",", "1+1", "LBL+1", "LBL-LBL", "#LBL+2", "UNDEF", "UNDEF,PCR", "$GG", "%12",
            "1,2", "1,2,3", "$FFFF,", ",,", "X", "#X", "5,", "[5,X", "5,X]"]
MNEMS = ["LDA", "STA", "LDX", "LEAX", "JMP", "JSR", "BRA", "LBRA", "BNE", "PSHS", "PULU", "TFR", "EXG",
         "CLRA", "CLR", "NEG", "ADDD", "CMPS", "ANDCC", "CWAI", "SWI2", "RTS", "NOP", "INC", "LDY", "STU",
         "FCB", "FDB", "FCC", "RMB", "ORG", "EQU", "SETDP", "NAM", "END", "BSR", "LBSR", "SEX", "MUL", "ABX", "XXX"]
n = 0
for m in MNEMS:
    for i, o in enumerate(OPERANDS):
        if (hash_i := (len(m) * 7 + i * 3 + MNEMS.index(m))) % 3 != 0 and m not in ("LDA", "STA", "LEAX", "PSHS", "TFR", "BRA", "FCB", "FDB", "FCC"):
            continue
        n += 1
        guarded("asm1/%s %s" % (m, o), lambda m=m, o=o: assemble(["LBL EQU $20\n" if m != "EQU" else "LBL NOP\n", "START %s %s ; c\n" % (m, o), " NOP\n"]))

PROGRAMS = {
 "plain": [" NAM hello", " ORG $0E00", "START LDA #1", " STA $400", "LOOP BRA LOOP", " END START"],
 "noname": [" ORG $2000", " LDX #$1234", " RTS"],
 "noorg": [" NAM X", " CLRA", " RTS"],
 "twoorg": [" ORG $1000", " NOP", " ORG $3000", " NAM first", " NAM SecondName12", " NOP"],
 "fcc": [" NAM fcc", " ORG $600", "MSG FCC /HELLO WORLD/", " FCB 1,2,3", " FDB $1234,5", " RMB 4", " FCB $FF"],
 "fcctab": [" FCC /A\tB/"],
 "empty": [],
 "comments": ["; only", "* star", "", "   "],
 "dupe": ["A NOP", "A NOP"],
 "undef": [" LDA FOO"],
 "bad": [" LDA #", " BOGUS"],
 "equ": ["V EQU $42", "W EQU V", " LDA #V", " LDB <V", " LDX W", " STA >V"],
 "setdp": [" SETDP $20", " LDA $2010", " LDA $10"],
 "include_missing": [" INCLUDE /nonexistent/file.asm"],
 "endaddr": [" NAM e", " ORG $4000", " NOP", "GO NOP", " END GO"],
 "mixed case": [" nam MiXeD", " org $100", "l lda #1", " bne l"],
 "long": [" NAM big", " ORG $1000"] + [" FDB $%04X" % (i * 37 % 65536) for i in range(700)],
}
for k, v in PROGRAMS.items():
    guarded("asm2/" + k, lambda v=v: assemble([x + "\n" for x in v]))

# PCR distances around the 8/16 bit boundary, forward and backward
for dist in [0, 1, 100, 120, 124, 125, 126, 127, 128, 129, 130, 131, 132, 133, 200, 255, 256, 257, 1000]:
    guarded("pcrf/%d" % dist, lambda d=dist: assemble([" ORG $1000\n", " LEAX T,PCR\n", " LDA T,PCR\n"] + [" RMB %d\n" % d] + ["T NOP\n", " LBRA T\n", " BRA T\n"]))
    guarded("pcrb/%d" % dist, lambda d=dist: assemble([" ORG $1000\n", "T NOP\n", " RMB %d\n" % d, " LEAX T,PCR\n", " LDY [T,PCR]\n", " BSR T\n", " LBSR T\n"]))
    guarded("pcr2/%d" % dist, lambda d=dist: assemble(["A LEAX B,PCR\n", " RMB %d\n" % d, "B LEAY A,PCR\n", " RMB %d\n" % (127 - d if d < 127 else 3), " LEAU A,PCR\n"]))

# include handling
tmp = tempfile.mkdtemp()
try:
    with open(os.path.join(tmp, "inc1.asm"), "w") as f:
        f.write("INC1 LDA #1\n INCLUDE %s\n" % os.path.join(tmp, "inc2.asm"))
    with open(os.path.join(tmp, "inc2.asm"), "w") as f:
        f.write("INC2 LDB #2\n")
    with open(os.path.join(tmp, "cyc.asm"), "w") as f:
        f.write(" NOP\n INCLUDE %s\n" % os.path.join(tmp, "cyc.asm"))
    def scrub(res):
        return json.loads(json.dumps(res).replace(tmp, "<TMP>"))
    for k, lines in {"ok": [" INCLUDE %s\n" % os.path.join(tmp, "inc1.asm"), " LDX #INC2\n"],
                     "cycle": [" INCLUDE %s\n" % os.path.join(tmp, "cyc.asm")],
                     "twice": [" INCLUDE %s\n" % os.path.join(tmp, "inc2.asm"), " INCLUDE %s\n" % os.path.join(tmp, "inc2.asm")]}.items():
        guarded("inc/" + k, lambda lines=lines: assemble(lines))
        R["inc/" + k] = scrub(R["inc/" + k])
finally:
    shutil.rmtree(tmp)

# ---------------------------------------------------------------- values
for v in [0, 1, 15, 16, 255, 256, 4095, 4096, 65535, "$0", "$00", "$000", "$0000", "$12", "$123", "$1234", "%1", "%11111111", "%111111111", "10", "0010"]:
    def val(v=v):
        x = NumericValue(v)
        return [x.hex(), x.hex(size=2), x.hex(size=4), x.hex_len(), x.byte_len(), x.high_byte(), x.low_byte(), x.is_8_bit(), x.is_16_bit(), x.int]
    guarded("val/%r" % (v,), val)
    def aval(v=v):
        x = AddressValue(v)
        return [x.hex(), x.hex(size=2), x.hex(size=4), x.hex_len(), x.byte_len(), x.high_byte(), x.low_byte(), x.int]
    guarded("aval/%r" % (v,), aval)
def other_vals():
    out = []
    for x in [NoneValue(), StringValue("/AB/"), StringValue("/\t/"), MultiByteValue("1,2,3"), MultiWordValue("1,$1234")]:
        out.append([x.hex(), x.hex_len(), x.byte_len(), x.high_byte(), x.low_byte()])
    return out
guarded("val/others", other_vals)
for bad in ["$12345", "65536", "-32769", "%11111111111111111", "$GG", "", "abc", None]:
    guarded("valbad/%r" % (bad,), lambda bad=bad: NumericValue(bad).hex())

# ---------------------------------------------------------------- containers
def mk(name, size, type=2, dtype=0, load=0x1000, exe=0x1005, ext="bin", seed=1):
    return CoCoFile(name=name, extension=ext, type=NumericValue(type), data_type=NumericValue(dtype),
                    load_addr=NumericValue(load), exec_addr=NumericValue(exe),
                    data=[(i * 31 + seed) % 256 for i in range(size)])

SIZES = [0, 1, 2, 254, 255, 256, 509, 510, 511, 765, 766, 1000, 2303, 2304, 2305]
for s in SIZES:
    for nm in ["A", "EIGHTCHR", "TOOLONGNAME1"]:
        def cas(s=s, nm=nm):
            c = CassetteFile()
            c.add_file(mk(nm, s, load=s * 17 % 65536, exe=(s * 29 + 255) % 65536))
            buf = list(c.get_buffer())
            rd = CassetteFile(buffer=list(buf))
            return {"buf": digest(buf), "all": buf if len(buf) < 700 else None, "files": [cf(x) for x in rd.list_files()]}
        guarded("cas/%d/%s" % (s, nm), cas)

def cas_multi():
    c = CassetteFile()
    c.add_files([mk("ONE", 10), mk("TWO", 300, type=0, dtype=0xFF, ext="bas"), mk("THREE", 255, type=1, dtype=0), mk("", 5)])
    buf = list(c.get_buffer())
    rd = CassetteFile(buffer=list(buf))
    return {"buf": digest(buf), "files": [cf(x) for x in rd.list_files()],
            "filt": [cf(x) for x in CassetteFile(buffer=list(buf)).list_files(filenames=["TWO     "])],
            "none": [cf(x) for x in CassetteFile(buffer=list(buf)).list_files(filenames=["NOPE"])]}
guarded("cas/multi", cas_multi)

def cas_pieces():
    out = {}
    for nm in ["", "A", "ABCDEFGH", "ABCDEFGHIJ", "abc", "été"]:
        c = CassetteFile()
        out["name:" + nm] = [c.append_name(nm), list(c.buffer)]
    c = CassetteFile(); c.append_eof(); out["eof"] = list(c.buffer)
    c = CassetteFile(); c.append_leader(); out["leader"] = digest(c.buffer)
    c = CassetteFile(); c.append_blank(); out["blank"] = digest(c.buffer)
    for s in [0, 1, 254, 255, 256, 511]:
        for g in [False, True]:
            c = CassetteFile(); c.append_data_blocks([(7 * i) % 256 for i in range(s)], gaps=g); out["blocks:%d:%s" % (s, g)] = digest(c.buffer)
    c = CassetteFile(); c.append_header(mk("HDR", 3, load=0x00FF, exe=0xFF00)); out["hdr"] = list(c.buffer)
    c = CassetteFile(); c.append_header(mk("HDR2", 3, load=0, exe=65535, type=0, dtype=255)); out["hdr2"] = list(c.buffer)
    return out
guarded("cas/pieces", cas_pieces)

def cas_errors():
    out = {}
    c = CassetteFile(); c.add_file(mk("TRUNC", 300)); full = list(c.get_buffer())
    for cut in [0, 1, 3, 100, 130, 131, 140, 150, 277, 280, 290, 400, 540, 560, len(full) - 7, len(full) - 6, len(full) - 1]:
        try:
            out["cut%d" % cut] = [cf(x) for x in CassetteFile(buffer=full[:cut]).list_files()]
        except BaseException as e:
            out["cut%d" % cut] = exc(e)
    bad = list(full); bad[full.index(0x3C, 300) + 1] = 0x07
    try:
        out["badtype"] = [cf(x) for x in CassetteFile(buffer=bad).list_files()]
    except BaseException as e:
        out["badtype"] = exc(e)
    for nm, ob in {"noname": CoCoFile(data=[1]), "nonename": CoCoFile(name=None, data=[1], type=NumericValue(2), data_type=NumericValue(0), load_addr=NumericValue(1), exec_addr=NumericValue(1))}.items():
        try:
            c = CassetteFile(); c.add_file(ob); out[nm] = digest(c.get_buffer())
        except BaseException as e:
            out[nm] = exc(e)
    return out
guarded("cas/errors", cas_errors)

def words():
    out = {}
    for buf in [[], [1], [1, 2], [1, 2, 3], [255, 255, 0, 0]]:
        for p in [-3, -2, -1, 0, 1, 2, 3, 4]:
            try:
                v = CassetteFile(buffer=list(buf)).read_word(p)
                out["%r@%d" % (buf, p)] = vhex(v)
            except BaseException as e:
                out["%r@%d" % (buf, p)] = exc(e)
    b = [1, 2, 3]
    c = BinaryFile(buffer=b)
    out["ctor"] = [c.buffer is b, c.original_buffer == b, c.original_buffer is b, BinaryFile().buffer, BinaryFile(buffer=[]).original_buffer]
    c.add_files([mk("X", 3), mk("Y", 0), mk("Z", 2)])
    out["bin"] = [list(c.get_buffer()), c.list_files(), c.list_files(filenames=["X"]), c.original_buffer]
    return out
guarded("container/words", words)

# disk
def disk_state(d):
    buf = d.get_buffer()
    fat = buf[DiskConstants.FAT_OFFSET:DiskConstants.FAT_OFFSET + 68]
    return {"buf": digest(buf), "fat": list(fat), "dir": digest(buf[DiskConstants.DIR_OFFSET:DiskConstants.DIR_OFFSET + 72 * 32]),
            "free": sum(1 for g in fat if g == 0xFF)}

for s in [0, 1, 255, 256, 2293, 2294, 2295, 2299, 2303, 2304, 2305, 4598, 4599, 4608, 9216, 20000]:
    for t, dt in [(2, 0), (0, 0), (0, 255), (1, 255)]:
        def dsk(s=s, t=t, dt=dt):
            d = DiskFile()
            d.add_file(mk("FILE%d" % t, s, type=t, dtype=dt, load=0x2000 + s % 100, exe=0x2001))
            st = disk_state(d)
            st["files"] = [cf(x) for x in DiskFile(buffer=list(d.get_buffer())).list_files()]
            return st
        guarded("dsk/%d/%d-%d" % (s, t, dt), dsk)

def dsk_calc():
    out = {}
    from cocoasm.virtualfiles import disk as dm
    for s in [0, 1, 255, 256, 2293, 2294, 2295, 2303, 2304, 2305, 4598, 4599, 4600, 4608, 156672]:
        pre = dm.MLPreamble(); post = dm.Postamble(); bp = dm.BasicPreamble(); ap = dm.ASCIIPreamble()
        data = [0] * s
        row = []
        for p, q in [(pre, post), (bp, None), (ap, None)]:
            row.append([DiskFile.calculate_granules_needed(data, p, q), DiskFile.calculate_last_sector_bytes_used(data, p, q),
                        DiskFile.calculate_last_granules_sectors_used(data, p, q)])
        row.append(DiskFile.calculate_sectors_needed(s))
        out[str(s)] = row
    out["seek"] = [DiskFile.seek_granule(g) for g in range(68)]
    return out
guarded("dsk/calc", dsk_calc)

def fill(files, order=None):
    d = DiskFile(granule_fill_order=order)
    trace = []
    for i, f in enumerate(files):
        try:
            d.add_file(f)
            st = disk_state(d)
            trace.append([i, st["free"], st["buf"]["sha"], d.find_empty_directory_entry()])
        except BaseException as e:
            st = disk_state(d)
            trace.append([i, exc(e), st["free"], st["buf"]["sha"]])
            break
    st = disk_state(d)
    try:
        st["files"] = [[x.name, x.extension, len(x.data), hashlib.sha1(repr(list(x.data)).encode()).hexdigest()[:10]] for x in DiskFile(buffer=list(d.get_buffer())).list_files()]
    except BaseException as e:
        st["files"] = exc(e)
    st["trace"] = trace
    return st
guarded("dskfill/slots", lambda: fill([mk("S%d" % i, i % 5, seed=i) for i in range(75)]))
guarded("dskfill/granules", lambda: fill([mk("G%d" % i, 2304 * 9 + i, seed=i) for i in range(9)]))
guarded("dskfill/exact", lambda: fill([mk("E%d" % i, 2304 * 17 - 10 - 1, seed=i) for i in range(5)]))
guarded("dskfill/mixed", lambda: fill([mk("M%d" % i, (i * 1777) % 9000, seed=i, type=[2, 0, 0][i % 3], dtype=[0, 0, 255][i % 3]) for i in range(80)]))
guarded("dskfill/toobig", lambda: fill([mk("BIG", 156672 - 9, seed=3), mk("ONE", 1)]))
guarded("dskfill/toobig2", lambda: fill([mk("BIG", 156672 - 10, seed=3), mk("ONE", 1)]))
guarded("dskfill/permuted", lambda: fill([mk("P%d" % i, 3000 + i * 500, seed=i) for i in range(30)], order=list(range(67, -1, -1))))
guarded("dskfill/permuted2", lambda: fill([mk("Q%d" % i, 2304 * 3, seed=i) for i in range(30)], order=[(g * 7) % 68 for g in range(68)]))
guarded("dskfill/shortorder", lambda: fill([mk("Q", 10)], order=[1, 2, 3]))
guarded("dskfill/badorder", lambda: fill([mk("Q%d" % i, 10) for i in range(5)], order=[0] * 67 + [68]))

def dsk_probe():
    out = {}
    d = DiskFile()
    for g in [-1, 0, 33, 67, 68]:
        try: out["g%d" % g] = d.granule_in_use(g)
        except BaseException as e: out["g%d" % g] = exc(e)
    for g in [-1, 0, 70, 71, 72]:
        try: out["d%d" % g] = d.directory_entry_in_use(g)
        except BaseException as e: out["d%d" % g] = exc(e)
    out["feg"] = d.find_empty_granule(); out["fed"] = d.find_empty_directory_entry()
    full = DiskFile(buffer=[0x01] * DiskConstants.IMAGE_SIZE)
    try: out["full_g"] = full.find_empty_granule()
    except BaseException as e: out["full_g"] = exc(e)
    out["full_d"] = full.find_empty_directory_entry()
    for n in [0, 10, DiskConstants.IMAGE_SIZE - 1]:
        try: out["short%d" % n] = DiskFile(buffer=[0] * n).list_files()
        except BaseException as e: out["short%d" % n] = exc(e)
    try: out["zeros"] = [cf(x) for x in DiskFile(buffer=[0] * DiskConstants.IMAGE_SIZE).list_files()]
    except BaseException as e: out["zeros"] = exc(e)
    try: out["ffs"] = [cf(x) for x in DiskFile(buffer=[0xFF] * DiskConstants.IMAGE_SIZE).list_files()]
    except BaseException as e: out["ffs"] = exc(e)
    return out
guarded("dsk/probe", dsk_probe)

# ---------------------------------------------------------------- VirtualFile + CLIs
work = tempfile.mkdtemp()
def snap():
    out = {}
    for fn in sorted(os.listdir(work)):
        with open(os.path.join(work, fn), "rb") as f:
            b = f.read()
        out[fn] = [len(b), hashlib.sha1(b).hexdigest()]
    return out
def run(cmd):
    p = subprocess.run([PY] + cmd, cwd=tree, stdout=subprocess.PIPE, stderr=subprocess.PIPE, text=True)
    err = p.stderr.replace(tree, "<TREE>").replace(work, "<W>")
    # keep only the last line of a traceback (line numbers legitimately move)
    err_lines = [l for l in err.splitlines() if not l.startswith("  ")]
    return {"rc": p.returncode, "out": p.stdout.replace(work, "<W>"), "err": err_lines}
def W(n):
    return os.path.join(work, n)
try:
    def vf_cases():
        out = {}
        for i, (vt, ext) in enumerate([(VirtualFileType.BINARY, "bin"), (VirtualFileType.CASSETTE, "cas"), (VirtualFileType.DISK, "dsk")]):
            path = W("vf." + ext)
            steps = []
            for step, append in enumerate([False, False, True, True]):
                try:
                    v = VirtualFile(SourceFile(path, file_type=SourceFileType.BINARY), vt)
                    v.open_virtual_file()
                    v.add_coco_file(mk("VF%d" % step, 100 * step + 5, seed=step))
                    v.save_virtual_file(append_mode=append)
                    steps.append(["saved", v.file_exists, str(v.virtual_file_type), [x.name for x in v.list_files()], [x.name for x in v.list_files(filenames=["VF0     "])]])
                except BaseException as e:
                    steps.append(exc(e))
                steps.append(snap())
            out[ext] = steps
        # type mismatches and type sniffing
        for src, vt in [("vf.cas", VirtualFileType.DISK), ("vf.dsk", VirtualFileType.CASSETTE), ("vf.bin", VirtualFileType.DISK), ("vf.cas", VirtualFileType.BINARY), ("vf.dsk", None), ("vf.cas", None), ("vf.bin", None), ("absent", None)]:
            try:
                v = VirtualFile(SourceFile(W(src), file_type=SourceFileType.BINARY), vt)
                v.open_virtual_file()
                out["open %s as %s" % (src, vt)] = [v.file_exists, str(v.virtual_file_type), [cf(x) for x in v.list_files()]]
            except BaseException as e:
                out["open %s as %s" % (src, vt)] = json.loads(json.dumps(exc(e)).replace(work, "<W>"))
        # a disk that overflows on save: host file must be untouched
        try:
            v = VirtualFile(SourceFile(W("vf.dsk"), file_type=SourceFileType.BINARY), VirtualFileType.DISK)
            v.open_virtual_file()
            v.add_coco_file(mk("HUGE", 156000))
            v.save_virtual_file(append_mode=True)
            out["overflow"] = "saved"
        except BaseException as e:
            out["overflow"] = exc(e)
        out["after overflow"] = snap()
        try:
            v = VirtualFile(SourceFile(W("unk.x"), file_type=SourceFileType.BINARY), VirtualFileType.UNKNOWN)
            v.add_coco_file(mk("U", 1)); v.save_virtual_file(); out["unknown"] = snap()
        except BaseException as e:
            out["unknown"] = exc(e)
        return json.loads(json.dumps(out).replace(work, "<W>"))
    guarded("vf/cases", vf_cases)

    SRC = {
     "named": " NAM prog\n ORG $0E00\nSTART LDA #1\n STA $400\nL BRA L\n END START\n",
     "unnamed": " ORG $3F00\n LDX #$1234\n RTS\n",
     "longname": " NAM LongerThan8x\n ORG $7000\n FCC /DATA/\n RTS\n",
     "big": " NAM big\n ORG $1000\n" + "".join(" FDB $%04X\n" % (i * 91 % 65536) for i in range(1500)),
     "noorg": " NAM noorg\n CLRA\n RTS\n",
     "broken": " NAM b\n LDA #\n",
     "undefd": " NAM b\n LDA FOO\n",
     "emptyprog": "; nothing\n",
    }
    for k, v in SRC.items():
        with open(W(k + ".asm"), "w") as f:
            f.write(v)
    CLI = [
     ["named", "--to_bin", "n.bin"], ["named", "--to_cas", "n.cas"], ["named", "--to_dsk", "n.dsk"],
     ["named", "--to_bin", "n2.bin", "--to_cas", "n2.cas", "--to_dsk", "n2.dsk", "--print", "--symbols"],
     ["named", "--to_cas", "n.cas"], ["named", "--to_cas", "n.cas", "--append"], ["named", "--to_dsk", "n.dsk", "--append"],
     ["named", "--to_bin", "n.bin", "--append"], ["named", "--to_bin", "n.bin"],
     ["named", "--to_cas", "n.cas", "--name", "OTHER"],
     ["unnamed", "--to_bin", "u.bin"], ["unnamed", "--to_cas", "u.cas"], ["unnamed", "--to_dsk", "u.dsk"],
     ["unnamed", "--to_cas", "u.cas", "--to_dsk", "u.dsk", "--to_bin", "u3.bin"],
     ["unnamed", "--to_cas", "u.cas", "--name", "given"], ["unnamed", "--to_dsk", "u.dsk", "--name", "GivenLongName"],
     ["unnamed", "--to_dsk", "u.dsk", "--name", "second", "--append"], ["unnamed", "--to_cas", "u.cas", "--name", ""],
     ["longname", "--to_cas", "l.cas", "--to_dsk", "l.dsk", "--to_bin", "l.bin"],
     ["big", "--to_cas", "b.cas", "--to_dsk", "b.dsk", "--to_bin", "b.bin", "--symbols"],
     ["big", "--to_dsk", "n.dsk", "--append"], ["big", "--to_cas", "n.dsk", "--append"], ["big", "--to_dsk", "n.cas", "--append"],
     ["noorg", "--to_cas", "o.cas", "--to_dsk", "o.dsk", "--print"],
     ["broken", "--to_bin", "x.bin", "--to_cas", "x.cas", "--to_dsk", "x.dsk"], ["undefd", "--to_bin", "x.bin", "--print"],
     ["emptyprog", "--to_bin", "e.bin", "--to_cas", "e.cas", "--name", "E", "--print", "--symbols"],
     ["named", "--print", "--width", "60"], ["named", "--to_bin", os.path.join("nodir", "n.bin")], ["missing", "--to_bin", "m.bin"],
     ["named"],
    ]
    for i, c in enumerate(CLI):
        args = [W(c[0] + ".asm")]
        for a in c[1:]:
            args.append(W(a) if "." in a and not a.startswith("--") else a)
        res = run(["assembler.py"] + args)
        res["files"] = snap()
        R["cli/%02d %s" % (i, " ".join(c))] = res
    FU = [["n.cas", "--list"], ["n.dsk", "--list"], ["n.bin", "--list"], ["u.cas", "--list"], ["u.dsk", "--list"], ["l.cas", "--list"], ["l.dsk", "--list"],
          ["b.cas", "--list"], ["b.dsk", "--list"], ["o.cas", "--list"], ["o.dsk", "--list"], ["e.cas", "--list"], ["absent.cas", "--list"],
          ["n.dsk", "--to_cas", "fu.cas"], ["n.cas", "--to_dsk", "fu.dsk"], ["fu.cas", "--list"], ["fu.dsk", "--list"],
          ["n.dsk", "--to_cas", "fu.cas"], ["n.dsk", "--to_cas", "fu.cas", "--append"], ["n.dsk", "--to_dsk", "fu2.dsk", "--files", "prog"],
          ["l.cas", "--to_bin", "fu.bin"], ["n.dsk", "--to_bin", "fu3.bin"], ["fu2.dsk", "--list"], ["n.bin", "--to_cas", "fu4.cas"]]
    for i, c in enumerate(FU):
        args = [W(a) if "." in a and not a.startswith("--") else a for a in c]
        res = run(["file_util.py"] + args)
        res["files"] = snap()
        R["fu/%02d %s" % (i, " ".join(c))] = res
finally:
    shutil.rmtree(work)

print(json.dumps(R, sort_keys=True, default=repr))
'''


def run_tree(tree):
    proc = subprocess.run([sys.executable, "-c", DRIVER, tree], stdout=subprocess.PIPE, stderr=subprocess.PIPE, text=True)
    if proc.returncode != 0:
        print("driver failed for", tree)
        print(proc.stderr[-3000:])
        sys.exit(2)
    return json.loads(proc.stdout)


def main():
    if len(sys.argv) != 3:
        print(__doc__)
        sys.exit(2)
    a = run_tree(sys.argv[1])
    b = run_tree(sys.argv[2])
    bad = 0
    for key in sorted(set(a) | set(b)):
        if a.get(key) != b.get(key):
            bad += 1
            if bad <= 10:
                print("DIFF", key)
                print("   A:", json.dumps(a.get(key))[:600])
                print("   B:", json.dumps(b.get(key))[:600])
    print("focus: %s; %d cases compared, %d differ" % (FOCUS, len(set(a) | set(b)), bad))
    sys.exit(1 if bad else 0)


if __name__ == "__main__":
    main()
