#!/usr/bin/env python
"""
Differential demonstration: runs the same inputs through the code of two source
trees (one subprocess per tree, the tree first on sys.path and as cwd) and
compares every observable result.

usage: equiv.py <treeA> <treeB>      exit 0 = all cases agree, 1 = a difference
"""
import json
import os
import subprocess
import sys
import tempfile

WORKER = r'''
import contextlib, io, json, os, subprocess, sys, tempfile

tree = os.path.abspath(sys.argv[1])
sys.path.insert(0, tree)
os.chdir(tree)
cases = json.load(sys.stdin)

from cocoasm.program import Program


def describe_exc(error):
    info = {"type": type(error).__name__, "str": str(error)}
    if hasattr(error, "value"):
        info["value"] = str(error.value)
    statement = getattr(error, "statement", None)
    if statement is not None:
        try:
            info["statement"] = str(statement)
        except Exception as inner:
            info["statement"] = "unprintable " + type(inner).__name__
    return info


def guarded(function):
    try:
        return function()
    except Exception as error:
        return {"error": describe_exc(error)}


def observe_program(lines):
    program = Program()
    try:
        program.process(lines)
    except Exception as error:
        return {"error": describe_exc(error)}
    return {
        "binary": guarded(program.get_binary_array),
        "listing": guarded(program.get_statements),
        "symbols": guarded(program.get_symbol_table),
        "origin": guarded(lambda: program.origin.hex()),
        "name": program.name,
        "detail": guarded(lambda: [
            [s.code_pkg.size, s.code_pkg.max_size, s.fixed_size, s.pcr_size_hint,
             type(s.operand).__name__, list(s.code_pkg.post_byte_choices),
             s.code_pkg.additional_needs_resolution, s.code_pkg.op_code.hex(),
             s.code_pkg.post_byte.hex(), s.code_pkg.additional.hex(), s.code_pkg.address.hex()]
            for s in program.statements]),
    }


def observe_call(code):
    namespace = {}
    try:
        exec(code, namespace)
        return {"result": namespace.get("result")}
    except Exception as error:
        return {"error": describe_exc(error)}


def observe_cli(lines, args, tool="assembler.py", extra_files=None):
    with tempfile.TemporaryDirectory() as work:
        with open(os.path.join(work, "prog.asm"), "w") as handle:
            handle.writelines(lines)
        for name, text in (extra_files or {}).items():
            with open(os.path.join(work, name), "w") as handle:
                handle.write(text)
        before = set(os.listdir(work))
        done = subprocess.run(
            [sys.executable, os.path.join(tree, tool)] + args,
            cwd=work, capture_output=True, text=True,
            env=dict(os.environ, PYTHONPATH=tree, PYTHONDONTWRITEBYTECODE="1"),
        )
        files = {}
        for name in sorted(set(os.listdir(work)) - before):
            with open(os.path.join(work, name), "rb") as handle:
                files[name] = handle.read().hex()
        stderr_tail = done.stderr.strip().splitlines()[-1:] if done.stderr.strip() else []
        return {"code": done.returncode, "stdout": done.stdout, "stderr_tail": stderr_tail, "files": files}


results = []
for case in cases:
    kind = case["kind"]
    if kind == "program":
        results.append(observe_program(case["lines"]))
    elif kind == "call":
        results.append(observe_call(case["code"]))
    elif kind == "cli":
        results.append(observe_cli(case["lines"], case["args"], case.get("tool", "assembler.py"),
                                   case.get("extra_files")))
    else:
        raise SystemExit("unknown case kind " + kind)
json.dump(results, sys.stdout)
'''


def prog(*lines):
    """A program case; every line gets its newline like a line read from a file."""
    return {"kind": "program", "lines": [line + "\n" for line in lines]}


def call(code):
    """A direct library call; the snippet leaves a JSON-friendly value in `result`."""
    return {"kind": "call", "code": code}


def cli(lines, args=("prog.asm", "--print", "--symbols", "--to_bin", "out.bin"), extra_files=None):
    return {"kind": "cli", "lines": [line + "\n" for line in lines], "args": list(args),
            "extra_files": extra_files}


def run_tree(tree, cases):
    with tempfile.TemporaryDirectory() as work:
        worker = os.path.join(work, "worker.py")
        with open(worker, "w") as handle:
            handle.write(WORKER)
        done = subprocess.run(
            [sys.executable, worker, tree], input=json.dumps(cases), capture_output=True, text=True,
            cwd=tree, env=dict(os.environ, PYTHONDONTWRITEBYTECODE="1"),
        )
    if done.returncode != 0:
        print("worker failed for", tree)
        print(done.stderr)
        sys.exit(1)
    return json.loads(done.stdout)


def main(cases):
    if len(sys.argv) != 3:
        print(__doc__)
        sys.exit(2)
    tree_a, tree_b = (os.path.abspath(p) for p in sys.argv[1:3])
    results_a = run_tree(tree_a, cases)
    results_b = run_tree(tree_b, cases)
    differences = 0
    accepted = 0
    for number, (case, a, b) in enumerate(zip(cases, results_a, results_b)):
        if "error" not in a:
            accepted += 1
        if a != b:
            differences += 1
            print("DIFFERENCE in case", number, json.dumps(case)[:300])
            print("   A:", json.dumps(a)[:600])
            print("   B:", json.dumps(b)[:600])
    print("{} cases, {} without error in tree A, {} differences".format(len(cases), accepted, differences))
    sys.exit(1 if differences or len(results_a) != len(cases) or len(results_b) != len(cases) else 0)


# ---------------------------------------------------------------------------
# cases
# ---------------------------------------------------------------------------
CASES = []

SHORT = ["BRA", "BRN", "BHI", "BLS", "BCC", "BHS", "BCS", "BLO", "BNE", "BEQ", "BVC", "BVS", "BPL", "BMI", "BGE",
         "BLT", "BGT", "BLE", "BSR"]
TARGETS = ["NEAR", "FAR", "HERE", "5", "$10", "$1234", "FIVE", "BIG", "NEAR+1", "FAR-NEAR", "FIVE+1", "<NEAR", ">NEAR",
           "#NEAR", "#5", "", "NOWHERE", "NEAR,X", "[NEAR]", "-3", "'A", "%00000001", "NEAR,PCR", "1+", "$"]

for position, target in enumerate(TARGETS):
    short = SHORT[position % len(SHORT)]
    CASES.append(prog("FIVE  EQU 5", "BIG   EQU $1234", "      ORG $4000", "NEAR  NOP ", "HERE  {} {}".format(short, target),
                      "      L{} {}".format(short, target), "      RMB 100", "FAR   RTS "))
for short in SHORT:
    CASES.append(prog("      ORG $100", "BACK  NOP ", "      {} AHEAD".format(short), "      L{} BACK".format(short),
                      "      {} BACK".format(short), "      L{} AHEAD".format(short), "AHEAD RTS "))
for gap in (119, 120, 121, 122, 123, 124, 125, 126, 127, 128, 129, 130):
    CASES.append(prog("BACK  NOP ", "      BNE AHEAD", "      RMB {}".format(gap), "      BEQ BACK", "AHEAD LBRA BACK"))

# the direct / extended decision shares Operand.resolve_symbols with the branches
ADDRESSES = ["FIVE", "BIG", "<FIVE", "<BIG", ">FIVE", ">BIG", "LATE", "<LATE", ">LATE", "HERE", "<HERE", ">HERE", "HERE+1",
             "FIVE+1", "BIG-FIVE", "5", "$05", "$0005", "300", "<300", ">5", "NOWHERE", "<NOWHERE", "#FIVE", "#HERE", "#LATE"]
for position, address in enumerate(ADDRESSES):
    mnemonic = ("LDA", "STX", "JMP", "NEG", "CMPU", "JSR")[position % 6]
    if address.startswith("#"):
        mnemonic = "LDX"
    CASES.append(prog("FIVE  EQU 5", "BIG   EQU $1234", "      ORG $20", "HERE  {} {}".format(mnemonic, address), "      RTS ",
                      "LATE  EQU $30"))

CASES.append(cli(["      NAM BRANCH", "      ORG $2000", "LOOP  DECA ", "      BNE LOOP", "      LBEQ OUT", "      BSR LOOP",
                  "      LBSR OUT", "      STA <$20", "      STA COUNT", "OUT   RTS ", "COUNT EQU $21", "      END LOOP"]))
CASES.append(cli(["      BRA NOWHERE"]))

CASES.append(call('''
from cocoasm.operands import RelativeOperand, UnknownOperand, ImmediateOperand, Operand
from cocoasm.instruction import INSTRUCTIONS
from cocoasm.values import AddressValue, NumericValue, SymbolValue, NoneValue
result = []
def show(operand):
    package = operand.translate()
    value = operand.value
    return [type(operand).__name__, operand.type.name, operand.operand_string, type(value).__name__, value.int, value.hex(),
            value.explict_addressing_mode.name, package.op_code.hex(), package.post_byte.hex(), type(package.additional).__name__,
            package.additional.int, package.additional.hex(), package.size, package.max_size, package.additional_needs_resolution]
table = {"HERE": AddressValue(3), "FIVE": NumericValue(5), "BIG": NumericValue("$1234")}
for mnemonic in ("BRA", "LBRA", "BSR", "LBEQ", "LDA", "NOP", "FCB"):
    instruction = next(i for i in INSTRUCTIONS if i.mnemonic == mnemonic)
    for text in ("HERE", "FIVE", "BIG", "7", "$1234", "HERE+1", "", "NOWHERE", "<HERE", "<FIVE", ">FIVE"):
        for ready in (None, AddressValue(9), NumericValue(4), SymbolValue("HERE"), NoneValue()):
            for kind in (RelativeOperand, UnknownOperand):
                try:
                    operand = kind(text, instruction, ready) if ready is not None else kind(text, instruction)
                    before = show(operand)
                    resolved = operand.resolve_symbols(table)
                    result.append([before, show(resolved), resolved is operand])
                except Exception as error:
                    result.append([type(error).__name__, str(error)])
'''))

main(CASES)
