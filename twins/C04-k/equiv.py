#!/usr/bin/env python
"""
Differential demonstration: runs the same inputs through the code of two source
trees (one subprocess per tree, the tree first on sys.path and as cwd) and
compares every observable result.

usage: equiv.py <treeA> <treeB>      exit 0 = all cases agree, 1 = a difference
"""
import json
import os
import subprocess
import sys
import tempfile

WORKER = r'''
import contextlib, io, json, os, subprocess, sys, tempfile

tree = os.path.abspath(sys.argv[1])
sys.path.insert(0, tree)
os.chdir(tree)
cases = json.load(sys.stdin)

from cocoasm.program import Program


def describe_exc(error):
    info = {"type": type(error).__name__, "str": str(error)}
    if hasattr(error, "value"):
        info["value"] = str(error.value)
    statement = getattr(error, "statement", None)
    if statement is not None:
        try:
            info["statement"] = str(statement)
        except Exception as inner:
            info["statement"] = "unprintable " + type(inner).__name__
    return info


def guarded(function):
    try:
        return function()
    except Exception as error:
        return {"error": describe_exc(error)}


def observe_program(lines):
    program = Program()
    try:
        program.process(lines)
    except Exception as error:
        return {"error": describe_exc(error)}
    return {
        "binary": guarded(program.get_binary_array),
        "listing": guarded(program.get_statements),
        "symbols": guarded(program.get_symbol_table),
        "origin": guarded(lambda: program.origin.hex()),
        "name": program.name,
        "detail": guarded(lambda: [
            [s.code_pkg.size, s.code_pkg.max_size, s.fixed_size, s.pcr_size_hint,
             type(s.operand).__name__, list(s.code_pkg.post_byte_choices),
             s.code_pkg.additional_needs_resolution, s.code_pkg.op_code.hex(),
             s.code_pkg.post_byte.hex(), s.code_pkg.additional.hex(), s.code_pkg.address.hex()]
            for s in program.statements]),
    }


def observe_call(code):
    namespace = {}
    try:
        exec(code, namespace)
        return {"result": namespace.get("result")}
    except Exception as error:
        return {"error": describe_exc(error)}


def observe_cli(lines, args, tool="assembler.py", extra_files=None):
    with tempfile.TemporaryDirectory() as work:
        with open(os.path.join(work, "prog.asm"), "w") as handle:
            handle.writelines(lines)
        for name, text in (extra_files or {}).items():
            with open(os.path.join(work, name), "w") as handle:
                handle.write(text)
        before = set(os.listdir(work))
        done = subprocess.run(
            [sys.executable, os.path.join(tree, tool)] + args,
            cwd=work, capture_output=True, text=True,
            env=dict(os.environ, PYTHONPATH=tree, PYTHONDONTWRITEBYTECODE="1"),
        )
        files = {}
        for name in sorted(set(os.listdir(work)) - before):
            with open(os.path.join(work, name), "rb") as handle:
                files[name] = handle.read().hex()
        stderr_tail = done.stderr.strip().splitlines()[-1:] if done.stderr.strip() else []
        return {"code": done.returncode, "stdout": done.stdout, "stderr_tail": stderr_tail, "files": files}


results = []
for case in cases:
    kind = case["kind"]
    if kind == "program":
        results.append(observe_program(case["lines"]))
    elif kind == "call":
        results.append(observe_call(case["code"]))
    elif kind == "cli":
        results.append(observe_cli(case["lines"], case["args"], case.get("tool", "assembler.py"),
                                   case.get("extra_files")))
    else:
        raise SystemExit("unknown case kind " + kind)
json.dump(results, sys.stdout)
'''


def prog(*lines):
    """A program case; every line gets its newline like a line read from a file."""
    return {"kind": "program", "lines": [line + "\n" for line in lines]}


def call(code):
    """A direct library call; the snippet leaves a JSON-friendly value in `result`."""
    return {"kind": "call", "code": code}


def cli(lines, args=("prog.asm", "--print", "--symbols", "--to_bin", "out.bin"), extra_files=None):
    return {"kind": "cli", "lines": [line + "\n" for line in lines], "args": list(args),
            "extra_files": extra_files}


def run_tree(tree, cases):
    with tempfile.TemporaryDirectory() as work:
        worker = os.path.join(work, "worker.py")
        with open(worker, "w") as handle:
            handle.write(WORKER)
        done = subprocess.run(
            [sys.executable, worker, tree], input=json.dumps(cases), capture_output=True, text=True,
            cwd=tree, env=dict(os.environ, PYTHONDONTWRITEBYTECODE="1"),
        )
    if done.returncode != 0:
        print("worker failed for", tree)
        print(done.stderr)
        sys.exit(1)
    return json.loads(done.stdout)


def main(cases):
    if len(sys.argv) != 3:
        print(__doc__)
        sys.exit(2)
    tree_a, tree_b = (os.path.abspath(p) for p in sys.argv[1:3])
    results_a = run_tree(tree_a, cases)
    results_b = run_tree(tree_b, cases)
    differences = 0
    accepted = 0
    for number, (case, a, b) in enumerate(zip(cases, results_a, results_b)):
        if "error" not in a:
            accepted += 1
        if a != b:
            differences += 1
            print("DIFFERENCE in case", number, json.dumps(case)[:300])
            print("   A:", json.dumps(a)[:600])
            print("   B:", json.dumps(b)[:600])
    print("{} cases, {} without error in tree A, {} differences".format(len(cases), accepted, differences))
    sys.exit(1 if differences or len(results_a) != len(cases) or len(results_b) != len(cases) else 0)


# ---------------------------------------------------------------------------
# cases
# ---------------------------------------------------------------------------
CASES = []

# labels on every kind of statement, EQU symbols in every spelling, defined before and after their use
BODIES = [
    ["START LDA #1", "LOOP  DECA ", "      BNE LOOP", "DONE  RTS "],
    ["A1    EQU 5", "A2    EQU $FF", "A3    EQU $0005", "A4    EQU %11110000", "A5    EQU 'Z", "A6    EQU 65535", "A7    EQU 0",
     "      LDA #A1", "      LDX #A6", "      LDB A2", "      LDB A3"],
    ["      LDA #LATE", "      LDX TABLE", "      JMP FINISH", "TABLE FDB 1,2,3", "BYTES FCB 1,2,3", "TEXT  FCC 'ABC'", "SPACE RMB 10",
     "FINISH RTS ", "LATE  EQU 9"],
    ["FIRST ORG $2000", "SECOND LDA #1", "THIRD ORG $3000", "FOURTH RTS "],
    ["NAME  NAM PROG", "HERE  SETDP 0", "THERE END HERE"],
    ["SUM   EQU 2+3", "DIFF  EQU 10-3", "      LDA #SUM", "      LDB #DIFF"],
    ["REL   EQU HERE+1", "HERE  NOP ", "      LDX #REL"],
    ["HERE  NOP ", "COPY  EQU HERE", "      LDX #COPY", "      JMP COPY"],
    ["LONG  LEAX FAR,PCR", "      RMB 200", "FAR   LEAY LONG,PCR", "NEAR  LDA [FAR,PCR]"],
    ["@LOCAL NOP ", "X1Y2  NOP ", "lower NOP ", "      JMP @LOCAL", "      JMP lower"],
    ["A     NOP ", "B     NOP ", "D     NOP ", "X     NOP ", "PC    NOP ", "      LDA A", "      LDX #X", "      JMP PC"],
    [],
    ["; only a comment"],
    ["ONLY  EQU 1"],
]
for body in BODIES:
    for origin in (None, "$0", "$80", "$0E00", "$FFF0"):
        lines = (["      ORG " + origin] if origin else []) + body
        CASES.append(prog(*lines))

# rejected programs: the symbol table is never reported, the diagnostic is
CASES.append(prog("TWICE NOP ", "TWICE NOP "))
CASES.append(prog("TWICE EQU 1", "TWICE NOP "))
CASES.append(prog("      LDA NOWHERE"))
CASES.append(prog("BAD   EQU NOWHERE+1", "      LDA #BAD"))
CASES.append(prog("      ORG $FFFF", "A1    LDX #1", "A2    NOP "))

for body in BODIES[:6]:
    CASES.append(cli(["      ORG $1200"] + body, ["prog.asm", "--symbols", "--print"]))
    CASES.append(cli(body, ["prog.asm", "--symbols"]))

# the table and the listing built from a Program that was put together by hand
CASES.append(call('''
from cocoasm.program import Program
from cocoasm.values import AddressValue, NumericValue, NoneValue, SymbolValue, ExpressionValue
result = []
program = Program()
result.append([program.get_symbol_table(), program.get_statements()])
program.statements = Program.parse(["      ORG $700\\n", "ONE   NOP \\n", "TWO   LDX #1\\n", "THREE RTS \\n"])
program.translate_statements()
result.append([program.get_symbol_table(), program.get_statements(), list(program.symbol_table)])
program.symbol_table = {"LAST": AddressValue(3), "N": NumericValue(5), "WIDE": NumericValue("$12345"[:5]), "FIRST": AddressValue(0),
                        "NONE": NoneValue(), "NEG": NumericValue(-2), "SAME": AddressValue(3), "SYM": SymbolValue("Q"),
                        "EXPR": ExpressionValue("1+1"), "A_VERY_LONG_SYMBOL_NAME": AddressValue(1), "": AddressValue(2)}
if hasattr(program, "label_addresses"):
    program.symbol_table.update(program.label_addresses())
else:
    for symbol, value in program.symbol_table.items():
        if value.is_address():
            program.symbol_table[symbol] = program.statements[value.int].code_pkg.address
result.append([program.get_symbol_table(), list(program.symbol_table),
               [type(value).__name__ for value in program.symbol_table.values()]])
'''))

main(CASES)
