#!/venv/bin/python
"""
Differential check for the assembler core (properties C17 / C18 / C19 share this harness).

usage: equiv.py <treeA> <treeB>

The worker below is run once per tree in a subprocess (tree = cwd and first on sys.path).
It assembles a large number of programs through the library and through the assembler.py
command line, probes the value / operand constructors directly, and prints one JSON
document with every observable result (bytes, listing lines, symbol tables, origin, name,
diagnostics with their statement, exception types and messages, files written).
The documents of the two trees must be identical.
"""
import json
import os
import subprocess
import sys
import tempfile

WORKER = r'''
import hashlib, json, os, shutil, subprocess, sys, tempfile
TREE = os.getcwd()
sys.path.insert(0, TREE)
from cocoasm.exceptions import TranslationError, ParseError
from cocoasm.instruction import INSTRUCTIONS, CodePackage
from cocoasm.operands import Operand
from cocoasm.program import Program
from cocoasm.statement import Statement
from cocoasm.values import Value

RESULTS = {}
SCRATCH = []


def scrub(text):
    for directory in SCRATCH:
        text = text.replace(directory, "<scratch>")
    return text.replace(TREE, "<tree>")


def show_value(value):
    if value is None or isinstance(value, (str, int)):
        return value
    out = [type(value).__name__]
    for attribute in ("int", "size_hint", "negative", "resolved", "original_string"):
        out.append(getattr(value, attribute, "<none>"))
    out.append(str(getattr(value, "type", None)))
    out.append(str(getattr(value, "explict_addressing_mode", None)))
    for method in ("hex", "hex_len", "byte_len", "is_8_bit", "is_16_bit"):
        try:
            out.append(getattr(value, method)())
        except Exception as error:
            out.append([type(error).__name__, str(error)])
    for side in ("left", "right"):
        if hasattr(value, side):
            inner = getattr(value, side)
            out.append(inner if isinstance(inner, str) else show_value(inner))
    return out


def show_package(package):
    return {
        "op_code": show_value(package.op_code), "address": show_value(package.address),
        "post_byte": show_value(package.post_byte), "additional": show_value(package.additional),
        "size": package.size, "max_size": package.max_size, "needs": package.additional_needs_resolution,
        "choices": list(package.post_byte_choices),
    }


def show_statement(statement):
    if not isinstance(statement, Statement):
        return repr(statement)
    try:
        return str(statement)
    except Exception as error:
        return ["unprintable", type(error).__name__, str(error), statement.label, statement.mnemonic]


def attempt(function):
    try:
        return function()
    except Exception as error:
        return ["raised", type(error).__name__, scrub(str(error))]


def assemble(lines, newline="\n"):
    lines = [line + newline for line in lines]
    given = list(lines)
    program = Program()
    try:
        program.process(given)
    except (TranslationError, ParseError) as error:
        return ["diagnostic", type(error).__name__, scrub(str(error.value)), show_statement(error.statement),
                given == list(lines)]
    except Exception as error:
        return ["raised", type(error).__name__, scrub(str(error)), given == list(lines)]
    return [
        "ok", attempt(program.get_binary_array), attempt(program.get_statements), attempt(program.get_symbol_table),
        show_value(program.origin), program.name, list(program.symbol_table.keys()), given == list(lines),
    ]


def case(name, function):
    try:
        RESULTS[name] = ["ok", function()]
    except SystemExit as error:
        RESULTS[name] = ["exit", repr(error.code)]
    except BaseException as error:
        RESULTS[name] = ["raised", type(error).__name__, scrub(str(error))]


# ------------------------------------------------------------ every mnemonic x many operand spellings
OPERANDS = [
    "", "#$10", "#$1234", "#10", "#300", "#-5", "#'A", "#%10101010", "#LBL", "#VAL", "#FWD+1",
    "$10", "$1234", "<$10", ">$10", "<$1234", ">$1234", "<LBL", ">VAL", "10", "300", "-3", "%00001111",
    "LBL", "FWD", "VAL", "BIG", "LBL+1", "FWD-2", "VAL+1", "VAL*2", "BIG/2", "LBL*2", "2+LBL", "$10+$20",
    ",X", ",Y+", ",U++", ",-S", ",--X", "A,X", "B,Y", "D,U", "5,X", "-5,Y", "15,S", "16,S", "-16,X", "-17,X",
    "100,U", "127,U", "128,U", "-128,S", "-129,S", "1000,X", "-1000,Y", "0,X", "VAL,X", "BIG,Y", "LBL,X",
    "$10,X", "$0010,X", "LBL,PCR", "FWD,PCR", "VAL,PCR", "$10,PCR", "$1000,PCR", "LBL+1,PCR", "FWD-1,PCR",
    "[,X]", "[,Y+]", "[,U++]", "[,-S]", "[,--S]", "[A,X]", "[B,U]", "[D,Y]", "[5,X]", "[-5,X]", "[0,Y]",
    "[300,U]", "[-300,U]", "[LBL]", "[$1234]", "[$10]", "[LBL,PCR]", "[FWD,PCR]", "[$10,PCR]", "[VAL,X]",
    "[LBL,X]", "[LBL+1]", "[]", "[,]",
    "A,B", "X,Y", "A,X,Y", "CC,DP", "PC,X", "D,X", "U,S", "S,U", "A", "X", "D", "A,B,X,Y,U,PC,CC,DP,D",
    "A,B,X,Y,S,PC,CC,DP,D", "S", "U", "Q", "A,Q", "a,b", "A,CC", "X,X", "DP,DP", "PC,PC", "D,D",
    "1,2", "'AB'", "/hello/", "\"str\"", "1,2,3", "$FF,$100", "1,", ",", "%101", "70000", "$12345", "-40000",
    "&&", "X+,Y", "5,X+", "LBL,X+", "NOSUCH", "NOSUCH,X", "[NOSUCH]", "NOSUCH+1", "LBL+NOSUCH", "X", "PCR",
    "LBL,", "@loc", "incl.asm",
]


def probe_program(mnemonic, operand):
    return [
        "      ORG $0E00",
        "VAL   EQU $20",
        "BIG   EQU $1234",
        "LBL   NOP",
        "HERE  {} {} ; note".format(mnemonic, operand),
        "FWD   NOP",
        "      END LBL",
    ]


for instruction in INSTRUCTIONS:
    def probe(instruction=instruction):
        return [[operand, assemble(probe_program(instruction.mnemonic, operand))] for operand in OPERANDS]
    case("mnemonic-" + instruction.mnemonic, probe)


# ------------------------------------------------------------ constructors probed directly
def probe_values():
    out = []
    by_name = {instruction.mnemonic: instruction for instruction in INSTRUCTIONS}
    texts = OPERANDS + ["'A", "'", "''", "%1010101010101010", "%10101010", "$0", "$00", "$000", "$0000", "$FF",
                        "$100", "0", "255", "256", "65535", "65536", "-1", "-128", "-129", "-32768", "-32769",
                        "#", "<", ">", "<>", "#<$10", "A+B", "1+1", "$10-$20", "4/0", "LBL/0", "1+", "+1", "a@b"]
    for text in texts:
        for instruction in (None, by_name["LDX"], by_name["LDA"], by_name["FCC"], by_name["FCB"]):
            for default_extended in (True, False):
                try:
                    out.append([text, show_value(Value.create_from_str(text, instruction, default_extended))])
                except Exception as error:
                    out.append([text, type(error).__name__, str(error)])
    return out


def probe_operands():
    out = []
    by_name = {instruction.mnemonic: instruction for instruction in INSTRUCTIONS}
    for mnemonic in ("LDA", "LDX", "STA", "JMP", "LEAX", "BRA", "LBRA", "NOP", "PSHS", "PULU", "TFR", "EXG",
                     "FCB", "FDB", "FCC", "RMB", "ORG", "EQU", "END", "INCLUDE", "NAM", "SETDP", "CLR", "CMPD"):
        for text in OPERANDS:
            try:
                operand = Operand.create_from_str(text, by_name[mnemonic])
            except Exception as error:
                out.append([mnemonic, text, type(error).__name__, str(error)])
                continue
            shown = [mnemonic, text, type(operand).__name__, str(operand.type), operand.operand_string,
                     show_value(operand.value), show_value(operand.left), show_value(operand.right)]
            try:
                shown.append(show_package(operand.translate()))
            except Exception as error:
                shown.append([type(error).__name__, str(error)])
            out.append(shown)
    return out


def probe_packages():
    first, second = CodePackage(), CodePackage()
    first.post_byte_choices.append(1)
    choices = [7]
    third = CodePackage(post_byte_choices=choices)
    empty = []
    fourth = CodePackage(post_byte_choices=empty)
    return [show_package(first), show_package(second), third.post_byte_choices is choices,
            fourth.post_byte_choices is empty, first.op_code is second.op_code,
            show_package(CodePackage(size=3, max_size=4, additional_needs_resolution=True))]


def probe_statements():
    out = []
    lines = ["", "   ", "; only a comment", "   ; indented comment", "LABEL NOP", " NOP", "NOP", "L1 LDA #1 ; c",
             "  lda  #$20  trailing words", "X  FCC /a b c/ rest", " FCC 'unterminated", " FCC", " FCC //",
             " FCC /x/;c", "L@1 STA ,X++ ;;; c", " BOGUS 12", "  LDA", "\tLDA\t#1\t; tabs", " LDA #1;c", "A B C D",
             "TOO-LONG? NOP", " INCLUDE other.asm", " NAM prog", "VAL EQU $10", " END"]
    for line in lines:
        try:
            statement = Statement(line)
        except (ParseError, TranslationError) as error:
            out.append([line, type(error).__name__, error.value, show_statement(error.statement)])
            continue
        except Exception as error:
            out.append([line, type(error).__name__, str(error)])
            continue
        out.append([line, statement.is_empty, statement.is_comment_only, statement.label, statement.mnemonic,
                    statement.comment, statement.instruction.mnemonic if statement.instruction else None,
                    type(statement.operand).__name__, type(statement.original_operand).__name__,
                    statement.operand.operand_string if statement.operand else None,
                    attempt(statement.get_include_filename) if statement.instruction else None,
                    statement.fixed_size, statement.pcr_size_hint,
                    statement == Statement(line), attempt(lambda: str(statement))])
    return out


def probe_statement_equality():
    lines = ["", "; c", "; d", "L NOP ", "L NOP ; c", "M NOP ", "L RTS ", " LDA #1", " LDA #2", " lda #1", " LDA #1 ; x",
             " LEAX L,PCR", " LEAX M,PCR", " INCLUDE a.asm", " INCLUDE b.asm", "V EQU 1", "V EQU 2", " BRA L", " LBRA L"]
    statements = [Statement(line) for line in lines]
    table = [[attempt(lambda: first == second) for second in statements] for first in statements]
    others = []
    for other in (None, 5, "text", object(), CodePackage()):
        for statement in statements[:4]:
            others.append(attempt(lambda: statement == other))
            others.append(attempt(lambda: statement != other))

    class Partial(object):
        is_empty = True
        is_comment_only = False

    others.append(attempt(lambda: statements[0] == Partial()))
    others.append(attempt(lambda: statements[3] == Partial()))
    translated = []
    for line in (" LEAX L,PCR", " LDA #1", " LDA 5,X", " NOP ", " STA #1", " FCB 1,2,3", " ORG $100"):
        statement = Statement(line)
        before = statement.fixed_size
        try:
            statement.operand = statement.operand.resolve_symbols({"L": __import__("cocoasm.values").values.AddressValue(0)})
            statement.translate()
        except Exception as error:
            translated.append([line, type(error).__name__, str(getattr(error, "value", error))])
            continue
        first = statement.set_address(0x1234)
        second = statement.set_address(0x4321)
        translated.append([line, before, statement.fixed_size, show_package(statement.code_pkg), first, second,
                           statement == Statement(line)])
    return [table, others, translated, type(Statement.__hash__).__name__]


case("probe-statement-equality", probe_statement_equality)
case("probe-values", probe_values)
case("probe-operands", probe_operands)
case("probe-packages", probe_packages)
case("probe-statements", probe_statements)

# ------------------------------------------------------------ whole programs
PROGRAMS = {
    "hello": [
        "        NAM HELLO", "        ORG $0E00", "SCREEN  EQU $0400", "START   LDX #SCREEN", "        LEAY MSG,PCR",
        "LOOP    LDA ,Y+", "        BEQ DONE", "        STA ,X+", "        BRA LOOP", "DONE    RTS",
        "MSG     FCC /HELLO WORLD/", "        FCB 0", "        END START",
    ],
    "branches": [
        "        ORG $2000", "TOP     LDA #0", "BACK    INCA", "        CMPA #10", "        BNE BACK", "        LBNE BACK",
        "        BSR SUB", "        LBSR SUB", "        LBRA FAR", "        BRA NEAR", "NEAR    NOP", "SUB     RTS",
        "        RMB 200", "FAR     JMP TOP", "        JSR SUB", "        END TOP",
    ],
    "short-branch-limits": ["        ORG $1000", "S       BRA T", "        RMB 127", "T       NOP", "U       RMB 125",
                            "        BRA U", "        END S"],
    "short-branch-too-far": ["        ORG $1000", "S       BRA T", "        RMB 128", "T       NOP"],
    "short-branch-back-too-far": ["        ORG $1000", "U       RMB 128", "        BRA U"],
    "pcr-sizes": [
        "        ORG $3000", "A1      LEAX Z1,PCR", "        LEAX A1,PCR", "        LDA  Z1,PCR", "        RMB 120",
        "Z1      FCB 1", "        LEAY Z2,PCR", "        RMB 130", "Z2      FDB $1234", "        LDD [Z2,PCR]",
        "        LDD [A1,PCR]", "        STD Z1+1,PCR", "        LDU Z2-1,PCR", "        END A1",
    ],
    "pcr-chain": [
        "        ORG $0600", "P0      LEAX P3,PCR", "P1      LEAY P4,PCR", "        RMB 118", "P2      LEAU P0,PCR",
        "P3      LEAS P1,PCR", "        RMB 3", "P4      NOP",
    ],
    "data": [
        "        ORG $4000", "B1      FCB 1", "B2      FCB 1,2,3,$FF,'A", "W1      FDB $1234", "W2      FDB 1,2,$FFFF,LBLX",
        "S1      FCC /abc/", "S2      FCC \"quoted string\" with a comment", "R1      RMB 3", "LBLX    FDB B1", "        FDB S2",
        "        FCB B1", "        FDB W1+2", "        END",
    ],
    "data-plain": [
        "        ORG $4000", "B1      FCB 1", "B2      FCB 1,2,3,$FF,'A", "W1      FDB $1234", "W2      FDB 1,2,$FFFF",
        "S1      FCC /abc/", "S2      FCC \"quoted string\" with a comment", "R1      RMB 3", "LBLX    FDB B1", "        FDB S2",
        "        FCB 7", "        FDB W1+2", "        END",
    ],
    "indexed-plain": [
        "        ORG $5000", "T       LDA ,X", "        LDA ,Y+", "        LDA ,U++", "        LDA ,-S", "        LDA ,--X",
        "        LDA A,X", "        LDA B,Y", "        LDA D,U", "        LDA 5,X", "        LDA -5,Y", "        LDA 100,U",
        "        LDA -100,S", "        LDA 1000,X", "        LDA -1000,Y", "        LDA [,X]", "        LDA [,Y++]",
        "        LDA [,--U]", "        LDA [A,X]", "        LDA [D,Y]", "        LDA [5,X]", "        LDA [300,U]", "        LDA [T]",
        "        LDA [$1234]", "        LEAX 1,X", "        LEAS -2,S", "        LEAU 16,U", "        LEAY -17,Y", "        LDD [-4,S]",
    ],
    "equates": [
        "ZERO    EQU 0", "SMALL   EQU $10", "WIDE    EQU $0010", "LARGE   EQU $1234", "DEC     EQU 200", "BINARY  EQU %10101010",
        "CHAR    EQU 'Z", "        ORG $0100", "        LDA SMALL", "        LDA WIDE", "        LDA LARGE", "        LDA #SMALL",
        "        LDX #LARGE", "        LDA <LARGE", "        LDA >SMALL", "        LDB DEC", "        LDB #BINARY", "        CMPA #CHAR",
        "        LDA ZERO,X", "        LDA SMALL,X", "        LDA LARGE,X", "        LDA SMALL+1", "        LDX #LARGE+SMALL",
        "        LDA LARGE-SMALL", "        LDA SMALL*2", "        LDA LARGE/2",
    ],
    "indexed": [
        "        ORG $5000", "T       LDA ,X", "        LDA ,Y+", "        LDA ,U++", "        LDA ,-S", "        LDA ,--X",
        "        LDA A,X", "        LDA B,Y", "        LDA D,U", "        LDA 5,X", "        LDA -5,Y", "        LDA 100,U",
        "        LDA -100,S", "        LDA 1000,X", "        LDA -1000,Y", "        LDA [,X]", "        LDA [,Y++]",
        "        LDA [,--U]", "        LDA [A,X]", "        LDA [D,Y]", "        LDA [5,X]", "        LDA [300,U]", "        LDA [T]",
        "        LDA [$1234]", "        LEAX T,X", "        LEAX 1,X", "        LEAS -2,S", "        STX T,Y", "        LDD [T,X]",
    ],
    "stack-and-transfer": [
        "        ORG $6000", "        PSHS A,B,X", "        PSHS D,U,PC,CC,DP,Y", "        PSHU S,X", "        PULS A,B,X,PC",
        "        PULU D,S", "        TFR A,B", "        TFR X,Y", "        TFR D,U", "        EXG S,PC", "        EXG CC,DP",
        "        TFR D,D", "        EXG A,A",
    ],
    "tfr-mixed-size": ["        TFR A,X"],
    "pshs-own-stack": ["        PSHS S"],
    "pshs-empty": ["        PSHS"],
    "exg-three": ["        EXG A,B,X"],
    "exg-unknown": ["        EXG A,Q"],
    "exg-unknown-first": ["        EXG Q,A"],
    "direct-page": ["        ORG $0010", "DP1     RMB 1", "DP2     RMB 2", "        ORG $0080", "GO      LDA DP1", "        STA DP2",
                    "        LDX DP2", "        JMP GO", "        LDA >DP1", "        LDA <GO", "        SETDP 0", "        END GO"],
    "origin-twice": ["        ORG $1000", "F1      NOP", "        ORG $2000", "F2      NOP", "        JMP F1", "        JMP F2"],
    "no-origin": ["F1      NOP", "        JMP F1", "        BRA F1"],
    "name-only": ["        NAM ONLYNAME"],
    "comments-and-blanks": ["; header", "", "   ; indented", "        ORG $0700 ; origin", "X1      CLRA ; clear", "",
                            "        END X1   the end"],
    "lower-case": ["        org $0800", "lbl     lda #1", "        bra lbl", "        end lbl"],
    "forward-expressions": ["        ORG $0900", "        LDX #TAB+2", "        LDA TAB-1", "        JMP TAB+4", "        FDB TAB+1",
                            "TAB     FCB 1,2,3,4", "        END"],
    "immediate-16": ["        LDX #1", "        LDD #$12", "        LDY #VAL", "        CMPX #255", "        LDS #-1", "VAL     EQU 5"],
    "err-duplicate-label": ["L1      NOP", "L2      NOP", "L1      RTS"],
    "err-unknown-mnemonic": ["        NOP", "        FROB 12", "        RTS"],
    "err-unknown-symbol": ["        LDA MISSING"],
    "err-unknown-symbol-branch": ["        BRA MISSING"],
    "err-unknown-symbol-indexed": ["        LDA MISSING,X"],
    "err-unparsable": ["NOSPACES"],
    "err-immediate-store": ["        STA #1"],
    "err-inherent-operand": ["        NOP 5"],
    "err-needs-operand": ["        LDA"],
    "err-bad-fcc": ["        FCC"],
    "err-big-number": ["        LDX #70000"],
    "err-bad-index": ["        LDA 5,X+"],
    "err-extended-indirect-single": ["        LDA [,X+]"],
    "err-equ-symbol": ["A1      EQU B1", "B1      EQU 5", "        LDA A1"],
    "err-include-missing": ["        INCLUDE /nonexistent/dir/file.asm"],
    "err-lea-immediate": ["        LEAX #1"],
    "err-division": ["V       EQU 0", "        LDA 4/V"],
    "empty": [],
    "only-blank": ["", "   ", "; nothing"],
}
for label, lines in PROGRAMS.items():
    case("program-" + label, lambda lines=lines: assemble(lines))
    case("program-without-newlines-" + label, lambda lines=lines: assemble(lines, newline=""))
    case("program-crlf-" + label, lambda lines=lines: assemble(lines, newline="\r\n"))


def histories():
    """Every program again, one after the other in this warm process, then in reverse order, then twice in a row."""
    out = []
    labels = list(PROGRAMS)
    for label in labels + labels[::-1]:
        out.append([label, assemble(PROGRAMS[label]) == RESULTS["program-" + label][1]])
    for label in labels:
        first, second = assemble(PROGRAMS[label]), assemble(PROGRAMS[label])
        out.append([label, first == second])
    return out


case("histories", histories)


def reused_program_object():
    program = Program()
    out = []
    for label in ("hello", "err-unknown-symbol", "data", "hello"):
        try:
            program.process(list(PROGRAMS[label]))
            out.append([label, program.get_binary_array(), program.get_symbol_table(), program.name,
                        show_value(program.origin)])
        except Exception as error:
            out.append([label, type(error).__name__, str(error)])
    return out


case("reused-program-object", reused_program_object)


def prebuilt_statements():
    out = []
    for label in ("hello", "branches", "pcr-sizes", "equates", "err-duplicate-label", "err-unknown-symbol"):
        program = Program()
        try:
            program.statements = [Statement(line) for line in PROGRAMS[label]]
            program.translate_statements()
            out.append([label, program.get_binary_array(), program.get_statements(), program.get_symbol_table()])
        except (TranslationError, ParseError) as error:
            out.append([label, type(error).__name__, error.value, show_statement(error.statement)])
    return out


case("prebuilt-statements", prebuilt_statements)


# ------------------------------------------------------------ INCLUDE through the library (cwd = scratch dir)
INCLUDE_DIR = tempfile.mkdtemp(prefix="asm-inc-")
SCRATCH.append(INCLUDE_DIR)
INCLUDE_FILES = {
    "defs.asm": ["SCREEN  EQU $0400", "COUNT   EQU 10", "; a comment in the include", ""],
    "sub.asm": ["SUB     LDA #COUNT", "        STA SCREEN", "        BRA SUBEND", "        INCLUDE inner.asm", "SUBEND  RTS"],
    "inner.asm": ["INNER   LEAX MAIN,PCR", "        LBRA MAIN", "        FCC /inner/"],
    "selfish.asm": ["        NOP", "        INCLUDE selfish.asm"],
    "ping.asm": ["        INCLUDE pong.asm"],
    "pong.asm": ["        INCLUDE ping.asm"],
    "bad.asm": ["        NOP", "        FROB"],
    "dup.asm": ["MAIN    NOP"],
    "empty.asm": [],
    "main.asm": ["        NAM INCL", "        ORG $0E00", "        INCLUDE defs.asm", "MAIN    JSR SUB", "        LEAY INNER,PCR",
                 "        BRA MAIN", "        INCLUDE sub.asm", "        END MAIN"],
}
for name, lines in INCLUDE_FILES.items():
    with open(os.path.join(INCLUDE_DIR, name), "w") as handle:
        handle.write("\n".join(lines) + ("\n" if lines else ""))
os.mkdir(os.path.join(INCLUDE_DIR, "subdir"))
with open(os.path.join(INCLUDE_DIR, "subdir", "deep.asm"), "w") as handle:
    handle.write("DEEP    FCB 1,2,3\n")

INCLUDE_PROGRAMS = {
    "main": INCLUDE_FILES["main.asm"],
    "spliced": ["        NAM INCL", "        ORG $0E00", "SCREEN  EQU $0400", "COUNT   EQU 10", "MAIN    JSR SUB",
                "        LEAY INNER,PCR", "        BRA MAIN", "SUB     LDA #COUNT", "        STA SCREEN", "        BRA SUBEND",
                "INNER   LEAX MAIN,PCR", "        LBRA MAIN", "        FCC /inner/", "SUBEND  RTS", "        END MAIN"],
    "first-line": ["        INCLUDE defs.asm", "        LDA #COUNT"],
    "last-line": ["        LDA #COUNT", "        INCLUDE defs.asm"],
    "twice": ["        INCLUDE defs.asm", "        INCLUDE defs.asm"],
    "empty-file": ["        NOP", "        INCLUDE empty.asm", "        RTS"],
    "subdir": ["        ORG $100", "        INCLUDE subdir/deep.asm", "        LDX #DEEP"],
    "missing": ["        NOP", "        INCLUDE missing.asm"],
    "directory": ["        INCLUDE subdir"],
    "self": ["        INCLUDE selfish.asm"],
    "cycle": ["        INCLUDE ping.asm"],
    "bad-inside": ["        INCLUDE bad.asm"],
    "duplicate-across": ["MAIN    RTS", "        INCLUDE dup.asm"],
    "no-operand": ["        INCLUDE"],
    "labelled": ["HERE    INCLUDE defs.asm", "        LDA #COUNT", "        JMP HERE"],
    "with-comment": ["        INCLUDE defs.asm ; the definitions", "        LDA #COUNT"],
}


def include_programs():
    previous = os.getcwd()
    os.chdir(INCLUDE_DIR)
    try:
        return {label: assemble(lines) for label, lines in INCLUDE_PROGRAMS.items()}
    finally:
        os.chdir(previous)


case("include-programs", include_programs)


def write_lines(name, lines):
    with open(os.path.join(INCLUDE_DIR, name), "w") as handle:
        handle.write("".join(line + "\n" for line in lines))


def split_program(label, depth):
    """
    Cuts the program at statement boundaries into a main file and 'depth' nested include files
    (main includes s1.asm, s1.asm includes s2.asm, ...), for many choices of the cut points, and
    assembles the main file through the library with the scratch directory as working directory.
    """
    def run():
        lines = PROGRAMS[label]
        count = len(lines)
        previous = os.getcwd()
        os.chdir(INCLUDE_DIR)
        out = []
        try:
            step = 1 if depth == 1 else 2
            for start in range(0, count + 1, step):
                for stop in range(start, count + 1, step):
                    pieces = [(start, stop)]
                    for level in range(1, depth):
                        inner_start, inner_stop = pieces[-1]
                        third = (inner_stop - inner_start) // 3
                        pieces.append((inner_start + third, inner_stop - third))
                    names = ["s%d.asm" % level for level in range(1, depth + 1)]
                    for level in range(depth - 1, -1, -1):
                        piece_start, piece_stop = pieces[level]
                        if level == depth - 1:
                            body = lines[piece_start:piece_stop]
                        else:
                            inner_start, inner_stop = pieces[level + 1]
                            body = lines[piece_start:inner_start] + ["        INCLUDE " + names[level + 1]] \
                                + lines[inner_stop:piece_stop]
                        write_lines(names[level], body)
                    main = lines[:start] + ["        INCLUDE s1.asm"] + lines[stop:]
                    out.append([start, stop, assemble(main)])
            return out
        finally:
            os.chdir(previous)
    return run


for label in ("hello", "branches", "pcr-sizes", "pcr-chain", "equates", "forward-expressions", "data-plain",
              "short-branch-limits", "err-duplicate-label", "err-unknown-symbol", "origin-twice"):
    for depth in (1, 2, 3):
        case("split-%s-depth-%d" % (label, depth), split_program(label, depth))


def side_by_side():
    """Two and three sibling include files, labels crossing in both directions."""
    previous = os.getcwd()
    os.chdir(INCLUDE_DIR)
    out = []
    try:
        for label in ("hello", "branches", "pcr-sizes", "equates"):
            lines = PROGRAMS[label]
            count = len(lines)
            for first in range(1, count - 2, 2):
                for second in range(first + 1, count - 1, 3):
                    write_lines("s1.asm", lines[:first])
                    write_lines("s2.asm", lines[first:second])
                    write_lines("s3.asm", lines[second:])
                    out.append([label, first, second, assemble(
                        ["        INCLUDE s1.asm", "        INCLUDE s2.asm", " INCLUDE s3.asm ; last part"])])
        return out
    finally:
        os.chdir(previous)


case("split-side-by-side", side_by_side)


# ------------------------------------------------------------ assembler.py command line
for label, lines in PROGRAMS.items():
    with open(os.path.join(INCLUDE_DIR, "p-" + label + ".asm"), "w") as handle:
        handle.write("\n".join(lines) + "\n")
with open(os.path.join(INCLUDE_DIR, "no-newline.asm"), "w") as handle:
    handle.write("        ORG $0E00\nGO      LDA #1\n        END GO")
with open(os.path.join(INCLUDE_DIR, "crlf.asm"), "wb") as handle:
    handle.write(b"        ORG $0E00\r\nGO      LDA #1\r\n        END GO\r\n")


def snapshot():
    out = {}
    for root, _, names in os.walk(INCLUDE_DIR):
        for name in names:
            full = os.path.join(root, name)
            with open(full, "rb") as handle:
                out[os.path.relpath(full, INCLUDE_DIR)] = hashlib.sha256(handle.read()).hexdigest()
    return out


def run_cli(*arguments):
    before = snapshot()
    done = subprocess.run(
        [sys.executable, os.path.join(TREE, "assembler.py")] + list(arguments),
        cwd=INCLUDE_DIR, stdout=subprocess.PIPE, stderr=subprocess.PIPE, universal_newlines=True,
        env=dict(os.environ, PYTHONDONTWRITEBYTECODE="1"),
    )
    after = snapshot()
    changed = {name: value for name, value in after.items() if before.get(name) != value}
    stderr = [line for line in scrub(done.stderr).splitlines() if not line.startswith("    ")]
    stderr = [line.split(", line ")[0] if line.startswith("  File ") else line for line in stderr]
    return [done.returncode, scrub(done.stdout), stderr, changed]


CLI_RUNS = [
    ("main.asm", "--print", "--symbols"), ("main.asm", "--to_bin", "main.bin"), ("main.asm", "--to_cas", "main.cas"),
    ("main.asm", "--to_dsk", "main.dsk"), ("main.asm", "--to_bin", "main.bin"), ("main.asm", "--to_bin", "main.bin", "--append"),
    ("main.asm", "--to_cas", "main.cas", "--append", "--print"), ("main.asm", "--to_dsk", "main.dsk", "--append", "--symbols"),
    ("selfish.asm", "--print"), ("ping.asm",), ("bad.asm", "--print", "--symbols"), ("missing-file.asm",),
    ("no-newline.asm", "--print", "--symbols"), ("crlf.asm", "--print", "--symbols"),
    ("p-hello.asm", "--print", "--symbols", "--to_cas", "hello.cas", "--to_dsk", "hello.dsk", "--to_bin", "hello.bin"),
    ("p-no-origin.asm", "--to_cas", "noname.cas"), ("p-no-origin.asm", "--to_dsk", "named.dsk", "--name", "given"),
    ("p-no-origin.asm", "--to_cas", "named.cas", "--name", "given", "--print", "--width", "60"),
    (), ("--print",),
] + [("p-" + label + ".asm", "--print", "--symbols") for label in PROGRAMS]
def cli_split(label, start, stop):
    def run():
        lines = PROGRAMS[label]
        middle = (start + stop) // 2
        write_lines("c1.asm", lines[start:middle] + ["        INCLUDE c2.asm"])
        write_lines("c2.asm", lines[middle:stop])
        write_lines("cmain.asm", lines[:start] + ["        INCLUDE c1.asm"] + lines[stop:])
        write_lines("cflat.asm", lines)
        tag = "%s-%d-%d" % (label, start, stop)
        return [run_cli("cmain.asm", "--print", "--symbols", "--to_bin", "cmain-%s.bin" % tag),
                run_cli("cflat.asm", "--print", "--symbols", "--to_bin", "cflat-%s.bin" % tag),
                run_cli("cmain.asm", "--to_cas", "cmain-%s.cas" % tag, "--name", "split"),
                run_cli("cmain.asm", "--to_dsk", "cmain-%s.dsk" % tag, "--name", "split"),
                run_cli("cmain.asm", "--to_dsk", "cmain-%s.dsk" % tag, "--name", "again", "--append"),
                run_cli("cmain.asm", "--to_cas", "cmain-%s.cas" % tag, "--name", "again")]
    return run


for label, start, stop in (("hello", 2, 9), ("hello", 0, 13), ("hello", 5, 5), ("branches", 3, 12), ("pcr-sizes", 1, 8),
                           ("pcr-chain", 2, 6), ("equates", 4, 20), ("err-duplicate-label", 1, 3),
                           ("err-unknown-symbol", 0, 1), ("short-branch-too-far", 1, 3)):
    case("cli-split-%s-%d-%d" % (label, start, stop), cli_split(label, start, stop))

for number, arguments in enumerate(CLI_RUNS):
    case("cli-%02d-%s" % (number, " ".join(arguments)), lambda arguments=arguments: run_cli(*arguments))

shutil.rmtree(INCLUDE_DIR, ignore_errors=True)
json.dump(RESULTS, sys.stdout, sort_keys=True)
'''


def run_tree(tree, worker_path):
    tree = os.path.abspath(tree)
    env = dict(os.environ, PYTHONDONTWRITEBYTECODE="1", PYTHONHASHSEED="0")
    env.pop("PYTHONPATH", None)
    done = subprocess.run(
        [sys.executable, worker_path], cwd=tree, env=env,
        stdout=subprocess.PIPE, stderr=subprocess.PIPE, universal_newlines=True,
    )
    if done.returncode != 0:
        print("worker failed in {}:\n{}".format(tree, done.stderr))
        sys.exit(1)
    return json.loads(done.stdout)


def first_difference(first, second, path=""):
    if type(first) != type(second):
        return path, first, second
    if isinstance(first, dict):
        for key in sorted(set(first) | set(second)):
            if first.get(key) != second.get(key):
                return first_difference(first.get(key), second.get(key), "{}/{}".format(path, key))
    if isinstance(first, list):
        if len(first) != len(second):
            return path + "/len", len(first), len(second)
        for index, (left, right) in enumerate(zip(first, second)):
            if left != right:
                return first_difference(left, right, "{}[{}]".format(path, index))
    return path, first, second


def main():
    if len(sys.argv) != 3:
        print(__doc__)
        sys.exit(2)
    with tempfile.TemporaryDirectory() as scratch:
        worker_path = os.path.join(scratch, "worker.py")
        with open(worker_path, "w") as handle:
            handle.write(WORKER)
        first = run_tree(sys.argv[1], worker_path)
        second = run_tree(sys.argv[2], worker_path)

    different = [name for name in sorted(set(first) | set(second)) if first.get(name) != second.get(name)]
    assemblies = sum(len(value[1]) for name, value in first.items() if name.startswith("mnemonic-") and value[0] == "ok")
    print("{} cases ({} single-statement assemblies inside the mnemonic cases), {} differ".format(
        len(first), assemblies, len(different)))
    for name in different:
        where, left, right = first_difference(first.get(name), second.get(name))
        print("DIFFERENT: {} at {}\n  A: {}\n  B: {}".format(name, where, json.dumps(left)[:500], json.dumps(right)[:500]))
    sys.exit(1 if different else 0)


if __name__ == "__main__":
    main()
