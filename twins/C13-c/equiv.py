#!/usr/bin/env python
"""
Differential demonstration: runs the same set of cases against two source
trees (one subprocess per tree, the tree at the front of sys.path and as the
working directory) and compares every observable result.

usage: equiv.py <treeA> <treeB>      exit 0 = all cases agree, 1 = otherwise
"""
import json
import os
import subprocess
import sys

PYTHON = "/venv/bin/python" if os.path.exists("/venv/bin/python") else sys.executable

DRIVER_HEAD = r'''
import contextlib, enum, hashlib, io, json, os, shutil, subprocess, sys, tempfile
TREE = os.path.abspath(sys.argv[1])
PYTHON = sys.argv[2]
sys.path.insert(0, TREE)
os.chdir(TREE)
RESULTS = []


def norm(text):
    return str(text).replace(TREE, "<TREE>")


def show(obj, depth=0):
    """Canonical, address-free, JSON-able rendering of a result."""
    if depth > 20:
        return "<deep>"
    if obj is None or isinstance(obj, (bool, int, float)):
        return obj
    if isinstance(obj, str):
        return norm(obj)
    if isinstance(obj, (bytes, bytearray)):
        return {"bytes": bytes(obj).hex()}
    if isinstance(obj, enum.Enum):
        return str(obj)
    if isinstance(obj, dict):
        return {"dict": [[show(k, depth), show(v, depth)] for k, v in obj.items()]}
    if hasattr(obj, "_asdict"):
        if type(obj).__name__ in ("Instruction", "Mode") and depth > 0:
            return "<{} {}>".format(type(obj).__name__, getattr(obj, "mnemonic", ""))
        return {"nt": type(obj).__name__, "f": show(obj._asdict(), depth + 1)}
    if isinstance(obj, (list, tuple, set, frozenset)):
        items = list(obj)
        if len(items) > 600 and all(isinstance(i, int) and not isinstance(i, bool) for i in items):
            blob = ",".join(map(str, items)).encode()
            return {type(obj).__name__: len(items), "sha": hashlib.sha256(blob).hexdigest(),
                    "head": items[:24], "tail": items[-24:]}
        return {type(obj).__name__: [show(i, depth + 1) for i in items]}
    if hasattr(obj, "__dict__"):
        return {"obj": type(obj).__name__, "vars": show(vars(obj), depth + 1)}
    return norm(repr(obj))


def case(label, fn):
    out_buf, err_buf = io.StringIO(), io.StringIO()
    try:
        with contextlib.redirect_stdout(out_buf), contextlib.redirect_stderr(err_buf):
            value = fn()
        out = {"ok": show(value)}
    except SystemExit as error:
        out = {"exit": show(error.code)}
    except BaseException as error:
        out = {"exc": type(error).__name__, "msg": norm(error)}
    out["stdout"] = norm(out_buf.getvalue())
    out["stderr"] = norm(err_buf.getvalue())
    RESULTS.append([label, out])


def cli(tool, argv, files=None, keep=None):
    """
    Runs <TREE>/<tool> with argv inside a fresh temporary directory that first
    receives `files` (name -> str or bytes). Returns return code, stdout, the
    last line of stderr and name/size/sha256 of every file left behind.
    """
    work = keep or tempfile.mkdtemp(prefix="equiv")
    try:
        for name, content in (files or {}).items():
            mode = "wb" if isinstance(content, (bytes, bytearray)) else "w"
            with open(os.path.join(work, name), mode) as handle:
                handle.write(content)
        env = dict(os.environ, PYTHONPATH=TREE, PYTHONDONTWRITEBYTECODE="1", COLUMNS="80")
        done = subprocess.run([PYTHON, os.path.join(TREE, tool)] + list(argv), cwd=work, env=env,
                              capture_output=True, text=True, timeout=600)
        left = {}
        for name in sorted(os.listdir(work)):
            with open(os.path.join(work, name), "rb") as handle:
                blob = handle.read()
            left[name] = [len(blob), hashlib.sha256(blob).hexdigest()]
        err_lines = [line for line in done.stderr.splitlines() if line.strip()]
        return {"rc": done.returncode, "stdout": norm(done.stdout).replace(work, "<WORK>"),
                "stderr_last": norm(err_lines[-1]).replace(work, "<WORK>") if err_lines else "",
                "files": left}
    finally:
        if not keep:
            shutil.rmtree(work, ignore_errors=True)


def read_back(work, name):
    with open(os.path.join(work, name), "rb") as handle:
        return handle.read()

'''

DRIVER_TAIL = r'''
print("@@RESULTS@@" + json.dumps(RESULTS))
'''

DRIVER_ASM = r'''
import signal
from cocoasm.exceptions import TranslationError, ParseError
from cocoasm.instruction import INSTRUCTIONS
from cocoasm.program import Program


WATCHDOG_SECONDS = 20


class OutOfTime(BaseException):
    pass


def out_of_time(signum, frame):
    raise OutOfTime()


def safe(fn):
    try:
        return fn()
    except Exception as error:
        return "<{}: {}>".format(type(error).__name__, error)


def assemble(lines):
    """Everything observable about assembling `lines` (a list of source lines)."""
    program = Program()
    signal.signal(signal.SIGALRM, out_of_time)
    signal.alarm(WATCHDOG_SECONDS)
    try:
        program.process([line + "\n" for line in lines])
    except (TranslationError, ParseError) as error:
        return ["diagnostic", type(error).__name__, str(error.value), str(error), safe(lambda: str(error.statement))]
    except OutOfTime:
        return ["does not terminate"]
    except Exception as error:
        return ["crash", type(error).__name__, str(error)]
    finally:
        signal.alarm(0)
    shape = [[safe(lambda: s.code_pkg.size), safe(lambda: s.code_pkg.max_size), s.fixed_size, s.pcr_size_hint,
              type(s.operand).__name__, safe(lambda: s.code_pkg.address.hex(size=4))] for s in program.statements]
    return ["ok", safe(program.get_binary_array), safe(program.get_statements), safe(program.get_symbol_table),
            safe(lambda: program.origin.hex()), program.name, shape]


MNEMONICS = [instruction.mnemonic for instruction in INSTRUCTIONS]

OPERANDS = [
    "", "#0", "#1", "#$7F", "#$FF", "#255", "#256", "#-1", "#-128", "#-129", "#$1234", "#65535", "#65536", "#70000",
    "#%10101010", "#%1010", "#'A", "#SYM", "#BYTE", "#WORD", "#HERE",
    "0", "1", "$12", "$1234", "$12345", "255", "256", "65535", "65536", "70000", "-1", "-32768", "-32769",
    "<$12", "<$1234", "<256", "<WORD", "<BYTE", ">$12", ">$1234", ">1", ">BYTE", "<", ">",
    "%00001111", "%0000111100001111", "%101", "'A", "BYTE", "WORD", "HERE", "THERE", "UNDEFINED", "HERE+1", "WORD-BYTE",
    "BYTE+HERE", "HERE-THERE",
    "[$12]", "[$1234]", "[70000]", "[HERE]", "[WORD]", "[BYTE]", "[UNDEFINED]", "[,X]", "[,Y++]", "[,--U]", "[,S+]",
    "[,-X]", "[A,X]", "[B,Y]", "[D,U]", "[5,X]", "[-5,Y]", "[$7F,U]", "[$80,S]", "[$1234,X]", "[-129,Y]", "[HERE,X]",
    "[HERE,PCR]", "[5,PCR]", "[$1234,PCR]", "[WORD,X]", "[BYTE,Y]", "[0,X]", "[5,Z]", "[1,PC]", "[,X++]", "[]", "[,]",
    ",X", ",Y", ",U", ",S", ",X+", ",X++", ",-X", ",--X", ",Y+", ",--S", ",Z", ",PC", ",PCR", ",", "0,X", "1,X", "15,X",
    "16,X", "-16,X", "-17,Y", "127,U", "128,S", "-128,X", "-129,X", "255,X", "256,X", "$7FFF,Y", "65535,X", "70000,X",
    "-32768,X", "A,X", "B,Y", "D,U", "E,X", "5,Z", "1,PC", "5,PCR", "-5,PCR", "$1234,PCR", "HERE,PCR", "THERE,PCR",
    "HERE,X", "WORD,X", "BYTE,X", "UNDEFINED,X", "HERE+1,PCR", "HERE+1,X", "5,X+", "5,-X", "A,X+", "X,Y", "A,B",
    "A", "B", "D", "X", "Y", "U", "S", "PC", "CC", "DP", "Z", "A,B,X", "CC,A,B,DP,X,Y,U,PC", "CC,A,B,DP,X,Y,S,PC",
    "D,X", "X,D", "A,X ", "PC,X", "A,CC", "DP,B", "U,S", "a,b", "A,,B", ",A", "A,", "X,Y,U", "D,D", "A,D",
    '"text"', "/text/", "1,2,3", "$1234,$5678", "1,", "'", "#", "#,", "[", "]", "++", "--", "+", "-", "*", "*+2", "$", "%", "!",
]

PROLOGUE = ["BYTE EQU $12", "WORD EQU $1234", "SYM EQU 5"]


def wrap(mnemonic, operand):
    """A program with a label before and after the statement under test."""
    return PROLOGUE + ["HERE NOP", " {} {}".format(mnemonic, operand), "THERE NOP", " NOP"]


def sweep(mnemonic):
    return [[operand, assemble(wrap(mnemonic, operand))] for operand in OPERANDS]

'''

DRIVER_MUTATE = r'''
VALID_PROGRAM = [
    "; sample program",
    "        NAM     SAMPLE",
    "SCREEN  EQU     $0400",
    "COUNT   EQU     10",
    "        ORG     $0E00",
    "START   LDA     #$01        ; load",
    "        LDB     <$12",
    "        LDX     #SCREEN",
    "LOOP    STA     ,X+",
    "        LEAY    TABLE,PCR",
    "        LDA     [VECTOR,PCR]",
    "        LDD     COUNT+1",
    "        STD     -5,Y",
    "        DECB",
    "        BNE     LOOP",
    "        LBRA    START",
    "        PSHS    A,B,X",
    "        TFR     X,Y",
    "        JSR     [VECTOR]",
    "        JMP     >START",
    "TABLE   FCB     1,2,3",
    "TEXT    FCC     \"HELLO\"    ; greeting",
    "BUFFER  RMB     4",
    "VECTOR  FDB     START",
    "        END     START",
]


def mutations(line):
    """Single-line mutations: fields deleted or duplicated, operands emptied or damaged."""
    fields = line.split()
    out = [line, "", " ", line.strip(), line.upper(), line.lower(), line + line, line[: len(line) // 2], line[::-1],
           line.replace(" ", "", 1), line.replace(" ", ""), "X" + line, line + " ;", ";" + line, line.replace(",", ""),
           line.replace(",", ",,"), line.replace("$", ""), line.replace("$", "$$"), line.replace("#", ""),
           line.replace("\"", "", 1), line.replace("[", ""), line.replace("]", ""), line + ",", line + "+", line + "\"",
           line + "'", line + "]", line + "[", line + ")", line + "#", line + "<", line.replace("START", "NOWHERE"),
           line.replace("START", ""), line.replace("1", "99999"), line.replace("1", "-1"), line.replace("X", "Z"),
           line.replace("A", "Q"), line.replace("PCR", "PC"), line.replace("+", "++"), line.replace("-", "--")]
    for index in range(len(fields)):
        out.append("        " + " ".join(fields[:index] + fields[index + 1:]))
        out.append("        " + " ".join(fields[:index] + [fields[index]] * 2 + fields[index + 1:]))
        out.append(" ".join(fields[:index] + [fields[index]] * 2 + fields[index + 1:]))
    return out


def mutated_programs(position):
    programs = []
    for changed in mutations(VALID_PROGRAM[position]):
        programs.append(VALID_PROGRAM[:position] + [changed] + VALID_PROGRAM[position + 1:])
    programs.append(VALID_PROGRAM[:position] + VALID_PROGRAM[position + 1:])
    programs.append(VALID_PROGRAM[:position] + [VALID_PROGRAM[position]] * 2 + VALID_PROGRAM[position + 1:])
    return programs

'''

DRIVER_CASES = DRIVER_ASM + DRIVER_MUTATE + r'''
from cocoasm.operands import Operand, UnknownOperand, ImmediateOperand, IndexedOperand, ExtendedIndexedOperand, \
    DirectOperand, ExtendedOperand, RelativeOperand, InherentOperand, PseudoOperand, SpecialOperand
from cocoasm.values import NumericValue, AddressValue, Value, NoneValue, StringValue, SymbolValue

BY_NAME = {instruction.mnemonic: instruction for instruction in INSTRUCTIONS}

# 1. every mnemonic with the general operand list, the valid program and its single-line mutations
for mnemonic in MNEMONICS:
    case("sweep-" + mnemonic, lambda: sweep(mnemonic))
case("valid", lambda: assemble(VALID_PROGRAM))
for position in range(len(VALID_PROGRAM)):
    case("mutated line {}".format(position), lambda: [assemble(lines) for lines in mutated_programs(position)])

# 2. indexed operands: a grid of offsets (numbers, symbols, expressions, accumulators) and index registers
OFFSETS = ["", "0", "5", "16", "-16", "-17", "127", "128", "-129", "$10", "$1234", "65536", "%00000101", "'A", "A", "B", "D",
           "E", "a", "BYTE", "WORD", "SYM", "ZERO", "HERE", "THERE", "NOWHERE", "HERE+1", "THERE-HERE", "SYM+1", "SYM/ZERO",
           "NOWHERE+1", "1+NOWHERE", "BYTE*WORD", "<5", ">5", "#5", "<HERE", "1+", "+", "$", "\"A\"", "A B", "[5]", "5,5"]
TAILS = ["X", "Y", "U", "S", "PCR", "PC", "Z", "X+", "X++", "-Y", "--Y", ""]
GRID = [wrapper.format("{},{}".format(offset, tail)) for offset in OFFSETS for tail in TAILS for wrapper in ("{}", "[{}]")]
GRID_PROLOGUE = ["BYTE EQU $12", "WORD EQU $1234", "SYM EQU 5", "ZERO EQU 0"]
for mnemonic in ("LDA", "STX", "LEAY", "JMP", "CLR", "CMPD", "NOP", "BRA", "PSHS", "FCB", "EQU", "ORG"):
    case("grid-" + mnemonic, lambda: [[operand, assemble(GRID_PROLOGUE + ["HERE NOP", " {} {}".format(mnemonic, operand),
                                                                         "THERE NOP"])] for operand in GRID])


# 3. the constructors on their own
KINDS = [UnknownOperand, ImmediateOperand, IndexedOperand, ExtendedIndexedOperand, DirectOperand, ExtendedOperand,
         RelativeOperand, InherentOperand, PseudoOperand, SpecialOperand]
TEXTS = OPERANDS + GRID[::9] + [None]


def constructing(kind, mnemonic):
    rows = []
    for text in TEXTS:
        try:
            made = kind(text, BY_NAME[mnemonic])
            rows.append([text, show(made)])
        except Exception as error:
            rows.append([text, "raised", type(error).__name__, str(error),
                         type(error.__context__).__name__, str(error.__context__)])
    return rows


for kind in KINDS:
    for mnemonic in ("LDA", "LDX", "BRA", "NOP", "FCB", "FCC", "TFR", "EQU"):
        case("construct {} for {}".format(kind.__name__, mnemonic), lambda: constructing(kind, mnemonic))
for kind in (UnknownOperand, ImmediateOperand):
    case("construct {} with value".format(kind.__name__),
         lambda: show(kind("ignored,", BY_NAME["LDA"], value=NumericValue(5))))
    case("construct {} with none value".format(kind.__name__), lambda: show(kind("#5", BY_NAME["LDA"], value=None)))
    case("construct {} with zero-like value".format(kind.__name__),
         lambda: show(kind("#5", BY_NAME["LDA"], value=NoneValue())))
    case("construct {} without instruction".format(kind.__name__), lambda: show(kind("#5", None)))
for text in (5, ("[", "]"), ["[5,X]"], b"[5,X]", b"5,X"):
    for kind in (UnknownOperand, ImmediateOperand, IndexedOperand, ExtendedIndexedOperand):
        case("construct {} from {!r}".format(kind.__name__, text), lambda: show(kind(text, BY_NAME["LDA"])))

# 4. symbol resolution of the operands, including the state left behind by a failure and a second call
TABLES = {
    "empty": {},
    "numbers": {"BYTE": NumericValue(0x12), "WORD": NumericValue(0x1234), "HERE": NumericValue(3), "SYM": NumericValue(5),
                "ZERO": NumericValue(0)},
    "addresses": {"BYTE": AddressValue(1), "WORD": AddressValue(2), "HERE": AddressValue(3), "THERE": AddressValue(4),
                  "SYM": AddressValue(0), "ZERO": AddressValue(0)},
    "mixed": {"BYTE": NumericValue("$12"), "WORD": AddressValue(7), "HERE": NumericValue(300), "THERE": NumericValue(0),
              "SYM": StringValue("/A/"), "ZERO": NoneValue()},
}


def resolving(mnemonic, table_name, texts):
    rows = []
    for text in texts:
        try:
            made = Operand.create_from_str(text, BY_NAME[mnemonic])
        except Exception:
            continue
        outcome = []
        for attempt in range(2):
            try:
                resolved = made.resolve_symbols(dict(TABLES[table_name]))
                outcome.append([type(resolved).__name__, resolved is made, show(resolved)])
            except Exception as error:
                outcome.append(["raised", type(error).__name__, str(error)])
            outcome.append(show(made))
        rows.append([text, type(made).__name__, outcome])
    return rows


for mnemonic in ("LDA", "STX", "LEAY", "JMP"):
    for table_name in TABLES:
        case("resolve grid {} {}".format(mnemonic, table_name), lambda: resolving(mnemonic, table_name, GRID))
        case("resolve general {} {}".format(mnemonic, table_name), lambda: resolving(mnemonic, table_name, OPERANDS))


def forced_left(kind, text, left, table):
    def run():
        operand = kind(text, BY_NAME["LDA"])
        operand.left = left
        try:
            resolved = operand.resolve_symbols(table)
            return [resolved is operand, show(operand)]
        except Exception as error:
            return ["raised", type(error).__name__, str(error), show(operand)]
    return run


for name, left in {"none": None, "none value": NoneValue(), "number": NumericValue(5), "int": 5, "zero": 0, "empty": "",
                   "list": ["A"], "tuple": ("A",), "bytes": b"A", "space": " ", "lower": "a", "symbol": "HERE"}.items():
    case("forced left {} indexed".format(name), forced_left(IndexedOperand, "5,X", left, dict(TABLES["numbers"])))
    case("forced left {} indirect".format(name), forced_left(ExtendedIndexedOperand, "[5,X]", left, dict(TABLES["numbers"])))
case("indirect plain number", forced_left(ExtendedIndexedOperand, "[$1234]", NoneValue(), {}))
case("indirect plain symbol", forced_left(ExtendedIndexedOperand, "[HERE]", NoneValue(), dict(TABLES["addresses"])))
case("indirect plain symbol missing", forced_left(ExtendedIndexedOperand, "[HERE]", NoneValue(), {}))


# 5. the command line front end
def front_end(lines):
    return cli("assembler.py", ["p.asm", "--print", "--symbols", "--to_bin", "p.bin", "--to_cas", "p.cas"],
               files={"p.asm": "\n".join(lines) + "\n"})


for operand in ("#5", "#", "#NOWHERE", "5,X", "NOWHERE,X", "[NOWHERE,X]", "[5,X", "5,X]", "[HERE+1,PCR]", "A,X", "E,X", "5,5,X", "1+,X"):
    case("cli lda " + operand, lambda: front_end([" NAM T", "HERE NOP", " LDA " + operand, "THERE NOP"]))
'''


def run_tree(tree):
    tree = os.path.abspath(tree)
    env = dict(os.environ, PYTHONDONTWRITEBYTECODE="1")
    done = subprocess.run([PYTHON, "-c", DRIVER_HEAD + DRIVER_CASES + DRIVER_TAIL, tree, PYTHON],
                          cwd=tree, env=env, capture_output=True, text=True)
    marker = done.stdout.rfind("@@RESULTS@@")
    if done.returncode != 0 or marker < 0:
        print("driver failed for", tree)
        print(done.stdout[-2000:])
        print(done.stderr[-4000:])
        sys.exit(1)
    return json.loads(done.stdout[marker + len("@@RESULTS@@"):])


def main():
    if len(sys.argv) != 3:
        print(__doc__)
        sys.exit(2)
    first, second = run_tree(sys.argv[1]), run_tree(sys.argv[2])
    bad = 0
    if [label for label, _ in first] != [label for label, _ in second]:
        print("case lists differ")
        bad += 1
    for (label, left), (_, right) in zip(first, second):
        if left != right:
            bad += 1
            print("DIFF in case", label)
            print("  A:", json.dumps(left)[:1500])
            print("  B:", json.dumps(right)[:1500])
    print("{} cases compared, {} differ".format(len(first), bad))
    sys.exit(1 if bad or len(first) < 30 else 0)


if __name__ == "__main__":
    main()
