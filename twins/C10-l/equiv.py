#!/usr/bin/env python
"""
Differential check for a refactoring of the save / overwrite-guard plumbing
(SourceFile, VirtualFile, assembler.py, file_util.py).

usage: equiv.py <treeA> <treeB>

Two drivers are run in one subprocess each per tree (tree as cwd and at the
front of sys.path; the two trees run side by side):
  MATRIX  - both command line tools over {--to_bin, --to_cas, --to_dsk} x
            {append, no append} x pre-existing target {absent, empty, cassette,
            disk, blank disk, raw binary, arbitrary bytes, text, cassette larger
            than a disk, disk-sized noise, broken tape}, recording stdout, exit
            code, the bytes of every file afterwards and whether its mtime was
            touched; other front end paths; main() called in-process (return
            value / SystemExit / printed text); SourceFile read/write on real
            files for every file type, including failing writes.
  HISTORY - open / add / save / re-open histories through VirtualFile and the
            tools, type sniffing of foreign content.
All observables are collected as JSON and compared case by case.
"""
import json
import os
import subprocess
import sys
import tempfile
import threading

MATRIX = r'''
import sys, os, json, hashlib, random, subprocess, tempfile, shutil, io, argparse, contextlib
tree = os.getcwd()
sys.path.insert(0, tree)
from cocoasm.virtualfiles.virtual_file import VirtualFile, VirtualFileType
from cocoasm.virtualfiles.source_file import SourceFile, SourceFileType
from cocoasm.virtualfiles.cassette import CassetteFile
from cocoasm.virtualfiles.disk import DiskFile, DiskConstants
from cocoasm.virtualfiles.coco_file import CoCoFile
from cocoasm.values import NumericValue
import assembler
import file_util

results = {}
OLD = 1000000000  # mtime given to every pre-existing file, to see whether it was written again

def case(name, fn):
    try:
        results[name] = {"ok": fn()}
    except BaseException as error:
        results[name] = {"exc": type(error).__name__, "msg": str(error)}

def payload(length, seed=0):
    rnd = random.Random(seed * 7919 + length)
    return [rnd.randrange(256) for _ in range(length)]

def make(name, length, kind="ml", seed=0):
    ftype, dtype = {"ml": (2, 0), "basic": (0, 0), "ascii": (0, 0xFF)}[kind]
    return CoCoFile(name=name, extension="BIN", type=NumericValue(ftype), data_type=NumericValue(dtype),
                    load_addr=NumericValue(0x0E00), exec_addr=NumericValue(0x0E10), data=payload(length, seed))

def tape(files):
    t = CassetteFile(); t.add_files(files); return list(t.get_buffer())
def disk(files):
    d = DiskFile(); d.add_files(files); return list(d.get_buffer())

A, B, C = make("ALPHA", 10, seed=1), make("BETA", 300, "basic", seed=2), make("GAMMA", 2400, seed=3)
TARGETS = {
    "absent": None,
    "empty": [],
    "cassette": tape([A, B]),
    "cassette1": tape([C]),
    "disk": disk([A, B]),
    "disk1": disk([C]),
    "blankdisk": [0xFF] * DiskConstants.IMAGE_SIZE,
    "binary": payload(40, 5),
    "arbitrary": payload(3000, 6),
    "text": list(b"hello world\n"),
    "bigcassette": tape([make("T%d" % i, 60000, seed=i) for i in range(3)]),
    "arbitrarydisksize": payload(DiskConstants.IMAGE_SIZE, 7),
    "brokentape": tape([A, B])[:400],
}
PROGRAMS = {
    "one.asm": "        NAM ONE\n        ORG $0E00\nSTART   LDA #$01\n        STA $0400\n        RTS\n        END START\n",
    "noname.asm": "        ORG $3000\n        NOP\n        RTS\n",
    "bad.asm": "        NAM BAD\n        LDA #\n",
    "undefined.asm": "        NAM UNDEF\n        LDA NOWHERE\n",
}

def state(work):
    out = {}
    for name in sorted(os.listdir(work)):
        path = os.path.join(work, name)
        if os.path.isdir(path):
            out[name] = "dir"
            continue
        with open(path, "rb") as handle:
            content = handle.read()
        out[name] = [len(content), hashlib.sha256(content).hexdigest(), int(os.stat(path).st_mtime) == OLD]
    return out

def prepare(files):
    work = tempfile.mkdtemp()
    for name, content in files.items():
        if content is None:
            continue
        path = os.path.join(work, name)
        with open(path, "wb") as handle:
            handle.write(content.encode() if isinstance(content, str) else bytes(bytearray(content)))
        os.utime(path, (OLD, OLD))
    return work

def run_cli(work, script, argv):
    proc = subprocess.run([sys.executable, os.path.join(tree, script)] + argv, cwd=work, stdout=subprocess.PIPE,
                          stderr=subprocess.PIPE, universal_newlines=True, env=dict(os.environ, PYTHONPATH=tree))
    err = proc.stderr.strip().splitlines()
    return {"rc": proc.returncode, "out": proc.stdout, "err": err[-1:] if err else [], "state": state(work)}

def cli(files, commands):
    work = prepare(files)
    try:
        return [run_cli(work, script, argv) for script, argv in commands]
    finally:
        shutil.rmtree(work)

FLAGS = (("--to_bin", "bin"), ("--to_cas", "cas"), ("--to_dsk", "dsk"))

# 1. assembler.py : option x append x existing target
for flag, ext in FLAGS:
    for append in (False, True):
        for label, content in TARGETS.items():
            argv = ["one.asm", flag, "target.img"] + (["--append"] if append else [])
            case("asm %s append=%s target=%s" % (flag, append, label),
                 lambda: cli(dict(PROGRAMS, **{"target.img": content}), [("assembler.py", argv), ("file_util.py", ["target.img", "--list"])]))

# 2. file_util.py : source kind x option x append x existing target
for src_label in ("cassette1", "disk"):
    for flag, ext in FLAGS:
        for append in (False, True):
            for label, content in TARGETS.items():
                argv = ["source.img", flag, "target.img"] + (["--append"] if append else [])
                case("util src=%s %s append=%s target=%s" % (src_label, flag, append, label),
                     lambda: cli({"source.img": TARGETS[src_label], "target.img": content}, [("file_util.py", argv), ("file_util.py", ["target.img", "--list"])]))

# 3. other front end paths
case("asm no name cas", lambda: cli(PROGRAMS, [("assembler.py", ["noname.asm", "--to_cas", "t.cas"])]))
case("asm no name dsk", lambda: cli(PROGRAMS, [("assembler.py", ["noname.asm", "--to_dsk", "t.dsk"])]))
case("asm no name bin", lambda: cli(PROGRAMS, [("assembler.py", ["noname.asm", "--to_bin", "t.bin"])]))
case("asm no name all", lambda: cli(PROGRAMS, [("assembler.py", ["noname.asm", "--to_bin", "t.bin", "--to_cas", "t.cas", "--to_dsk", "t.dsk"])]))
case("asm no name dsk then cas order", lambda: cli(PROGRAMS, [("assembler.py", ["noname.asm", "--to_dsk", "t.dsk", "--to_cas", "t.cas", "--symbols"])]))
case("asm given name all", lambda: cli(PROGRAMS, [("assembler.py", ["noname.asm", "--name", "GIVEN", "--to_bin", "t.bin", "--to_cas", "t.cas", "--to_dsk", "t.dsk", "--print", "--symbols"])]))
case("asm name overridden", lambda: cli(PROGRAMS, [("assembler.py", ["one.asm", "--name", "GIVEN", "--to_cas", "t.cas"]), ("file_util.py", ["t.cas", "--list"])]))
case("asm all targets twice", lambda: cli(PROGRAMS, [("assembler.py", ["one.asm", "--to_bin", "t.bin", "--to_cas", "t.cas", "--to_dsk", "t.dsk"])] * 2))
case("asm all targets twice append", lambda: cli(PROGRAMS, [("assembler.py", ["one.asm", "--to_bin", "t.bin", "--to_cas", "t.cas", "--to_dsk", "t.dsk", "--append"])] * 2))
case("asm bad program", lambda: cli(PROGRAMS, [("assembler.py", ["bad.asm", "--to_cas", "t.cas"])]))
case("asm undefined symbol", lambda: cli(PROGRAMS, [("assembler.py", ["undefined.asm", "--to_cas", "t.cas"])]))
case("asm missing source", lambda: cli(PROGRAMS, [("assembler.py", ["nothere.asm", "--to_cas", "t.cas"])]))
case("asm target is directory", lambda: cli(PROGRAMS, [("assembler.py", ["one.asm", "--to_cas", "."]), ("assembler.py", ["one.asm", "--to_cas", ".", "--append"])]))
case("asm target in missing directory", lambda: cli(PROGRAMS, [("assembler.py", ["one.asm", "--to_dsk", "no/such/t.dsk"])]))
case("asm no targets", lambda: cli(PROGRAMS, [("assembler.py", ["one.asm"]), ("assembler.py", ["one.asm", "--print", "--width", "60"])]))
case("util nothing to do", lambda: cli({"s.cas": TARGETS["cassette"]}, [("file_util.py", ["s.cas"])]))
case("util missing source list", lambda: cli({}, [("file_util.py", ["s.cas", "--list"])]))
case("util missing source copy", lambda: cli({}, [("file_util.py", ["s.cas", "--to_cas", "t.cas"]), ("file_util.py", ["s.cas", "--to_bin", "t.bin"])]))
case("util list and copy", lambda: cli({"s.cas": TARGETS["cassette"]}, [("file_util.py", ["s.cas", "--list", "--to_cas", "t.cas"])]))
case("util files filter", lambda: cli({"s.cas": TARGETS["cassette"]}, [("file_util.py", ["s.cas", "--to_dsk", "t.dsk", "--files", "beta"]), ("file_util.py", ["s.cas", "--to_cas", "t.cas", "--files", "nope"]), ("file_util.py", ["t.dsk", "--list"])]))
case("util to_bin many", lambda: cli({"s.cas": TARGETS["cassette"]}, [("file_util.py", ["s.cas", "--to_bin", "t.bin"])]))
case("util to_bin filtered out", lambda: cli({"s.cas": TARGETS["cassette1"]}, [("file_util.py", ["s.cas", "--to_bin", "t.bin", "--files", "other"])]))
case("util to_bin empty source", lambda: cli({"s.cas": []}, [("file_util.py", ["s.cas", "--to_bin", "t.bin"])]))
case("util all three", lambda: cli({"s.dsk": TARGETS["disk1"]}, [("file_util.py", ["s.dsk", "--to_cas", "t.cas", "--to_dsk", "t.dsk", "--to_bin", "t.bin"])] * 2))
case("util all three append", lambda: cli({"s.dsk": TARGETS["disk1"]}, [("file_util.py", ["s.dsk", "--to_cas", "t.cas", "--to_dsk", "t.dsk", "--to_bin", "t.bin", "--append"])] * 2))
case("util copy onto itself", lambda: cli({"s.cas": TARGETS["cassette"]}, [("file_util.py", ["s.cas", "--to_cas", "s.cas", "--append"]), ("file_util.py", ["s.cas", "--to_cas", "s.cas"])]))
case("util broken source", lambda: cli({"s.cas": TARGETS["brokentape"]}, [("file_util.py", ["s.cas", "--list"]), ("file_util.py", ["s.cas", "--to_cas", "t.cas"])]))

# 4. the front end functions called in-process (return value / SystemExit / printed text)
def call_main(module, work, **options):
    defaults = {"assembler": dict(filename=None, symbols=False, print=False, to_bin=None, to_cas=None, to_dsk=None, name=None, append=False, width=100),
                "file_util": dict(host_filename=None, append=False, list=False, to_bin=None, to_cas=None, to_dsk=None, files=None)}[module.__name__]
    defaults.update(options)
    args = argparse.Namespace(**defaults)
    stream = io.StringIO()
    cwd = os.getcwd()
    os.chdir(work)
    try:
        with contextlib.redirect_stdout(stream):
            try:
                outcome = ["returned", repr(module.main(args))]
            except SystemExit as stop:
                outcome = ["SystemExit", repr(stop.code)]
            except BaseException as error:
                outcome = [type(error).__name__, str(error)]
    finally:
        os.chdir(cwd)
    return [outcome, stream.getvalue(), state(work)]
def in_process(module, setup, **options):
    work = prepare(setup)
    try:
        return call_main(module, work, **options)
    finally:
        shutil.rmtree(work)
case("main util list", lambda: in_process(file_util, {"s.cas": TARGETS["cassette"]}, host_filename="s.cas", list=True))
case("main util list empty", lambda: in_process(file_util, {"s.cas": []}, host_filename="s.cas", list=True))
case("main util nothing", lambda: in_process(file_util, {"s.cas": TARGETS["cassette"]}, host_filename="s.cas"))
case("main util copy", lambda: in_process(file_util, {"s.cas": TARGETS["cassette"]}, host_filename="s.cas", to_dsk="t.dsk"))
case("main util copy refused", lambda: in_process(file_util, {"s.cas": TARGETS["cassette"], "t.dsk": TARGETS["disk1"]}, host_filename="s.cas", to_dsk="t.dsk"))
case("main util copy wrong kind", lambda: in_process(file_util, {"s.cas": TARGETS["cassette"], "t.dsk": TARGETS["cassette1"]}, host_filename="s.cas", to_dsk="t.dsk", append=True))
case("main util to_bin many", lambda: in_process(file_util, {"s.cas": TARGETS["cassette"]}, host_filename="s.cas", to_bin="t.bin"))
case("main util to_bin one", lambda: in_process(file_util, {"s.cas": TARGETS["cassette1"]}, host_filename="s.cas", to_bin="t.bin"))
case("main util to_bin none", lambda: in_process(file_util, {"s.cas": []}, host_filename="s.cas", to_bin="t.bin"))
case("main util files not list", lambda: in_process(file_util, {"s.cas": TARGETS["cassette"]}, host_filename="s.cas", to_cas="t.cas", files=["alpha", 5]))
case("main util host None", lambda: in_process(file_util, {}, host_filename=None, list=True))
case("main asm plain", lambda: in_process(assembler, PROGRAMS, filename="one.asm", to_cas="t.cas", to_dsk="t.dsk", to_bin="t.bin"))
case("main asm noname", lambda: in_process(assembler, PROGRAMS, filename="noname.asm", to_bin="t.bin", to_cas="t.cas", to_dsk="t.dsk"))
case("main asm noname dsk", lambda: in_process(assembler, PROGRAMS, filename="noname.asm", to_dsk="t.dsk"))
case("main asm refused", lambda: in_process(assembler, dict(PROGRAMS, **{"t.cas": TARGETS["cassette"]}), filename="one.asm", to_cas="t.cas"))
case("main asm bad", lambda: in_process(assembler, PROGRAMS, filename="bad.asm", to_cas="t.cas"))
case("main asm missing", lambda: in_process(assembler, PROGRAMS, filename="nothere.asm", to_cas="t.cas"))
case("main asm symbols", lambda: in_process(assembler, PROGRAMS, filename="one.asm", symbols=True, print=True))

# 5. SourceFile on its own
def source_io(file_type, content, write=None):
    work = prepare({"f": content})
    try:
        path = os.path.join(work, "f")
        out = []
        source = SourceFile(path, file_type=file_type)
        out.append([source.get_file_name() == path, list(source.get_buffer())])
        try:
            out.append(["read", source.read_file(), digest_buffer(source.get_buffer())])
        except BaseException as error:
            out.append([type(error).__name__, str(error).replace(work, "<work>")])
        if write is not None:
            source.set_buffer(write)
            try:
                out.append(["write", source.write_file()])
            except BaseException as error:
                out.append([type(error).__name__, str(error).replace(work, "<work>")])
        out.append(state(work))
        return out
    finally:
        shutil.rmtree(work)
def digest_buffer(buffer):
    return [type(buffer).__name__, len(buffer), hashlib.sha256(repr(list(buffer)).encode()).hexdigest(), repr(list(buffer)[:20])]
for label, ftype in (("assembly", SourceFileType.ASSEMBLY), ("binary", SourceFileType.BINARY), ("none", None), ("int", 1)):
    case("source %s read text" % label, lambda: source_io(ftype, "line one\nline two\r\nlast"))
    case("source %s read bytes" % label, lambda: source_io(ftype, [0, 1, 255, 10, 13, 128]))
    case("source %s read empty" % label, lambda: source_io(ftype, []))
    case("source %s read missing" % label, lambda: source_io(ftype, None))
    case("source %s write" % label, lambda: source_io(ftype, [1, 2, 3], write=[9, 8, 7, 255, 0]))
    case("source %s write missing" % label, lambda: source_io(ftype, None, write=[9, 8, 7]))
    case("source %s write bad value" % label, lambda: source_io(ftype, [1, 2, 3], write=[9, 256, 7]))
    case("source %s write bytes" % label, lambda: source_io(ftype, [1, 2, 3], write=b"abc"))
    case("source %s write strings" % label, lambda: source_io(ftype, [1, 2, 3], write=["a", "b"]))
    case("source %s write empty" % label, lambda: source_io(ftype, [1, 2, 3], write=[]))
case("source default type", lambda: [str(SourceFile("x").file_type), SourceFile().get_file_name(), SourceFile("x").get_buffer()])
case("source static read", lambda: [SourceFile.read_binary_contents(os.path.join(tree, "LICENSE"))[:10], SourceFile.read_assembly_contents(os.path.join(tree, "LICENSE"))[:2]])

json.dump(results, sys.stdout, sort_keys=True, default=repr)
'''

HISTORY = r'''
import sys, os, json, hashlib, random, subprocess, tempfile, shutil
tree = os.getcwd()
sys.path.insert(0, tree)
from cocoasm.virtualfiles.virtual_file import VirtualFile, VirtualFileType
from cocoasm.virtualfiles.source_file import SourceFile, SourceFileType
from cocoasm.virtualfiles.cassette import CassetteFile
from cocoasm.virtualfiles.disk import DiskFile, DiskConstants
from cocoasm.virtualfiles.binary import BinaryFile
from cocoasm.virtualfiles.coco_file import CoCoFile
from cocoasm.values import NumericValue, NoneValue

results = {}

def digest(seq):
    try:
        return [len(seq), hashlib.sha256(bytes(bytearray(seq))).hexdigest()]
    except Exception:
        return [len(seq), hashlib.sha256(repr(list(seq)).encode()).hexdigest()]

def show_value(value):
    return [type(value).__name__, getattr(value, "int", None), value.hex() if hasattr(value, "hex") else None]

def show_file(f):
    return {"name": f.name, "ext": f.extension, "type": show_value(f.type), "data_type": show_value(f.data_type),
            "gaps": show_value(f.gaps), "load": show_value(f.load_addr), "exec": show_value(f.exec_addr),
            "data": digest(f.data), "str": str(f)}

def case(name, fn):
    try:
        results[name] = {"ok": fn()}
    except BaseException as error:
        results[name] = {"exc": type(error).__name__, "msg": str(error).replace(WORK, "<work>") if WORK else str(error)}

WORK = None

def payload(length, seed=0):
    rnd = random.Random(seed * 7919 + length)
    return [rnd.randrange(256) for _ in range(length)]

def make(name, length, kind="ml", load=0x0E00, exe=0x0E10, seed=0, ext="BIN"):
    ftype, dtype = {"ml": (2, 0), "basic": (0, 0), "ascii": (0, 0xFF), "data": (1, 0), "text": (3, 0xFF)}[kind]
    return CoCoFile(name=name, extension=ext, type=NumericValue(ftype), data_type=NumericValue(dtype),
                    load_addr=NumericValue(load), exec_addr=NumericValue(exe), data=payload(length, seed))

def file_state(path):
    if not os.path.exists(path):
        return None
    with open(path, "rb") as handle:
        content = handle.read()
    return [len(content), hashlib.sha256(content).hexdigest()]

TYPES = {"cas": VirtualFileType.CASSETTE, "dsk": VirtualFileType.DISK, "bin": VirtualFileType.BINARY, "none": None}

def session(path, kind, files, append, filenames=None):
    """One open / add / save cycle, the way the front ends do it."""
    out = {}
    vf = VirtualFile(SourceFile(path, file_type=SourceFileType.BINARY), TYPES[kind])
    try:
        vf.open_virtual_file()
        out["opened"] = [str(vf.virtual_file_type), vf.file_exists, [show_file(f) for f in vf.list_files()]]
        if filenames is not None:
            out["filtered"] = [show_file(f) for f in vf.list_files(filenames=filenames)]
        for f in files:
            vf.add_coco_file(f)
        out["listed"] = [f.name for f in vf.list_files()]
        out["saved"] = vf.save_virtual_file(append_mode=append)
    except BaseException as error:
        out["error"] = [type(error).__name__, str(error).replace(WORK, "<work>")]
    out["type_after"] = str(vf.virtual_file_type)
    out["file"] = file_state(path)
    return out

def history(kind, steps, name="image"):
    """steps: list of (files, append) ; a fresh VirtualFile per step, then a final re-open to list."""
    global WORK
    WORK = tempfile.mkdtemp()
    try:
        path = os.path.join(WORK, name + "." + kind)
        out = []
        for step in steps:
            files, append = step[0], step[1]
            step_kind = step[2] if len(step) > 2 else kind
            out.append(session(path, step_kind, files, append))
        final = VirtualFile(SourceFile(path, file_type=SourceFileType.BINARY))
        try:
            final.open_virtual_file()
            out.append([str(final.virtual_file_type), [show_file(f) for f in final.list_files()]])
        except BaseException as error:
            out.append([type(error).__name__, str(error).replace(WORK, "<work>")])
        return out
    finally:
        shutil.rmtree(WORK)
        WORK = None

A = make("ALPHA", 10, seed=1)
B = make("BETA", 255, "basic", seed=2, ext="BAS")
C = make("GAMMA", 2299, seed=3)
D = make("DELTA", 4608, "ascii", seed=4, ext="TXT")
E = make("EPSILON", 0, seed=5)
F = make("ZETA", 511, "data", seed=6, ext="DAT")
G = make("ETA", 2304 * 3 - 10, seed=7)
H = make("lower", 1, "text", seed=8, ext="txt")
BIG = make("BIG", 65535, seed=9)

for kind in ("cas", "dsk", "bin"):
    case("%s new single" % kind, lambda: history(kind, [([A], False)]))
    case("%s new single append flag" % kind, lambda: history(kind, [([A], True)]))
    case("%s two steps append" % kind, lambda: history(kind, [([A], False), ([B], True)]))
    case("%s two steps no append" % kind, lambda: history(kind, [([A], False), ([B], False)]))
    case("%s many steps" % kind, lambda: history(kind, [([A, B], False), ([C], True), ([D, E], True), ([F], True), ([G, H], True)]))
    case("%s same name twice" % kind, lambda: history(kind, [([A], False), ([A], True), ([A], True)]))
    case("%s empty additions" % kind, lambda: history(kind, [([], False), ([A], True), ([], True)]))
    case("%s boundary lengths" % kind, lambda: history(kind, [([make("L%d" % n, n, ["ml", "basic", "ascii"][n % 3], seed=n)], True) for n in (0, 1, 254, 255, 256, 510, 2293, 2294, 2299, 2304, 4603)]))
    case("%s big files" % kind, lambda: history(kind, [([BIG], False), ([BIG, A], True), ([B], True)]))
    case("%s wrong type on reopen" % kind, lambda: history(kind, [([A, B], False), ([C], True, {"cas": "dsk", "dsk": "cas", "bin": "cas"}[kind])]))
    case("%s untyped reopen" % kind, lambda: history(kind, [([A, B], False), ([C], True, "none")]))
    case("%s untyped new" % kind, lambda: history(kind, [([A, B], False, "none")]))

# capacity of the disk across appends
case("dsk fill up", lambda: history("dsk", [([make("F%d" % i, 2304 * 4, seed=i)], True) for i in range(16)]))
case("dsk fill up small", lambda: history("dsk", [([make("S%d" % (i * 12 + j), j, seed=j) for j in range(12)], True) for i in range(7)]))
# cassette images at and beyond the size of a disk image
def cas_of_size(count):
    return [make("T%d" % i, 60000, seed=i) for i in range(count)]
case("cas larger than disk", lambda: history("cas", [(cas_of_size(3), False), ([A], True), ([B], True)]))
def exact_cas():
    # a tape whose total size is exactly the size of a disk image
    base = CassetteFile()
    base.add_files([make("X", 1000, seed=1)])
    overhead = len(base.get_buffer()) - 1000
    target = DiskConstants.IMAGE_SIZE
    # search a data length giving the exact size
    for n in range(150000, 161280):
        blocks = (n + 254) // 255
        if n % 255 == 0:
            pass
        t = CassetteFile()
        # size = 2*(128+128) + 21 + blocks*6 + n + 6
        size = 512 + 21 + 6 * ((n // 255) + (1 if n % 255 else 0)) + n + 6
        if size == target:
            return n
    return None
def exact_history():
    n = exact_cas()
    f = CoCoFile(name="EXACT", extension="BIN", type=NumericValue(2), data_type=NumericValue(0), load_addr=NumericValue(0), exec_addr=NumericValue(0), data=[0x55, 0x3C, 0xFF, 0x00] * (n // 4) + [0] * (n % 4))
    return [n] + history("cas", [([f], False), ([A], True)])
# data longer than 65535 cannot be built through NumericValue(len) on disk, but a tape takes it
case("cas exactly disk size", exact_history)

# sniffing of foreign content
def sniff(content, kind="none", files=(), append=True):
    global WORK
    WORK = tempfile.mkdtemp()
    try:
        path = os.path.join(WORK, "foreign.img")
        with open(path, "wb") as handle:
            handle.write(bytes(bytearray(content)))
        return session(path, kind, list(files), append)
    finally:
        shutil.rmtree(WORK)
        WORK = None
case("sniff empty file", lambda: sniff([]))
case("sniff garbage small", lambda: sniff(payload(1000, 1)))
case("sniff garbage disk sized", lambda: sniff(payload(DiskConstants.IMAGE_SIZE, 2)))
case("sniff blank disk", lambda: sniff([0xFF] * DiskConstants.IMAGE_SIZE))
case("sniff blank disk add dsk", lambda: sniff([0xFF] * DiskConstants.IMAGE_SIZE, "dsk", [A]))
case("sniff blank disk add cas", lambda: sniff([0xFF] * DiskConstants.IMAGE_SIZE, "cas", [A]))
case("sniff zero disk", lambda: sniff([0x00] * DiskConstants.IMAGE_SIZE, "dsk", [A]))
case("sniff short disk", lambda: sniff([0xFF] * (DiskConstants.IMAGE_SIZE - 1), "dsk", [A]))
case("sniff long disk", lambda: sniff([0xFF] * (DiskConstants.IMAGE_SIZE + 256), "dsk", [A]))
case("sniff tape header no eof", lambda: sniff([0x55, 0x3C, 0x00, 0x0F] + list(b"NAME    ") + [2, 0, 0, 0, 0, 0, 0, 0, 0x55, 0x55, 0x3C, 0x01, 0x01, 0x07, 0x09, 0x55], "cas", [A]))
case("sniff tape unknown block", lambda: sniff([0x55, 0x3C, 0x00, 0x0F] + list(b"NAME    ") + [2, 0, 0, 0, 0, 0, 0, 0, 0x55, 0x55, 0x3C, 0x05, 0x01, 0x07, 0x09, 0x55], "cas", [A]))
case("sniff garbage add bin", lambda: sniff(payload(50, 3), "bin", [A]))
case("sniff garbage add bin no append", lambda: sniff(payload(50, 3), "bin", [A], append=False))

# pieces of VirtualFile
def pieces():
    vf = VirtualFile()
    out = [list(vf.list_files()), list(vf.list_files(filenames=["A"]))]
    vf.add_coco_file(A); vf.add_coco_file(B); vf.add_coco_file(A)
    out.append([f.name for f in vf.list_files()])
    out.append([f.name for f in vf.list_files(filenames=["BETA"])])
    out.append([f.name for f in vf.list_files(filenames=[])])
    out.append(vf.delete_coco_file("ALPHA"))
    out.append(vf.save_virtual_file())
    return out
case("virtual file pieces", pieces)
def get_files(content):
    source = SourceFile("unused", file_type=SourceFileType.BINARY)
    source.set_buffer(content)
    files, kind = VirtualFile(source).get_coco_files()
    return [[show_file(f) for f in files], str(kind)]
tape = CassetteFile(); tape.add_files([A, B, F]); tape = tape.get_buffer()
disk = DiskFile(); disk.add_files([A, B, C, D]); disk = disk.get_buffer()
case("get_coco_files tape", lambda: get_files(list(tape)))
case("get_coco_files disk", lambda: get_files(list(disk)))
case("get_coco_files empty", lambda: get_files([]))
case("get_coco_files truncated tape", lambda: get_files(list(tape)[:300]))
case("get_coco_files truncated tape in header", lambda: get_files(list(tape)[:262]))
case("save without source", lambda: VirtualFile(None, VirtualFileType.CASSETTE).save_virtual_file())
case("open without source", lambda: VirtualFile(None, VirtualFileType.CASSETTE).open_virtual_file())
def container(cls, files):
    c = cls()
    ret = c.add_files(files)
    out = [ret, digest(c.get_buffer()), digest(c.original_buffer)]
    c2 = cls(buffer=list(c.get_buffer()))
    out.append([digest(c2.original_buffer), c2.get_buffer() is c2.buffer])
    c3 = cls(buffer=[])
    out.append([len(c3.buffer), len(c3.original_buffer)])
    try:
        out.append([f.name for f in c2.list_files()])
    except BaseException as error:
        out.append([type(error).__name__, str(error)])
    return out
for cls in (CassetteFile, DiskFile, BinaryFile):
    case("container %s" % cls.__name__, lambda: container(cls, [A, B, F]))
    case("container %s with empty file" % cls.__name__, lambda: container(cls, [A, E, B]))
case("add_files bad list", lambda: CassetteFile().add_files(None))
case("add_files generator", lambda: [CassetteFile().add_files(f for f in [A, B])])

# the command line front ends
def run_cli(work, script, argv):
    proc = subprocess.run([sys.executable, os.path.join(tree, script)] + argv, cwd=work, stdout=subprocess.PIPE,
                          stderr=subprocess.PIPE, universal_newlines=True, env=dict(os.environ, PYTHONPATH=tree))
    err = proc.stderr.strip().splitlines()
    produced = {name: file_state(os.path.join(work, name)) for name in sorted(os.listdir(work))}
    return {"rc": proc.returncode, "out": proc.stdout, "err": err[-1:] if err else [], "files": produced}

PROGRAMS = {
    "one.asm": "        NAM ONE\n        ORG $0E00\nSTART   LDA #$01\n        STA $0400\n        RTS\n        END START\n",
    "two.asm": "        NAM TWO\n        ORG $2000\nBEGIN   LDX #$0400\nLOOP    CLR ,X+\n        CMPX #$0600\n        BNE LOOP\n        RTS\n        FCB 1,2,3,4,5\n        END BEGIN\n",
    "noname.asm": "        ORG $3000\n        NOP\n        RTS\n",
    "big.asm": "        NAM BIG\n        ORG $1000\n" + "".join("        FDB $%04X\n" % (i * 37 % 65536) for i in range(1500)) + "        END\n",
    "bad.asm": "        NAM BAD\n        LDA #\n",
}
def cli_history(commands):
    work = tempfile.mkdtemp()
    try:
        for name, text in PROGRAMS.items():
            with open(os.path.join(work, name), "w") as handle:
                handle.write(text)
        return [run_cli(work, script, argv) for script, argv in commands]
    finally:
        shutil.rmtree(work)
for kind, flag in (("cas", "--to_cas"), ("dsk", "--to_dsk"), ("bin", "--to_bin")):
    img = "out." + kind
    case("cli %s create append append list" % kind, lambda: cli_history([
        ("assembler.py", ["one.asm", flag, img]),
        ("assembler.py", ["two.asm", flag, img, "--append"]),
        ("assembler.py", ["big.asm", flag, img, "--append"]),
        ("file_util.py", [img, "--list"]),
    ]))
    case("cli %s overwrite refused" % kind, lambda: cli_history([
        ("assembler.py", ["one.asm", flag, img]),
        ("assembler.py", ["two.asm", flag, img]),
        ("file_util.py", [img, "--list"]),
    ]))
    case("cli %s append to nothing" % kind, lambda: cli_history([
        ("assembler.py", ["one.asm", flag, img, "--append"]),
        ("file_util.py", [img, "--list"]),
    ]))
    case("cli %s no name" % kind, lambda: cli_history([
        ("assembler.py", ["noname.asm", flag, img]),
        ("assembler.py", ["noname.asm", flag, img, "--name", "GIVEN", "--append"]),
        ("file_util.py", [img, "--list"]),
    ]))
    case("cli %s bad program" % kind, lambda: cli_history([("assembler.py", ["bad.asm", flag, img])]))
case("cli all three at once", lambda: cli_history([
    ("assembler.py", ["one.asm", "--to_bin", "o.bin", "--to_cas", "o.cas", "--to_dsk", "o.dsk", "--symbols", "--print"]),
    ("assembler.py", ["two.asm", "--to_bin", "o.bin", "--to_cas", "o.cas", "--to_dsk", "o.dsk", "--append"]),
    ("file_util.py", ["o.cas", "--list"]), ("file_util.py", ["o.dsk", "--list"]), ("file_util.py", ["o.bin", "--list"]),
]))
case("cli cross type append", lambda: cli_history([
    ("assembler.py", ["one.asm", "--to_cas", "img"]),
    ("assembler.py", ["two.asm", "--to_dsk", "img", "--append"]),
    ("assembler.py", ["two.asm", "--to_bin", "img", "--append"]),
    ("file_util.py", ["img", "--list"]),
]))
case("cli copy between images", lambda: cli_history([
    ("assembler.py", ["one.asm", "--to_cas", "a.cas"]),
    ("assembler.py", ["two.asm", "--to_cas", "a.cas", "--append"]),
    ("assembler.py", ["big.asm", "--to_dsk", "b.dsk"]),
    ("file_util.py", ["a.cas", "--to_dsk", "b.dsk", "--append"]),
    ("file_util.py", ["b.dsk", "--to_cas", "c.cas"]),
    ("file_util.py", ["b.dsk", "--to_cas", "a.cas", "--append", "--files", "big"]),
    ("file_util.py", ["a.cas", "--list"]), ("file_util.py", ["b.dsk", "--list"]), ("file_util.py", ["c.cas", "--list"]),
    ("file_util.py", ["a.cas", "--to_bin", "x.bin"]),
    ("file_util.py", ["c.cas", "--to_dsk", "b.dsk"]),
]))

json.dump(results, sys.stdout, sort_keys=True, default=repr)
'''

DRIVERS = (("matrix", MATRIX), ("history", HISTORY))


def run(tree, merged, failures):
    tree = os.path.abspath(tree)
    for label, driver in DRIVERS:
        with tempfile.NamedTemporaryFile("w", suffix=".py", delete=False) as handle:
            handle.write(driver)
            script = handle.name
        try:
            env = dict(os.environ, PYTHONPATH=tree, PYTHONDONTWRITEBYTECODE="1")
            proc = subprocess.run([sys.executable, script], cwd=tree, env=env, stdout=subprocess.PIPE,
                                  stderr=subprocess.PIPE, universal_newlines=True)
        finally:
            os.unlink(script)
        if proc.returncode != 0:
            failures.append("driver %s failed in %s\n%s" % (label, tree, proc.stderr))
            return
        for name, value in json.loads(proc.stdout).items():
            merged[label + ": " + name] = value


def main():
    if len(sys.argv) != 3:
        print(__doc__)
        sys.exit(2)
    left, right, failures = {}, {}, []
    workers = [threading.Thread(target=run, args=(sys.argv[1], left, failures)),
               threading.Thread(target=run, args=(sys.argv[2], right, failures))]
    for worker in workers:
        worker.start()
    for worker in workers:
        worker.join()
    if failures:
        print("\n".join(failures))
        sys.exit(1)
    bad = [name for name in sorted(set(left) | set(right)) if left.get(name) != right.get(name)]
    for name in bad:
        print("DIFFERENT:", name)
        print("   A:", json.dumps(left.get(name))[:700])
        print("   B:", json.dumps(right.get(name))[:700])
    errors = sum(1 for value in left.values() if "exc" in value)
    print("%d cases compared (%d of them error cases), %d differ" % (len(left), errors, len(bad)))
    sys.exit(1 if bad else 0)


if __name__ == "__main__":
    main()
