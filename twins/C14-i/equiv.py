#!/usr/bin/env python
"""
Differential check: runs the same battery of cases against two source trees
(one subprocess per tree, the tree first on sys.path, a private scratch
directory as cwd) and compares every observable result.

usage: equiv.py <treeA> <treeB>      exit 0 = all cases agree, 1 = otherwise
"""
import json
import os
import subprocess
import sys
import tempfile

DRIVER = r'''
import contextlib, hashlib, io, json, os, sys, types, subprocess

TREE, WORK = sys.argv[1], sys.argv[2]
sys.path.insert(0, TREE)
os.chdir(WORK)
RESULTS = {}


def digest(data):
    data = bytes(data)
    return {"len": len(data), "sha": hashlib.sha256(data).hexdigest(), "head": data[:48].hex()}


def snapshot(directory="."):
    out = {}
    for root, _, files in os.walk(directory):
        for name in sorted(files):
            path = os.path.join(root, name)
            with open(path, "rb") as handle:
                out[os.path.relpath(path, directory)] = digest(handle.read())
    return dict(sorted(out.items()))


def outcome(func, *args, **kwargs):
    """Runs func, returns its (jsonable) value or the exception type/message, plus stdout."""
    stream = io.StringIO()
    try:
        with contextlib.redirect_stdout(stream):
            value = func(*args, **kwargs)
        result = {"value": value}
    except SystemExit as error:
        result = {"exit": repr(error.code)}
    except BaseException as error:
        result = {"raised": type(error).__name__, "message": str(error)}
    result["stdout"] = stream.getvalue()
    return result


def case(name, func, *args, **kwargs):
    assert name not in RESULTS, name
    RESULTS[name] = outcome(func, *args, **kwargs)


def describe(coco_file):
    """Everything observable about a CoCoFile returned by a reader."""
    def val(v):
        try:
            return [type(v).__name__, v.hex(), v.int]
        except Exception as error:
            return [type(v).__name__, "ERR", str(error)]
    return {
        "name": coco_file.name, "extension": coco_file.extension,
        "type": val(coco_file.type), "data_type": val(coco_file.data_type),
        "gaps": val(coco_file.gaps), "load": val(coco_file.load_addr), "exec": val(coco_file.exec_addr),
        "data": digest(coco_file.data), "ignore_gaps": coco_file.ignore_gaps, "str": str(coco_file),
    }


def in_dir(name):
    """Creates and enters a fresh sub-directory of the scratch dir; returns a function to leave."""
    path = os.path.join(WORK, name)
    os.makedirs(path)
    os.chdir(path)
    return lambda: os.chdir(WORK)


def assemble(case_name, source, to_bin=None, to_cas=None, to_dsk=None, name=None, append=False,
             symbols=False, listing=False, width=100, pre=None):
    """Runs assembler.main() in a fresh directory; records stdout, outcome, files and what the readers list."""
    import assembler
    import file_util
    leave = in_dir(case_name)
    try:
        with open("prog.asm", "w") as handle:
            handle.write(source)
        if pre:
            pre()
        args = types.SimpleNamespace(filename="prog.asm", symbols=symbols, print=listing, to_bin=to_bin,
                                     to_cas=to_cas, to_dsk=to_dsk, name=name, append=append, width=width)
        result = outcome(assembler.main, args)
        result["files"] = snapshot()
        listings = {}
        for image in (to_cas, to_dsk, to_bin):
            if image and os.path.exists(image):
                fu_args = types.SimpleNamespace(host_filename=image, append=False, list=True, to_bin=None,
                                                to_cas=None, to_dsk=None, files=None)
                listings[image] = outcome(file_util.main, fu_args)
        result["listings"] = listings
        RESULTS[case_name] = result
    finally:
        leave()


def program(origin=None, nam=None, size=4, end=None, fill=0x12):
    lines = []
    if nam is not None:
        lines.append("        NAM {}".format(nam))
    if origin is not None:
        lines.append("        ORG {}".format(origin))
    lines.append("START   LDA #$01")
    body = size - 2
    while body > 0:
        chunk = min(body, 8)
        lines.append("        FCB " + ",".join("${:02X}".format((fill + body + k) & 0xFF) for k in range(chunk)))
        body -= chunk
    lines.append("        END {}".format(end) if end else "        END")
    return "\n".join(lines) + "\n"


# ---- C14: every tape image the writer can produce, byte for byte -----------------------------------------
import types
from cocoasm.virtualfiles.cassette import CassetteFile
from cocoasm.virtualfiles.disk import DiskFile
from cocoasm.virtualfiles.coco_file import CoCoFile
from cocoasm.virtualfiles.virtual_file import VirtualFile, VirtualFileType
from cocoasm.virtualfiles.source_file import SourceFile, SourceFileType
from cocoasm.values import NumericValue, NoneValue, AddressValue


def full(buffer):
    """the complete content of a buffer plus the type of the container and of its items"""
    items = list(buffer)
    return {"type": type(buffer).__name__, "bytes": [b if type(b) is int else repr(b) for b in items],
            "item_types": sorted({type(b).__name__ for b in items})}


def short(value):
    """a digest of any json-able value, plus its beginning, to keep the result file small"""
    text = json.dumps(value, sort_keys=True)
    return [hashlib.sha256(text.encode()).hexdigest()[:20], len(text), text[:60]]


PATTERNS = {
    "ramp": lambda n: [i & 0xFF for i in range(n)],
    "ff": lambda n: [0xFF] * n,
    "zero": lambda n: [0] * n,
    "sync": lambda n: ([0x55, 0x3C, 0x01, 0xFF, 0x00] * (n // 5 + 1))[:n],
    "prime": lambda n: [(i * 89 + 7) % 251 for i in range(n)],
}
LENGTHS = list(range(0, 530)) + [763, 764, 765, 766, 767, 1019, 1020, 1021, 1275, 4000, 65535]


def data_blocks(pattern, length, gaps=None, container=list):
    cassette = CassetteFile()
    data = container(PATTERNS[pattern](length))
    result = cassette.append_data_blocks(data) if gaps is None else cassette.append_data_blocks(data, gaps)
    return [result, full(cassette.get_buffer()), list(data) == PATTERNS[pattern](length)]


for pattern in PATTERNS:
    RESULTS["data blocks every length " + pattern] = {"value": {
        str(length): short(outcome(data_blocks, pattern, length)) for length in LENGTHS}}
for gaps in (True, False, 1, 0, "yes"):
    RESULTS["data blocks gaps={!r}".format(gaps)] = {"value": {
        str(length): short(outcome(data_blocks, "prime", length, gaps)) for length in (0, 1, 254, 255, 256, 509, 510, 511, 765, 766, 1000)}}
for container in (tuple, bytes, bytearray):
    RESULTS["data blocks from " + container.__name__] = {"value": {
        str(length): short(outcome(data_blocks, "ramp", length, None, container)) for length in (0, 1, 254, 255, 256, 510, 511, 700)}}
def data_blocks_raw(data, start=None):
    cassette = CassetteFile(buffer=start)
    cassette.append_data_blocks(data)
    return full(cassette.get_buffer())


case("data blocks keyword gaps", lambda: full((lambda c: (c.append_data_blocks(raw_bytes=[1] * 300, gaps=True), c)[1])(CassetteFile()).get_buffer()))
case("data blocks big values", lambda: data_blocks_raw([0, 255, 256, 1000, -1, 70000]))
case("data blocks floats", lambda: data_blocks_raw([1.5, 2.5]))
case("data blocks none", lambda: data_blocks_raw(None))
case("data blocks int", lambda: data_blocks_raw(5))
case("data blocks onto existing", lambda: data_blocks_raw([9, 8, 7], start=[1, 2, 3]))


def make_file(name="PROG", length=10, seed=0, type_val=2, data_type=0, load=0x0E00, execute=0x0E10, **extra):
    return CoCoFile(name=name, extension="bin", type=NumericValue(type_val), data_type=NumericValue(data_type),
                    load_addr=load if not isinstance(load, int) else NumericValue(load),
                    exec_addr=execute if not isinstance(execute, int) else NumericValue(execute),
                    data=[(i * 5 + seed) & 0xFF for i in range(length)], **extra)


def header_of(coco_file):
    cassette = CassetteFile()
    result = cassette.append_header(coco_file)
    return [result, full(cassette.get_buffer())]


NAMES = ["", "A", "AB", "SEVENCH", "EIGHTCHR", "NINECHARS", "TWELVECHARS1", "lower", "Mi Xed", "  lead", "trail  ", "\x00\x01", "\x7f~", "\xe9t\xe9", "€",
         "12345678", "!@#$%^&*", "A\tB", "        ", "UUUUUUUU", "<<<<<<<<"]
RESULTS["headers by name"] = {"value": {repr(name): outcome(header_of, make_file(name=name)) for name in NAMES}}
RESULTS["headers by type"] = {"value": {"{}/{}".format(t, d): outcome(header_of, make_file(type_val=t, data_type=d))
                                        for t in (0, 1, 2, 3, 255, 256) for d in (0, 1, 0xFF, 0x100)}}
ADDRESSES = [0, 1, 0x7F, 0x80, 0xFF, 0x100, 0x101, 0x0E00, 0x7FFF, 0x8000, 0xFF00, 0xFFFF]
RESULTS["headers by address"] = {"value": {"{:04X}/{:04X}".format(load, execute): outcome(header_of, make_file(load=load, execute=execute))
                                           for load in ADDRESSES for execute in ADDRESSES}}
RESULTS["headers by address kind"] = {"value": {label: outcome(header_of, make_file(load=value, execute=value)) for label, value in (
    ("none", NoneValue()), ("address", AddressValue(0x1234)), ("address small", AddressValue(5)), ("address 3 digits", AddressValue(0x123)),
    ("numeric str", NumericValue("$0E00")), ("numeric short str", NumericValue("$0E")), ("numeric hint4", NumericValue(5, size_hint=4)),
    ("numeric negative", NumericValue(-2)), ("numeric negative wide", NumericValue(-300)), ("python int", 5), ("python none", None))}}
case("header default coco file", header_of, CoCoFile())
case("header name none", header_of, make_file(name=None))
case("header name bytes", header_of, make_file(name=b"BYTES"))
case("header name list", header_of, make_file(name=["A", "B"]))
case("header not a coco file", header_of, "nope")


def names_only(name):
    cassette = CassetteFile()
    return [cassette.append_name(name), full(cassette.get_buffer())]


RESULTS["append_name"] = {"value": {repr(name): outcome(names_only, name) for name in NAMES + [None, 5, b"AB", ["A", "BC"], ("X",)]}}


def trailers():
    cassette = CassetteFile()
    out = []
    for step in (cassette.append_eof, cassette.append_leader, cassette.append_blank, cassette.append_eof, cassette.append_blank, cassette.append_leader):
        out.append([step(), len(cassette.get_buffer())])
    return [out, full(cassette.get_buffer())]


case("trailers", trailers)


def tape(files, start=None):
    cassette = CassetteFile(buffer=start)
    cassette.add_files(files)
    return cassette


def whole_tape(*specs, start=None):
    cassette = tape([make_file(**spec) for spec in specs], start)
    relisted = [describe(f) for f in CassetteFile(buffer=list(cassette.get_buffer())).list_files()]
    return {"tape": full(cassette.get_buffer()), "listing": relisted}


for length in (0, 1, 2, 254, 255, 256, 257, 509, 510, 511, 765, 766, 1024, 5000, 65535):
    RESULTS["tape one file {}".format(length)] = {"value": short(outcome(whole_tape, dict(length=length)))}
case("tape empty list", whole_tape)
RESULTS["tape three files"] = {"value": short(outcome(whole_tape, dict(name="ONE", length=10), dict(name="TWO", length=600, seed=1, type_val=0),
                                                      dict(name="THREE", length=255, seed=2, type_val=1, data_type=0xFF)))}
RESULTS["tape zero length in middle"] = {"value": short(outcome(whole_tape, dict(name="ONE", length=10), dict(name="NONE", length=0), dict(name="THREE", length=20)))}
RESULTS["tape onto existing buffer"] = {"value": short(outcome(whole_tape, dict(name="NEW", length=300), start=[0, 0, 0x55, 0x55]))}
RESULTS["tape gaps flag file"] = {"value": short(outcome(whole_tape, dict(name="GAPPY", length=600, gaps=NumericValue(0xFF))))}
RESULTS["tape same file twice"] = {"value": short(outcome(lambda: (lambda f: full(tape([f, f]).get_buffer()))(make_file(length=300))))}
case("tape add_file returns", lambda: CassetteFile().add_file(make_file()))
case("tape add_files returns", lambda: CassetteFile().add_files([make_file()]))
case("tape bad member", lambda: full(tape([make_file(), "junk"]).get_buffer()))


def filtered(filenames):
    buffer = tape([make_file(name="AA", length=5), make_file(name="BB", length=6, seed=1), make_file(name="AA", length=7, seed=2)]).get_buffer()
    return [describe(f) for f in CassetteFile(buffer=buffer).list_files(filenames)]


for filenames in (None, [], ["AA"], ["AA      "], ["BB      ", "AA      "], ["ZZ"], "AA      ", ("BB      ",)):
    case("tape listing filter {!r}".format(filenames), filtered, filenames)

TAPE = list(tape([make_file(name="TRUNC", length=300)]).get_buffer())
RESULTS["tape truncated"] = {"value": {str(cut): outcome(lambda cut=cut: [describe(f) for f in CassetteFile(buffer=TAPE[:len(TAPE) - cut]).list_files()])
                                       for cut in list(range(0, 12)) + [150, 262, 263, 264, 270, 300, 400, 560, 561, 562, 570, 575, 580, 585, 700, len(TAPE)]}}
RESULTS["tape read_file at"] = {"value": {str(pointer): outcome(lambda pointer=pointer: (lambda f, p: [describe(f) if f else f, p])(*CassetteFile(buffer=list(TAPE)).read_file(pointer)))
                                          for pointer in (0, 1, 255, 256, 257, 258, 300, len(TAPE) - 6, len(TAPE), len(TAPE) + 5)}}
RESULTS["tape read name at"] = {"value": {str(pointer): outcome(lambda pointer=pointer: CassetteFile(buffer=list(TAPE)).read_coco_file_name(pointer))
                                          for pointer in (0, 260, 261, len(TAPE) - 9, len(TAPE) - 8, len(TAPE) - 7, len(TAPE) - 1, len(TAPE))}}
case("tape read name undecodable", lambda: CassetteFile(buffer=[0xC3, 0x28] + [65] * 8).read_coco_file_name(0))
RESULTS["tape read_word"] = {"value": {"{} {}".format(label, pointer): outcome(lambda b=buffer, p=pointer: (lambda v: [type(v).__name__, v.int, v.hex()])(CassetteFile(buffer=list(b)).read_word(p)))
                                       for label, buffer in (("short", [1]), ("two", [1, 2]), ("ff", [0xFF, 0xFF, 0, 0]), ("mixed", [0, 0x12, 0x34, 0x56]), ("empty", []))
                                       for pointer in (0, 1, 2, 3, 4, 10)}}


# through VirtualFile and the two command line tools


def virtual_save(append, preexisting):
    leave = in_dir("vsave{}".format(len(RESULTS)))
    try:
        if preexisting == "tape":
            SourceFile.write_binary_contents("t.cas", list(tape([make_file(name="OLD", length=260)]).get_buffer()))
        elif preexisting == "junk":
            SourceFile.write_binary_contents("t.cas", [1, 2, 3])
        elif preexisting == "disk":
            disk = DiskFile()
            disk.add_file(make_file(name="ONDISK", length=20))
            SourceFile.write_binary_contents("t.cas", disk.get_buffer())
        virtual_file = VirtualFile(SourceFile("t.cas", file_type=SourceFileType.BINARY), VirtualFileType.CASSETTE)
        steps = [outcome(virtual_file.open_virtual_file)]
        virtual_file.add_coco_file(make_file(name="NEW1", length=256))
        virtual_file.add_coco_file(make_file(name="NEW2", length=3, seed=9, type_val=0))
        steps.append(outcome(virtual_file.save_virtual_file, append_mode=append))
        return {"steps": steps, "files": snapshot()}
    finally:
        leave()


for append in (False, True):
    for preexisting in (None, "tape", "junk", "disk"):
        case("virtual file save append={} existing={}".format(append, preexisting), virtual_save, append, preexisting)


def cli_session(name):
    leave = in_dir("cli_" + name)
    try:
        with open("one.asm", "w") as handle:
            handle.write("        NAM first\n        ORG $0E00\nSTART   LDA #1\n" + "".join("        FDB ${:04X}\n".format(i * 257 & 0xFFFF) for i in range(200)) + "        END START\n")
        with open("two.asm", "w") as handle:
            handle.write("        ORG $2000\n        RTS\n")
        runs = []
        for argv in (["assembler.py", "one.asm", "--to_cas", "a.cas"], ["assembler.py", "two.asm", "--to_cas", "a.cas", "--name", "second"],
                     ["assembler.py", "two.asm", "--to_cas", "a.cas", "--name", "second", "--append"], ["assembler.py", "two.asm", "--to_cas", "b.cas"],
                     ["file_util.py", "a.cas", "--list"], ["assembler.py", "one.asm", "--to_dsk", "d.dsk"], ["assembler.py", "two.asm", "--to_dsk", "d.dsk", "--name", "TWO", "--append"],
                     ["file_util.py", "d.dsk", "--to_cas", "fromdsk.cas"], ["file_util.py", "fromdsk.cas", "--list"], ["file_util.py", "a.cas", "--to_cas", "copy.cas", "--files", "second"],
                     ["file_util.py", "a.cas", "--to_cas", "copy.cas", "--append"], ["file_util.py", "copy.cas", "--list"], ["file_util.py", "a.cas", "--to_bin", "x.bin", "--files", "FIRST"]):
            proc = subprocess.run([sys.executable, os.path.join(TREE, argv[0])] + argv[1:], capture_output=True, text=True)
            runs.append([argv, proc.returncode, proc.stdout, proc.stderr.replace(TREE, "<tree>")])
        return {"runs": runs, "files": snapshot()}
    finally:
        leave()


case("command line session", cli_session, "a")

# ---- i: the state of the buffer when appending a header fails half way ---------------------------------------


def header_failure(coco_file):
    cassette = CassetteFile()
    result = outcome(cassette.append_header, coco_file)
    return [result, full(cassette.get_buffer())]


class Broken(object):
    """stands in for a Value whose accessors fail"""
    def __init__(self, **working):
        self.__dict__.update(working)

    def __getattr__(self, name):
        raise AttributeError("broken value has no " + name)


GOOD = NumericValue(0x1234)
BROKEN_FILES = {
    "no type": types.SimpleNamespace(name="AB", type=Broken(), data_type=NumericValue(0), load_addr=GOOD, exec_addr=GOOD),
    "no data type": types.SimpleNamespace(name="AB", type=NumericValue(2), data_type=Broken(), load_addr=GOOD, exec_addr=GOOD),
    "no load": types.SimpleNamespace(name="AB", type=NumericValue(2), data_type=NumericValue(0), load_addr=Broken(), exec_addr=GOOD),
    "load half": types.SimpleNamespace(name="AB", type=NumericValue(2), data_type=NumericValue(0), load_addr=Broken(high_byte=lambda: 7), exec_addr=GOOD),
    "no exec": types.SimpleNamespace(name="AB", type=NumericValue(2), data_type=NumericValue(0), load_addr=GOOD, exec_addr=Broken()),
    "exec half": types.SimpleNamespace(name="AB", type=NumericValue(2), data_type=NumericValue(0), load_addr=GOOD, exec_addr=Broken(high_byte=lambda: 7)),
    "no exec attr": types.SimpleNamespace(name="AB", type=NumericValue(2), data_type=NumericValue(0), load_addr=GOOD),
    "low byte text": types.SimpleNamespace(name="AB", type=NumericValue(2), data_type=NumericValue(0), load_addr=GOOD,
                                           exec_addr=types.SimpleNamespace(high_byte=lambda: 1, low_byte=lambda: "x")),
    "name none": types.SimpleNamespace(name=None, type=NumericValue(2), data_type=NumericValue(0), load_addr=GOOD, exec_addr=GOOD),
    "all fine": types.SimpleNamespace(name="AB", type=NumericValue(2), data_type=NumericValue(0), load_addr=GOOD, exec_addr=GOOD),
    "wide values": types.SimpleNamespace(name="AB", type=NumericValue(0x1FF), data_type=NumericValue(0x300), load_addr=GOOD, exec_addr=GOOD),
}
for label, broken in BROKEN_FILES.items():
    case("header failure " + label, header_failure, broken)


def add_file_failure(coco_file):
    cassette = CassetteFile()
    result = outcome(cassette.add_file, coco_file)
    return [result, short(full(cassette.get_buffer()))]


for label, broken in BROKEN_FILES.items():
    case("add_file failure " + label, add_file_failure, broken)


def counting_reads():
    """list_files must call read_file once per file plus once for the end, with the same pointers"""
    calls = []

    class Spy(CassetteFile):
        def read_file(self, pointer):
            calls.append(pointer)
            return super().read_file(pointer)

    spy = Spy(buffer=list(tape([make_file(name="A", length=3), make_file(name="B", length=300), make_file(name="C", length=1)]).get_buffer()))
    names = [f.name for f in spy.list_files()]
    first = list(calls)
    del calls[:]
    names_filtered = [f.name for f in spy.list_files(["B       "])]
    return [names, first, names_filtered, list(calls)]


case("list_files read_file calls", counting_reads)
case("list_files error in second file", lambda: [describe(f) for f in CassetteFile(buffer=TAPE + TAPE[:300]).list_files()])
case("list_files returns fresh list", lambda: (lambda c: c.list_files() is not c.list_files())(CassetteFile(buffer=list(TAPE))))
case("list_files result type", lambda: type(CassetteFile(buffer=list(TAPE)).list_files()).__name__ + type(CassetteFile(buffer=list(TAPE)).list_files(["X"])).__name__)

json.dump(RESULTS, sys.stdout)
'''


def run_tree(tree):
    tree = os.path.abspath(tree)
    with tempfile.TemporaryDirectory() as work:
        driver = os.path.join(work, "_driver.py")
        with open(driver, "w") as handle:
            handle.write(DRIVER)
        scratch = os.path.join(work, "w")
        os.mkdir(scratch)
        env = dict(os.environ, PYTHONPATH=tree, PYTHONDONTWRITEBYTECODE="1", PYTHONHASHSEED="0")
        proc = subprocess.run(
            [sys.executable, driver, tree, scratch],
            cwd=scratch, env=env, capture_output=True, text=True,
        )
        if proc.returncode != 0:
            print("driver failed for", tree)
            print(proc.stdout[-2000:])
            print(proc.stderr[-4000:])
            sys.exit(1)
        return json.loads(proc.stdout)


def main():
    if len(sys.argv) != 3:
        print(__doc__)
        sys.exit(2)
    res_a = run_tree(sys.argv[1])
    res_b = run_tree(sys.argv[2])
    names = list(res_a.keys())
    bad = 0
    if names != list(res_b.keys()):
        print("case lists differ")
        bad += 1
    for name in names:
        if res_a[name] != res_b.get(name):
            bad += 1
            print("DIFF in case", name)
            print("  A:", json.dumps(res_a[name])[:600])
            print("  B:", json.dumps(res_b.get(name))[:600])
    print("{} cases compared, {} differ".format(len(names), bad))
    sys.exit(1 if bad else 0)


if __name__ == "__main__":
    main()
