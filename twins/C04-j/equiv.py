#!/usr/bin/env python
"""
Differential demonstration: runs the same inputs through the code of two source
trees (one subprocess per tree, the tree first on sys.path and as cwd) and
compares every observable result.

usage: equiv.py <treeA> <treeB>      exit 0 = all cases agree, 1 = a difference
"""
import json
import os
import subprocess
import sys
import tempfile

WORKER = r'''
import contextlib, io, json, os, subprocess, sys, tempfile

tree = os.path.abspath(sys.argv[1])
sys.path.insert(0, tree)
os.chdir(tree)
cases = json.load(sys.stdin)

from cocoasm.program import Program


def describe_exc(error):
    info = {"type": type(error).__name__, "str": str(error)}
    if hasattr(error, "value"):
        info["value"] = str(error.value)
    statement = getattr(error, "statement", None)
    if statement is not None:
        try:
            info["statement"] = str(statement)
        except Exception as inner:
            info["statement"] = "unprintable " + type(inner).__name__
    return info


def guarded(function):
    try:
        return function()
    except Exception as error:
        return {"error": describe_exc(error)}


def observe_program(lines):
    program = Program()
    try:
        program.process(lines)
    except Exception as error:
        return {"error": describe_exc(error)}
    return {
        "binary": guarded(program.get_binary_array),
        "listing": guarded(program.get_statements),
        "symbols": guarded(program.get_symbol_table),
        "origin": guarded(lambda: program.origin.hex()),
        "name": program.name,
        "detail": guarded(lambda: [
            [s.code_pkg.size, s.code_pkg.max_size, s.fixed_size, s.pcr_size_hint,
             type(s.operand).__name__, list(s.code_pkg.post_byte_choices),
             s.code_pkg.additional_needs_resolution, s.code_pkg.op_code.hex(),
             s.code_pkg.post_byte.hex(), s.code_pkg.additional.hex(), s.code_pkg.address.hex()]
            for s in program.statements]),
    }


def observe_call(code):
    namespace = {}
    try:
        exec(code, namespace)
        return {"result": namespace.get("result")}
    except Exception as error:
        return {"error": describe_exc(error)}


def observe_cli(lines, args, tool="assembler.py", extra_files=None):
    with tempfile.TemporaryDirectory() as work:
        with open(os.path.join(work, "prog.asm"), "w") as handle:
            handle.writelines(lines)
        for name, text in (extra_files or {}).items():
            with open(os.path.join(work, name), "w") as handle:
                handle.write(text)
        before = set(os.listdir(work))
        done = subprocess.run(
            [sys.executable, os.path.join(tree, tool)] + args,
            cwd=work, capture_output=True, text=True,
            env=dict(os.environ, PYTHONPATH=tree, PYTHONDONTWRITEBYTECODE="1"),
        )
        files = {}
        for name in sorted(set(os.listdir(work)) - before):
            with open(os.path.join(work, name), "rb") as handle:
                files[name] = handle.read().hex()
        stderr_tail = done.stderr.strip().splitlines()[-1:] if done.stderr.strip() else []
        return {"code": done.returncode, "stdout": done.stdout, "stderr_tail": stderr_tail, "files": files}


results = []
for case in cases:
    kind = case["kind"]
    if kind == "program":
        results.append(observe_program(case["lines"]))
    elif kind == "call":
        results.append(observe_call(case["code"]))
    elif kind == "cli":
        results.append(observe_cli(case["lines"], case["args"], case.get("tool", "assembler.py"),
                                   case.get("extra_files")))
    else:
        raise SystemExit("unknown case kind " + kind)
json.dump(results, sys.stdout)
'''


def prog(*lines):
    """A program case; every line gets its newline like a line read from a file."""
    return {"kind": "program", "lines": [line + "\n" for line in lines]}


def call(code):
    """A direct library call; the snippet leaves a JSON-friendly value in `result`."""
    return {"kind": "call", "code": code}


def cli(lines, args=("prog.asm", "--print", "--symbols", "--to_bin", "out.bin"), extra_files=None):
    return {"kind": "cli", "lines": [line + "\n" for line in lines], "args": list(args),
            "extra_files": extra_files}


def run_tree(tree, cases):
    with tempfile.TemporaryDirectory() as work:
        worker = os.path.join(work, "worker.py")
        with open(worker, "w") as handle:
            handle.write(WORKER)
        done = subprocess.run(
            [sys.executable, worker, tree], input=json.dumps(cases), capture_output=True, text=True,
            cwd=tree, env=dict(os.environ, PYTHONDONTWRITEBYTECODE="1"),
        )
    if done.returncode != 0:
        print("worker failed for", tree)
        print(done.stderr)
        sys.exit(1)
    return json.loads(done.stdout)


def main(cases):
    if len(sys.argv) != 3:
        print(__doc__)
        sys.exit(2)
    tree_a, tree_b = (os.path.abspath(p) for p in sys.argv[1:3])
    results_a = run_tree(tree_a, cases)
    results_b = run_tree(tree_b, cases)
    differences = 0
    accepted = 0
    for number, (case, a, b) in enumerate(zip(cases, results_a, results_b)):
        if "error" not in a:
            accepted += 1
        if a != b:
            differences += 1
            print("DIFFERENCE in case", number, json.dumps(case)[:300])
            print("   A:", json.dumps(a)[:600])
            print("   B:", json.dumps(b)[:600])
    print("{} cases, {} without error in tree A, {} differences".format(len(cases), accepted, differences))
    sys.exit(1 if differences or len(results_a) != len(cases) or len(results_b) != len(cases) else 0)


# ---------------------------------------------------------------------------
# cases
# ---------------------------------------------------------------------------
CASES = []

TERMS = ["SMALL", "BYTE", "WORD", "HEX2", "HEX4", "BIN8", "CHR", "ZERO", "BEFORE", "AFTER", "3", "$10", "$0100", "0", "255", "256",
         "65535", "NOWHERE"]
OPERATIONS = ["+", "-", "*", "/"]
HEADER = ["SMALL EQU 5", "BYTE  EQU 255", "WORD  EQU 32768", "HEX2  EQU $7F", "HEX4  EQU $0012", "BIN8  EQU %00001111",
          "CHR   EQU 'A", "ZERO  EQU 0", "      ORG $2000", "BEFORE NOP "]
FOOTER = ["AFTER RTS ", "LATE  EQU 7"]
POSITIONS = ["LDA #{}", "LDX #{}", "LDA {}", "LDX {}", "LDA <{}", "LDX >{}", "LDA [{}]", "LDA {},X", "LDA [{},Y]", "LEAX {},PCR",
             "FCB {}", "FDB {}", "RMB {}"]

number = 0
for left in TERMS:
    for right in TERMS:
        operation = OPERATIONS[number % 4]
        position = POSITIONS[number % len(POSITIONS)]
        number += 1
        CASES.append(prog(*(HEADER + ["      " + position.format(left + operation + right)] + FOOTER)))

# every operation in every operand position with a fixed pair of terms, symbol defined after use included
for position in POSITIONS:
    for operation in OPERATIONS:
        for pair in (("SMALL", "2"), ("LATE", "SMALL"), ("HEX4", "ZERO"), ("AFTER", "1"), ("2", "BEFORE"), ("WORD", "WORD")):
            CASES.append(prog(*(HEADER + ["      " + position.format(pair[0] + operation + pair[1])] + FOOTER)))

# symbols that are themselves expressions
CASES.append(prog("ONE   EQU 1", "TWO   EQU ONE+1", "FOUR  EQU TWO*2", "      LDA #FOUR", "      LDA #TWO+1", "      LDX #FOUR-ONE"))
CASES.append(prog("PAST  EQU HERE+2", "HERE  NOP ", "      LDX #PAST", "      JMP PAST"))

CASES.append(cli(HEADER + ["      LDA #SMALL+1", "      LDX #AFTER-BEFORE", "      LDD WORD/2", "      LDB BYTE-HEX2,X", "      FDB HEX4*SMALL"]
                 + FOOTER))
CASES.append(cli(HEADER + ["      LDA #SMALL/ZERO"] + FOOTER))

# ExpressionValue.resolve on its own, with the state it leaves behind
CASES.append(call('''
from cocoasm.values import ExpressionValue, NumericValue, AddressValue, SymbolValue, ExplicitAddressingMode, Value
result = []
table = {"FIVE": NumericValue(5), "WIDE": NumericValue("$1234"), "FORCED": NumericValue("$12", mode=ExplicitAddressingMode.EXPLICIT_EXTENDED),
         "ZERO": NumericValue(0), "NEG": NumericValue(-3), "LABEL": AddressValue(4), "OTHER": AddressValue(9),
         "TEXT": Value.create_from_str("FIVE+1"), "SYM": SymbolValue("FIVE")}
def show(value):
    return [type(value).__name__, value.type.name, value.int, value.hex(), value.hex_len(), value.size_hint,
            value.explict_addressing_mode.name, value.is_negative(), value.resolved]
terms = ["FIVE", "WIDE", "FORCED", "ZERO", "NEG", "LABEL", "OTHER", "TEXT", "SYM", "MISSING", "7", "$7", "$0007", "300", "65535", "0"]
for left in terms:
    for right in terms:
        for operation in "+-*/":
            for mode in (ExplicitAddressingMode.NONE, ExplicitAddressingMode.IMMEDIATE):
                expression = ExpressionValue(left + operation + right, mode=mode)
                try:
                    outcome = expression.resolve(table)
                    row = [left + operation + right, outcome is expression, show(outcome)]
                except Exception as error:
                    row = [left + operation + right, type(error).__name__, str(error)]
                row += [show(expression), show(expression.left), show(expression.right), show(expression.value)]
                result.append(row)
for operation in ("%", "", "^"):
    expression = ExpressionValue("1+2")
    expression.operation = operation
    outcome = expression.resolve(table)
    result.append([operation, show(outcome), outcome is expression.value])
'''))

main(CASES)
