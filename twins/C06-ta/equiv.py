#!/venv/bin/python
"""
Differential demonstration for the cassette container (property C06).

Usage: equiv.py <treeA> <treeB>

Runs the DRIVER below once per tree (subprocess, cwd = tree, tree first on
sys.path), collects a JSON record per case and compares the two records.
Exit status 0 when every case agrees, 1 otherwise.
"""
import json
import os
import subprocess
import sys
import tempfile

DRIVER = r'''
import io, json, os, random, subprocess, sys, tempfile, contextlib, hashlib
tree = os.getcwd()
sys.path.insert(0, tree)
from cocoasm.virtualfiles.cassette import CassetteFile
from cocoasm.virtualfiles.coco_file import CoCoFile
from cocoasm.virtualfiles.virtual_file_container import VirtualFileContainer
from cocoasm.virtualfiles.virtual_file import VirtualFile, VirtualFileType
from cocoasm.virtualfiles.source_file import SourceFile, SourceFileType
from cocoasm.values import NumericValue, NoneValue

results = {}

def show_value(v):
    try:
        return [type(v).__name__, v.int, v.hex(), v.hex(size=4)]
    except Exception as e:
        return [type(v).__name__, repr(e)]

def show_file(f):
    return {
        "name": f.name, "extension": f.extension, "type": show_value(f.type),
        "data_type": show_value(f.data_type), "gaps": show_value(f.gaps),
        "load": show_value(f.load_addr), "exec": show_value(f.exec_addr),
        "ascii": f.ascii, "ignore_gaps": f.ignore_gaps,
        "data": list(f.data), "str": str(f),
    }

def run(label, fn):
    try:
        results[label] = ["ok", fn()]
    except BaseException as e:
        results[label] = ["exc", type(e).__name__, str(e)]

def mk(name, data, ftype=2, dtype=0, load=0x0E00, exe=0x0E00, gaps=0):
    return CoCoFile(name=name, extension="BIN", type=NumericValue(ftype), data_type=NumericValue(dtype),
                    gaps=NumericValue(gaps), load_addr=NumericValue(load), exec_addr=NumericValue(exe), data=data)

rnd = random.Random(20260603)

def pattern(n, kind):
    if kind == "markers":
        base = [0x55, 0x3C, 0x00, 0x55, 0x3C, 0x01, 0x55, 0x3C, 0xFF, 0x00, 0xFF, 0x55]
        return [base[i % len(base)] for i in range(n)]
    if kind == "ff":
        return [0xFF] * n
    if kind == "zero":
        return [0x00] * n
    if kind == "count":
        return [i & 0xFF for i in range(n)]
    return [rnd.randrange(256) for _ in range(n)]

def roundtrip(files, filenames=None):
    def go():
        c = CassetteFile()
        c.add_files(files)
        buf = list(c.get_buffer())
        r = CassetteFile(buffer=list(buf))
        listed = r.list_files(filenames) if filenames is not None else r.list_files()
        return {"buffer_len": len(buf), "buffer_sha": hashlib.sha256(bytes(b & 0xFF for b in buf)).hexdigest(),
                "buffer_head": buf[:300], "buffer_tail": buf[-40:], "raw_over_255": [b for b in buf if b > 255][:5],
                "files": [show_file(f) for f in listed],
                "original_buffer_same": r.original_buffer == buf}
    return go

# ---- writer + reader round trips over boundary lengths and contents
case = 0
for length in (0, 1, 2, 253, 254, 255, 256, 257, 509, 510, 511, 512, 765, 766, 1020, 2304, 4000):
    for kind in ("markers", "random", "count"):
        case += 1
        name = "F%d" % length
        run("rt/%d/%s" % (length, kind), roundtrip([mk(name, pattern(length, kind), load=length * 7 & 0xFFFF, exe=(0xFFFF - length))]))

for kind in ("ff", "zero"):
    for length in (1, 255, 510):
        run("rt/%d/%s" % (length, kind), roundtrip([mk("X", pattern(length, kind))]))

# names: 0..12 chars, case, punctuation
for name in ("", "A", "ab", "Hello", "EIGHTCHR", "NINECHARS", "TWELVECHARS1", "a.b-c_d!", "~{}|", "lower", "MiXeD123"):
    run("name/%r" % name, roundtrip([mk(name, [1, 2, 3])]))

# file types / data types / addresses
for ftype in (0, 1, 2, 3):
    for dtype in (0x00, 0xFF):
        run("type/%d/%d" % (ftype, dtype), roundtrip([mk("T%d" % ftype, pattern(300, "random"), ftype=ftype, dtype=dtype,
                                                        load=0xFFFF, exe=0x0000, gaps=0xFF)]))
for load, exe in ((0, 0), (0xFFFF, 0xFFFF), (0x553C, 0x0055), (0x3C00, 0x3C01), (0x00FF, 0xFF00), (0x1234, 0xABCD)):
    run("addr/%04X/%04X" % (load, exe), roundtrip([mk("ADDR", [0x55, 0x3C], load=load, exe=exe)]))

# several files, order, filter, duplicates, an empty file in the middle
many = [mk("ONE", pattern(10, "random")), mk("TWO", pattern(255, "markers"), ftype=0, dtype=0xFF),
        mk("THREE", pattern(600, "count"), ftype=1), mk("ONE", pattern(3, "ff"), ftype=3)]
run("many/all", roundtrip(many))
run("many/none", roundtrip([]))
run("many/filter1", roundtrip(many, ["ONE     "]))
run("many/filter2", roundtrip(many, ["TWO     ", "THREE   "]))
run("many/filter-miss", roundtrip(many, ["NOPE"]))
run("many/filter-empty", roundtrip(many, []))
run("many/empty-middle", roundtrip([mk("A", [1]), mk("EMPTY", []), mk("B", [2])]))
run("many/empty-last", roundtrip([mk("A", [1]), mk("EMPTY", [])]))
run("many/empty-first", roundtrip([mk("EMPTY", []), mk("A", [1])]))

# errors of the writer
run("w/nonevalue-type", roundtrip([CoCoFile(name="N", data=[1])]))
run("w/long-unicode", roundtrip([mk("\u00e9\u20acx", [1])]))
run("w/bad-data", roundtrip([mk("BAD", [1, "x", 3])]))
run("w/bytes-data", roundtrip([mk("BYTES", bytes(range(256)) * 2)]))
run("w/neg-data", roundtrip([mk("NEG", [-1, 300])]))

# ---- individual writer primitives
def prim(fn):
    def go():
        c = CassetteFile()
        ret, exc = None, None
        try:
            ret = fn(c)
        except Exception as e:
            exc = [type(e).__name__, str(e)]
        return {"ret": ret, "exc": exc, "buffer": list(c.get_buffer())}
    return go

for name in ("", "A", "ABCDEFGH", "ABCDEFGHIJKL", "ab c", "\u00ff\u0100"):
    run("append_name/%r" % name, prim(lambda c, name=name: c.append_name(name)))
run("append_name/list", prim(lambda c: c.append_name(["A", "B"])))
run("append_name/none", prim(lambda c: c.append_name(None)))
run("append_name/ints", prim(lambda c: c.append_name([65, 66])))
for length in (0, 1, 254, 255, 256, 510, 511):
    for gaps in (False, True):
        run("append_data_blocks/%d/%s" % (length, gaps),
            prim(lambda c, length=length, gaps=gaps: c.append_data_blocks(pattern(length, "markers"), gaps=gaps)))
        run("append_data_blocks_pos/%d/%s" % (length, gaps),
            prim(lambda c, length=length, gaps=gaps: c.append_data_blocks(pattern(length, "count"), gaps)))
run("append_data_blocks/none", prim(lambda c: c.append_data_blocks(None)))
run("append_eof", prim(lambda c: c.append_eof()))
run("append_leader", prim(lambda c: c.append_leader()))
run("append_blank", prim(lambda c: c.append_blank()))
run("append_header/basic", prim(lambda c: c.append_header(mk("HDR", [], ftype=0, dtype=0xFF, load=0x1234, exe=0xFEDC))))
run("append_header/long", prim(lambda c: c.append_header(mk("LONGLONGNAME", [], ftype=3, load=0xFFFF, exe=0xFFFF))))
run("append_header/nonevalue", prim(lambda c: c.append_header(CoCoFile(name="Q"))))
run("add_file/one", prim(lambda c: c.add_file(mk("ADD", [9, 8, 7]))))
run("add_file/none", prim(lambda c: c.add_file(None)))

# ---- hand built tapes for the reader
def header(name, ftype=2, dtype=0, gaps=0, load=0x0E00, exe=0x0E00, length=0x0F, trailer=(0x00, 0x55)):
    nm = [ord(ch) for ch in (name + " " * 8)[:8]]
    return [0x55, 0x3C, 0x00, length] + nm + [ftype, dtype, gaps, load >> 8, load & 255, exe >> 8, exe & 255] + list(trailer)

def block(payload, btype=0x01, cks=0xAA):
    return [0x55, 0x3C, btype, len(payload)] + list(payload) + [cks, 0x55]

EOF = [0x55, 0x3C, 0xFF, 0x00, 0xFF, 0x55]

def read(buf, filenames=None, as_bytes=False):
    def go():
        b = bytes(buf) if as_bytes else list(buf)
        c = CassetteFile(buffer=b)
        listed = c.list_files(filenames) if filenames is not None else c.list_files()
        return [show_file(f) for f in listed]
    return go

for leader in (0, 1, 2, 7, 128, 300):
    for gap in (0, 1, 128):
        tape = [0x55] * leader + header("LD%d" % leader) + [0x00] * gap + [0x55] * gap \
            + block([1, 2, 3]) + [0x00] * gap + [0x55] * gap + block([0x55, 0x3C, 0xFF]) + [0x55] * gap + EOF
        run("tape/leader%d/gap%d" % (leader, gap), read(tape))

two = [0x55] * 5 + header("FIRST", ftype=0, dtype=0xFF, gaps=0xFF) + block(list(range(255))) + block([7]) + EOF \
    + [0x00] * 9 + [0x55] * 3 + header("SECOND", ftype=1, load=0xBEEF, exe=0xCAFE) + block([]) + block([0x3C]) + EOF + [0x55] * 4
run("tape/two", read(two))
run("tape/two/filter", read(two, ["SECOND  "]))
run("tape/two/bytes-buffer", read(two, as_bytes=True))
run("tape/empty", read([]))
run("tape/garbage", read([1, 2, 3, 4, 5] * 40))
run("tape/leader-only", read([0x55] * 300))
run("tape/header-only", read(header("ONLY")))
run("tape/header-then-eof", read(header("NODATA") + EOF))
run("tape/header-empty-block-eof", read(header("NODATA") + block([]) + EOF + header("NEXT") + block([5]) + EOF))
run("tape/no-eof", read(header("NOEOF") + block([1, 2])))
run("tape/unknown-block", read(header("UNK") + block([1, 2], btype=0x02)))
run("tape/unknown-block-7f", read(header("UNK") + block([1]) + block([1, 2], btype=0x7F) + EOF))
run("tape/unknown-block-00", read(header("UNK") + block([1]) + header("X")))
run("tape/bad-name", read(header("A")[:4] + [0xFF] * 8 + header("A")[12:] + block([1]) + EOF))
run("tape/eof-short", read(header("SHORT") + block([1]) + [0x55, 0x3C, 0xFF]))
run("tape/eof-then-junk", read(header("J") + block([1]) + [0x55, 0x3C, 0xFF] + header("K") + block([2]) + EOF))
for cut in range(1, 40):
    full = [0x55] * 3 + header("TRUNC", load=0x1234, exe=0x5678) + block([9, 8, 7, 6]) + EOF
    run("tape/truncated/%d" % cut, read(full[:cut]))
for cut in (41, 42, 43, 44):
    full = [0x55] * 3 + header("TRUNC", load=0x1234, exe=0x5678) + block([9, 8, 7, 6]) + EOF
    run("tape/truncated/%d" % cut, read(full[:-3] if cut == 44 else full[:cut - 10 + 3]))
run("tape/len-overrun", read(header("OVER") + [0x55, 0x3C, 0x01, 0xFF, 1, 2, 3]))
run("tape/len-covers-eof", read(header("COVER") + [0x55, 0x3C, 0x01, 0x08] + EOF + [1, 2] + [0xAA, 0x55] + EOF))
run("tape/type-3-names", read(header("lower", ftype=3, dtype=0x7F, gaps=0x01) + block([1]) + EOF))

# ---- reader primitives
def seq(buf, sequence, *a, **kw):
    return lambda: CassetteFile(buffer=list(buf)).skip_to_sequence(sequence, *a, **kw)

digits = list(range(1, 11))
for label, sequence, a, kw in (
    ("all", digits, (), {}), ("tail", [9, 10], (), {}), ("last", [10], (), {}), ("start9", [10], (), {"start": 9}),
    ("pos-start", [10], (9,), {}), ("miss", [11, 12], (), {}), ("start-beyond", [1], (), {"start": 5}),
    ("start-end", [10], (), {"start": 10}), ("start-far", [10], (), {"start": 50}), ("empty-seq", [], (), {}),
    ("empty-seq-start", [], (), {"start": 4}), ("longer", digits + [11], (), {}), ("neg-start", [10], (), {"start": -1}),
    ("neg-start3", [8, 9], (), {"start": -3}), ("tuple-seq", (1, 2), (), {}), ("first", [1], (), {}), ("mid", [4, 5, 6], (), {"start": 2}),
):
    run("skip/%s" % label, seq(digits, sequence, *a, **kw))
run("skip/empty-buffer", seq([], [1]))
run("skip/empty-both", seq([], []))
run("skip/repeat", seq([5, 5, 5, 5], [5, 5], start=1))

def name_at(buf, pointer):
    return lambda: list(CassetteFile(buffer=list(buf)).read_coco_file_name(pointer))

text = [ord(ch) for ch in "ABCDEFGHIJKL"]
for pointer in (0, 1, 4, 5, 11, 12, -8, -9, -1):
    run("name_at/%d" % pointer, name_at(text, pointer))
run("name_at/utf8", name_at([0xC3, 0xA9] * 4, 0))
run("name_at/bad-utf8", name_at([0xC3] * 8, 0))
run("name_at/nul", name_at([0] * 8, 0))

def blocks_at(buf, pointer):
    def go():
        data, end = CassetteFile(buffer=list(buf)).read_blocks(pointer)
        return [list(data), end]
    return go

tape = block([1, 2, 3]) + [0, 0] + block(list(range(255))) + EOF + [0x55]
for pointer in (0, 1, 2, 8, 9, 10, len(tape) - 7, len(tape) - 6, len(tape) - 5, len(tape)):
    run("blocks_at/%d" % pointer, blocks_at(tape, pointer))
run("blocks_at/eof-only", blocks_at(EOF, 0))
run("blocks_at/sync-at-end", blocks_at([0x55, 0x3C], 0))
run("blocks_at/sync-type-at-end", blocks_at([0x55, 0x3C, 0x01], 0))

def file_at(buf, pointer):
    def go():
        f, end = CassetteFile(buffer=list(buf)).read_file(pointer)
        return [None if f is None else show_file(f), end]
    return go

for pointer in (0, 4, 5, 6, 30, len(two) - 40, len(two)):
    run("file_at/%d" % pointer, file_at(two, pointer))

def word_at(buf, pointer):
    return lambda: show_value(VirtualFileContainer(buffer=buf).read_word(pointer))

for label, buf, pointer in (
    ("zero", [0, 0], 0), ("ffff", [0xFF, 0xFF], 0), ("1234", [0x12, 0x34], 0), ("off1", [1, 2, 3], 1), ("last", [1, 2, 3], 2),
    ("past", [1, 2, 3], 3), ("one-byte", [1], 0), ("empty", [], 0), ("neg2", [1, 2, 3], -2), ("neg1", [1, 2, 3], -1),
    ("bytes", bytes([0xAB, 0xCD]), 0), ("big", [0x1FF, 0x100], 0), ("str-digits", ["1", "2"], 0), ("none", None, 0),
):
    run("word_at/%s" % label, word_at(buf, pointer))

def container(buf):
    def go():
        c = VirtualFileContainer(buffer=buf)
        same = c.buffer is buf
        return {"buffer": None if c.buffer is None else list(c.buffer), "original": list(c.original_buffer),
                "same_object": same, "copy_is_distinct": c.original_buffer is not buf, "get_is_buffer": c.get_buffer() is c.buffer}
    return go

for label, buf in (("none", None), ("empty", []), ("list", [1, 2]), ("bytes", b"ab"), ("empty-bytes", b"")):
    run("container/%s" % label, container(buf))

# ---- str() of CoCoFile
for ftype in (0, 1, 2, 3, 4, 0xFF):
    for dtype in (0, 0xFF, 1):
        for gaps in (0, 0xFF):
            for ignore in (False, True):
                f = CoCoFile(name="NAME", extension="EXT", type=NumericValue(ftype), data_type=NumericValue(dtype),
                             gaps=NumericValue(gaps), load_addr=NumericValue(0xABC), exec_addr=NumericValue(0xFFFF),
                             data=[1] * ftype, ignore_gaps=ignore)
                run("str/%d/%d/%d/%s" % (ftype, dtype, gaps, ignore), lambda f=f: str(f))
run("str/default", lambda: str(CoCoFile()))
run("str/nonevalue-addr", lambda: str(CoCoFile(type=NumericValue(2), data_type=NumericValue(0), gaps=NumericValue(0))))

# ---- command line front end
def cli(argv, workdir):
    proc = subprocess.run([sys.executable, os.path.join(tree, "file_util.py")] + argv, cwd=workdir,
                          stdout=subprocess.PIPE, stderr=subprocess.PIPE, universal_newlines=True)
    produced = {}
    for fn in sorted(os.listdir(workdir)):
        with open(os.path.join(workdir, fn), "rb") as fh:
            produced[fn] = hashlib.sha256(fh.read()).hexdigest()
    err = proc.stderr.replace(tree, "<tree>")
    return {"rc": proc.returncode, "out": proc.stdout, "err_tail": err.strip().splitlines()[-1:] , "files": produced}

with tempfile.TemporaryDirectory() as wd:
    c = CassetteFile()
    c.add_files(many)
    with open(os.path.join(wd, "many.cas"), "wb") as fh:
        fh.write(bytearray(c.get_buffer()))
    c = CassetteFile()
    c.add_files([mk("SINGLE", pattern(700, "markers"), load=0x3F00, exe=0x3F10)])
    with open(os.path.join(wd, "single.cas"), "wb") as fh:
        fh.write(bytearray(c.get_buffer()))
    with open(os.path.join(wd, "two.cas"), "wb") as fh:
        fh.write(bytearray(two))
    with open(os.path.join(wd, "junk.cas"), "wb") as fh:
        fh.write(bytearray([1, 2, 3] * 50))
    with open(os.path.join(wd, "broken.cas"), "wb") as fh:
        fh.write(bytearray(header("BROKEN") + block([1, 2])))
    with open(os.path.join(wd, "empty.cas"), "wb") as fh:
        fh.write(b"")
    for label, argv in (
        ("list-many", ["many.cas", "--list"]), ("list-single", ["single.cas", "--list"]), ("list-two", ["two.cas", "--list"]),
        ("list-junk", ["junk.cas", "--list"]), ("list-broken", ["broken.cas", "--list"]), ("list-empty", ["empty.cas", "--list"]),
        ("list-missing", ["missing.cas", "--list"]), ("list-files", ["many.cas", "--list", "--files", "one"]),
        ("to-cas", ["many.cas", "--to_cas", "copy.cas"]), ("to-cas-exists", ["many.cas", "--to_cas", "copy.cas"]),
        ("to-cas-append", ["two.cas", "--to_cas", "copy.cas", "--append"]), ("list-copy", ["copy.cas", "--list"]),
        ("to-cas-files", ["many.cas", "--to_cas", "some.cas", "--files", "two", "THREE"]), ("list-some", ["some.cas", "--list"]),
        ("to-bin-many", ["many.cas", "--to_bin", "many.bin"]), ("to-bin-single", ["single.cas", "--to_bin", "single.bin"]),
        ("to-bin-empty", ["junk.cas", "--to_bin", "junk.bin"]),
        ("to-dsk", ["many.cas", "--to_dsk", "many.dsk"]), ("list-dsk", ["many.dsk", "--list"]),
        ("dsk-to-cas", ["many.dsk", "--to_cas", "back.cas"]), ("list-back", ["back.cas", "--list"]),
        ("no-action", ["many.cas"]), ("no-args", []),
    ):
        run("cli/%s" % label, lambda argv=argv: cli(argv, wd))

print(json.dumps(results, sort_keys=True, default=repr))
'''


def run_tree(tree):
    tree = os.path.abspath(tree)
    with tempfile.NamedTemporaryFile("w", suffix="_driver.py", delete=False) as handle:
        handle.write(DRIVER)
        driver_path = handle.name
    try:
        env = dict(os.environ, PYTHONPATH=tree, PYTHONDONTWRITEBYTECODE="1", PYTHONHASHSEED="0")
        proc = subprocess.run([sys.executable, driver_path], cwd=tree, env=env,
                              stdout=subprocess.PIPE, stderr=subprocess.PIPE, universal_newlines=True)
    finally:
        os.unlink(driver_path)
    if proc.returncode != 0:
        print("driver failed in %s:\n%s" % (tree, proc.stderr))
        sys.exit(1)
    return json.loads(proc.stdout)


def main():
    if len(sys.argv) != 3:
        print("usage: equiv.py <treeA> <treeB>")
        return 1
    first = run_tree(sys.argv[1])
    second = run_tree(sys.argv[2])
    differing = 0
    for label in sorted(set(first) | set(second)):
        if first.get(label) != second.get(label):
            differing += 1
            print("DIFFERENT %s\n  A: %s\n  B: %s" % (label, str(first.get(label))[:400], str(second.get(label))[:400]))
    outcomes = sum(1 for value in first.values() if value[0] == "exc")
    print("%d cases compared (%d raise in tree A), %d differ" % (len(first), outcomes, differing))
    return 1 if differing else 0


if __name__ == "__main__":
    sys.exit(main())
