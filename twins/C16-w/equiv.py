#!/usr/bin/env python
"""
Differential check for property C16 (file_util conversions).

usage: equiv.py <treeA> <treeB>

For each tree a worker subprocess is started with the tree as cwd and at the
front of sys.path. The worker
  * builds source cassette / disk images with the tree's own container classes,
  * drives <tree>/file_util.py as a real subprocess through a list of
    conversion scenarios (chains, --files selections, --append, errors),
  * exercises the anchored library functions directly,
and prints a JSON document with every observable (stdout, exit status, sha256
and length of every file present in the scratch directory, return values,
exception type + message). The two documents must be identical.
"""
import json
import os
import subprocess
import sys

WORKER = r'''
import hashlib, io, json, os, subprocess, sys, tempfile, contextlib
tree = os.getcwd()
sys.path.insert(0, tree)

from cocoasm.values import NumericValue, NoneValue
from cocoasm.virtualfiles.coco_file import CoCoFile
from cocoasm.virtualfiles.cassette import CassetteFile
from cocoasm.virtualfiles.disk import DiskFile
from cocoasm.virtualfiles.binary import BinaryFile
from cocoasm.virtualfiles.source_file import SourceFile, SourceFileType
from cocoasm.virtualfiles.virtual_file import VirtualFile, VirtualFileType

results = []
work = tempfile.mkdtemp(prefix="c16_")


def pattern(n, seed):
    return [(seed + 7 * i) & 0xFF for i in range(n)]


def ml(name, n, seed, load=0x0E00, exe=0x0E10, ext="BIN"):
    return CoCoFile(name=name, extension=ext, type=NumericValue(2), data_type=NumericValue(0),
                    gaps=NumericValue(0), load_addr=NumericValue(load), exec_addr=NumericValue(exe),
                    data=pattern(n, seed))


def bas(name, n, seed, ascii_=False):
    return CoCoFile(name=name, extension="BAS", type=NumericValue(0),
                    data_type=NumericValue(0xFF if ascii_ else 0), gaps=NumericValue(0),
                    load_addr=NumericValue(0), exec_addr=NumericValue(0), data=pattern(n, seed))


FILESETS = {
    "one": [ml("HELLO", 20, 1)],
    "one_big": [ml("BIGFILE", 2400, 3, load=0x3F00, exe=0x3F00)],
    "two": [ml("FIRST", 10, 5), ml("SECOND", 300, 9, load=0x1000, exe=0x1004)],
    "three": [ml("AAA", 1, 2), ml("bbb", 255, 4, load=0x00FF, exe=0xFFFE), ml("MiXeD", 256, 6)],
    "full8": [ml("ABCDEFGH", 254, 8), ml("A", 510, 10), ml("LONGNAME", 511, 12)],
    "dup": [ml("SAME", 5, 1), ml("SAME", 6, 2), ml("OTHER", 7, 3)],
    "basic": [bas("PROG", 40, 11), bas("TEXT", 33, 13, ascii_=True), ml("CODE", 17, 15)],
    "many": [ml("F%d" % i, 3 + 40 * i, i, load=0x100 * i, exe=0x100 * i + 1) for i in range(1, 9)],
}


def write(path, buf):
    with open(path, "wb") as handle:
        handle.write(bytearray(buf))


def snapshot(directory):
    out = {}
    for name in sorted(os.listdir(directory)):
        with open(os.path.join(directory, name), "rb") as handle:
            raw = handle.read()
        out[name] = [len(raw), hashlib.sha256(raw).hexdigest()]
    return out


def record(label, value):
    results.append([label, value])


def guarded(label, func):
    try:
        record(label, ["ok", func()])
    except SystemExit as error:
        record(label, ["exit", repr(error.code)])
    except BaseException as error:
        record(label, ["raise", type(error).__name__, str(error)])


def describe(files):
    return [[f.name, f.extension, f.type.hex(), f.data_type.hex(), f.gaps.hex() if not f.gaps.is_none() else None,
             f.load_addr.hex(size=4) if not f.load_addr.is_none() else None,
             f.exec_addr.hex(size=4) if not f.exec_addr.is_none() else None,
             len(f.data), hashlib.sha256(bytes(f.data)).hexdigest(), str(f)] for f in files]


def util(directory, *argv):
    proc = subprocess.run([sys.executable, os.path.join(tree, "file_util.py")] + list(argv),
                          cwd=directory, capture_output=True, text=True,
                          env=dict(os.environ, PYTHONPATH=tree, PYTHONDONTWRITEBYTECODE="1"))
    return [proc.returncode, proc.stdout, proc.stderr.replace(tree, "<tree>")]


def scenario(label, setname, kind, steps):
    """Builds the source image for one file set and runs a list of argv steps."""
    directory = os.path.join(work, label)
    os.mkdir(directory)
    container = CassetteFile() if kind == "cas" else DiskFile()
    container.add_files(FILESETS[setname])
    write(os.path.join(directory, "src." + kind), container.get_buffer())
    for number, argv in enumerate(steps):
        record("%s step %d %s" % (label, number, " ".join(argv)), util(directory, *argv))
    record(label + " files", snapshot(directory))
    # parse back every produced image with the tree's readers
    for name in sorted(os.listdir(directory)):
        def parse(name=name):
            vf = VirtualFile(SourceFile(os.path.join(directory, name), file_type=SourceFileType.BINARY))
            vf.open_virtual_file()
            return [str(vf.virtual_file_type), describe(vf.list_files())]
        guarded(label + " parse " + name, parse)


# --------------------------------------------------------------- CLI scenarios
n = 0
for setname in FILESETS:
    for kind, other in (("cas", "dsk"), ("dsk", "cas")):
        n += 1
        scenario("chain%02d_%s_%s" % (n, setname, kind), setname, kind, [
            ["src." + kind, "--list"],
            ["src." + kind, "--to_" + other, "a." + other],
            ["a." + other, "--to_" + kind, "b." + kind],
            ["b." + kind, "--to_" + other, "c." + other],
            ["src." + kind, "--to_" + kind, "same." + kind],
            ["b." + kind, "--list"],
        ])

SELECTIONS = [["first"], ["FIRST"], ["FiRsT", "second"], ["SECOND", "FIRST"], ["nothere"], ["first", "nothere"],
              [" FIRST"], ["FIRST   "], ["FIRST.BIN"], [""]]
for index, selection in enumerate(SELECTIONS):
    for kind, other in (("cas", "dsk"), ("dsk", "cas")):
        scenario("sel%02d_%s" % (index, kind), "two", kind, [
            ["src." + kind, "--to_" + other, "a." + other, "--files"] + selection,
            ["src." + kind, "--to_" + kind, "b." + kind, "--files"] + selection,
            ["a." + other, "--to_" + kind, "c." + kind, "--files"] + selection,
            ["src." + kind, "--to_bin", "d.bin", "--files"] + selection,
        ])

for index, selection in enumerate([["aaa", "BBB"], ["mixed"], ["MIXED", "bbb", "AAA"], ["Bbb"]]):
    for kind, other in (("cas", "dsk"), ("dsk", "cas")):
        scenario("sel3_%02d_%s" % (index, kind), "three", kind, [
            ["src." + kind, "--to_" + other, "a." + other, "--files"] + selection,
            ["a." + other, "--to_" + kind, "b." + kind, "--files"] + selection,
            ["a." + other, "--list"],
        ])

for kind in ("cas", "dsk"):
    scenario("bin_one_" + kind, "one", kind, [
        ["src." + kind, "--to_bin", "out.bin"],
        ["src." + kind, "--to_bin", "out.bin"],
        ["src." + kind, "--to_bin", "out.bin", "--append"],
        ["src." + kind, "--to_bin", "sel.bin", "--files", "hello"],
        ["src." + kind, "--to_bin", "nosel.bin", "--files", "other"],
        ["out.bin", "--list"],
        ["out.bin", "--to_cas", "frombin.cas"],
        ["out.bin", "--to_bin", "frombin.bin"],
    ])
    scenario("bin_big_" + kind, "one_big", kind, [["src." + kind, "--to_bin", "out.bin"]])
    scenario("bin_many_" + kind, "two", kind, [
        ["src." + kind, "--to_bin", "out.bin"],
        ["src." + kind, "--to_bin", "out.bin", "--files", "first"],
    ])
    other = "dsk" if kind == "cas" else "cas"
    scenario("append_" + kind, "two", kind, [
        ["src." + kind, "--to_" + other, "t." + other],
        ["src." + kind, "--to_" + other, "t." + other],
        ["src." + kind, "--to_" + other, "t." + other, "--append"],
        ["src." + kind, "--to_" + other, "t." + other, "--append", "--files", "second"],
        ["t." + other, "--list"],
        ["src." + kind, "--to_" + kind, "src." + kind],
        ["src." + kind, "--to_" + kind, "src." + kind, "--append"],
        ["src." + kind, "--to_" + other, "src." + kind, "--append"],
        ["src." + kind, "--to_cas", "x.cas", "--to_dsk", "x.dsk", "--to_bin", "x.bin"],
        ["src." + kind, "--list", "--to_cas", "notwritten.cas"],
        ["missing." + kind, "--to_" + other, "m." + other],
        ["missing." + kind, "--list"],
        ["missing." + kind, "--to_bin", "m.bin"],
        ["src." + kind],
    ])

# corrupted / odd inputs
directory = os.path.join(work, "odd")
os.mkdir(directory)
write(os.path.join(directory, "empty.cas"), [])
write(os.path.join(directory, "junk.cas"), pattern(500, 3))
cas = CassetteFile()
cas.add_files(FILESETS["two"])
write(os.path.join(directory, "trunc.cas"), cas.get_buffer()[:400])
write(os.path.join(directory, "trunc2.cas"), cas.get_buffer()[:-200])
dsk = DiskFile()
dsk.add_files(FILESETS["two"])
write(os.path.join(directory, "short.dsk"), dsk.get_buffer()[:-1])
write(os.path.join(directory, "long.dsk"), list(dsk.get_buffer()) + [0] * 256)
for name in ("empty.cas", "junk.cas", "trunc.cas", "trunc2.cas", "short.dsk", "long.dsk"):
    record("odd " + name + " list", util(directory, name, "--list"))
    record("odd " + name + " to_cas", util(directory, name, "--to_cas", name + ".out.cas"))
    record("odd " + name + " to_dsk", util(directory, name, "--to_dsk", name + ".out.dsk"))
    record("odd " + name + " to_bin", util(directory, name, "--to_bin", name + ".out.bin"))
record("odd files", snapshot(directory))

# ------------------------------------------------------ direct library checks
NAMES = ["", "A", "HELLO", "ABCDEFGH", "ABCDEFGHI", "lower", "MiXeD", "SP ACE", "A\0B", "\0\0\0", "12345678901",
         "nul\0\0\0\0\0", "  pad  ", "été", "Āwide", "TAB\tX"]
for name in NAMES:
    def tape_name(name=name):
        cas = CassetteFile()
        checksum = cas.append_name(name)
        buf = list(cas.get_buffer())
        try:
            back = CassetteFile(buffer=list(buf)).read_coco_file_name(0)
        except BaseException as error:
            back = [type(error).__name__, str(error)]
        return [checksum, buf, back]
    guarded("append_name %r" % name, tape_name)

    def header(name=name):
        cas = CassetteFile()
        cas.append_header(ml(name, 4, 1))
        return list(cas.get_buffer())
    guarded("append_header %r" % name, header)

    for ext in ("BIN", "b", "", "LONGEXT", "b\0n"):
        def dir_entry(name=name, ext=ext):
            dsk = DiskFile()
            dsk.write_dir_entry(3, ml(name, 4, 1, ext=ext), 7, 0x123)
            return list(dsk.get_buffer()[0x13200 + 64:0x13200 + 160])
        guarded("write_dir_entry %r %r" % (name, ext), dir_entry)

    def disk_roundtrip(name=name):
        dsk = DiskFile()
        dsk.add_files([ml(name, 30, 2), ml("Z" + name, 31, 3)])
        return describe(DiskFile(buffer=list(dsk.get_buffer())).list_files())
    guarded("disk roundtrip %r" % name, disk_roundtrip)

    def tape_roundtrip(name=name):
        cas = CassetteFile()
        cas.add_files([ml(name, 30, 2), ml("Z" + name, 31, 3)])
        return describe(CassetteFile(buffer=list(cas.get_buffer())).list_files())
    guarded("tape roundtrip %r" % name, tape_roundtrip)

for pointer in (0, 1, 5, 13, 14, 20, 21):
    def read_name(pointer=pointer):
        cas = CassetteFile(buffer=[0x41 + i for i in range(21)])
        return cas.read_coco_file_name(pointer)
    guarded("read_coco_file_name @%d" % pointer, read_name)
guarded("read_coco_file_name bad utf8", lambda: CassetteFile(buffer=[0xFF] * 10).read_coco_file_name(0))
guarded("read_coco_file_name empty", lambda: CassetteFile().read_coco_file_name(0))

# VirtualFile.list_files / add_coco_file / save_virtual_file
TYPES = [None, VirtualFileType.UNKNOWN, VirtualFileType.CASSETTE, VirtualFileType.BINARY, VirtualFileType.DISK]
directory = os.path.join(work, "vf")
os.mkdir(directory)
for tnum, vtype in enumerate(TYPES):
    for exists in (False, True):
        for append in (False, True):
            for setname in ("one", "two", "dup"):
                def save(tnum=tnum, vtype=vtype, exists=exists, append=append, setname=setname):
                    path = os.path.join(directory, "t%d_%d_%d_%s.img" % (tnum, exists, append, setname))
                    vf = VirtualFile(SourceFile(path, file_type=SourceFileType.BINARY), virtual_file_type=vtype)
                    vf.file_exists = exists
                    for coco_file in FILESETS[setname]:
                        assert vf.add_coco_file(coco_file) is None
                    listing = [describe(vf.list_files()), describe(vf.list_files(filenames=["SAME", "FIRST"])),
                               describe(vf.list_files(filenames=[]))]
                    try:
                        outcome = ["ok", vf.save_virtual_file(append_mode=append)]
                    except BaseException as error:
                        outcome = [type(error).__name__, str(error).replace(directory, "<dir>")]
                    size = os.path.getsize(path) if os.path.exists(path) else None
                    return [listing, outcome, size, len(vf.source_file.get_buffer()), vf.file_exists,
                            str(vf.virtual_file_type)]
                guarded("save %s exists=%s append=%s %s" % (vtype, exists, append, setname), save)
record("vf files", snapshot(directory))


def failing_add():
    path = os.path.join(directory, "failing.img")
    vf = VirtualFile(SourceFile(path, file_type=SourceFileType.BINARY), virtual_file_type=VirtualFileType.CASSETTE)
    vf.file_exists = True
    vf.add_coco_file(CoCoFile(name="BAD", data=[1, 2, 3]))  # NoneValue type: add_files fails first
    vf.save_virtual_file()
guarded("save with unusable file and existing target", failing_add)


def positional_append():
    path = os.path.join(directory, "positional.img")
    vf = VirtualFile(SourceFile(path, file_type=SourceFileType.BINARY), VirtualFileType.DISK)
    vf.file_exists = True
    vf.add_coco_file(FILESETS["one"][0])
    vf.save_virtual_file(True)
    return os.path.getsize(path)
guarded("save positional append", positional_append)

import shutil
shutil.rmtree(work)
print(json.dumps(results, sort_keys=True).replace(work, "<work>"))
'''


def start(tree):
    tree = os.path.abspath(tree)
    env = dict(os.environ, PYTHONDONTWRITEBYTECODE="1", PYTHONHASHSEED="0")
    env.pop("PYTHONPATH", None)
    return tree, subprocess.Popen([sys.executable, "-c", WORKER], cwd=tree, env=env,
                                  stdout=subprocess.PIPE, stderr=subprocess.PIPE, text=True)


def finish(started):
    tree, proc = started
    out, err = proc.communicate()
    if proc.returncode != 0:
        print("worker failed in", tree)
        print(err[-3000:])
        sys.exit(2)
    return json.loads(out)


def run(tree):
    return finish(start(tree))


def main():
    if len(sys.argv) != 3:
        print(__doc__)
        sys.exit(2)
    started = [start(sys.argv[1]), start(sys.argv[2])]  # the two workers run concurrently
    first, second = finish(started[0]), finish(started[1])
    mismatches = 0
    if len(first) != len(second):
        print("different number of observations: {} vs {}".format(len(first), len(second)))
        mismatches += 1
    for (label_a, value_a), (label_b, value_b) in zip(first, second):
        if label_a != label_b or value_a != value_b:
            mismatches += 1
            if mismatches <= 10:
                print("MISMATCH", label_a, "|", label_b)
                print("   A:", json.dumps(value_a)[:600])
                print("   B:", json.dumps(value_b)[:600])
    print("{} observations compared, {} mismatches".format(len(first), mismatches))
    sys.exit(1 if mismatches else 0)


if __name__ == "__main__":
    main()
