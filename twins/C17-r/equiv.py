#!/venv/bin/python
"""
Differential demonstration for property C17 (assembler output depends only on
the source text).  Usage:

    /venv/bin/python equiv.py <treeA> <treeB>

The DRIVER below is executed once per tree and per hash seed in a separate
interpreter (cwd = tree, tree first on sys.path).  It prints a JSON document
with every observable it collected; the two documents must be identical.
"""
import json
import os
import subprocess
import sys

PYTHON = sys.executable or "/venv/bin/python"

DRIVER = r'''
import io, json, os, sys, tempfile, contextlib, hashlib, shutil
tree = os.getcwd()
sys.path.insert(0, tree)

from cocoasm.program import Program
from cocoasm.statement import Statement
from cocoasm.instruction import CodePackage, INSTRUCTIONS, Instruction, Mode
from cocoasm.values import NoneValue, NumericValue, AddressValue
from cocoasm.exceptions import TranslationError, ParseError
import cocoasm.statement as statement_module
import cocoasm.values as values_module

FOCUS = "@FOCUS@"

NOPS = ["      NOP  "]
SIMPLE_OK = ["        NAM HELLO", "        ORG $0E00", "START   LDA #$01   ; load", "        STA $0400", "LOOP    INCA  ", "        BNE LOOP", "        JMP START", "        END START"]

PROGRAMS = {
    "empty": [],
    "blank_and_comments": ["", "   ", "; just a comment", "   ; indented comment  "],
    "simple": [
        "        NAM HELLO",
        "        ORG $0E00",
        "START   LDA #$01   ; load",
        "        STA $0400",
        "LOOP    INCA",
        "        BNE LOOP",
        "        JMP START",
        "        END START",
    ],
    "no_org": ["A  LDA #1", "   LDB #$FF", "   ABX", "   RTS"],
    "two_orgs": ["  ORG $1000", "X  NOP", "  ORG $2000", "Y  NOP", "  JMP X", "  JMP Y"],
    "equ_symbols": [
        "SCREEN EQU $0400", "COUNT  EQU 10", "       ORG $3F00", "BEGIN  LDX #SCREEN",
        "       LDB #COUNT", "L1     STA ,X+", "       DECB", "       BNE L1", "       RTS",
        "       END BEGIN",
    ],
    "fcb_fdb_fcc": [
        "      ORG $0600", "T1    FCB 0", "T2    FCB $01,$02,3", "T3    FDB $DEAD,$BEEF",
        "T4    FDB $CAFE", "T5    FCC \"HELLO, WORLD\" trailing comment", "T6    FCC /AB/",
        "T7    RMB 4", "      LDX #T5", "      LDD T3",
    ],
    "pcr_8_reverse": ["     ORG $0600", "V    FCB 0", "B    LDA $FF", "     STY V,PCR", "     END B"],
    "pcr_8_forward": ["     ORG $0600", "B    LDA $FF", "     STY V,PCR", "     INCA ", "V    FCB 0", "     END B"],
    "pcr_8_ext_reverse": ["     ORG $0600", "V    FCB 0", "B    LDA $FF", "     STY [V,PCR]", "     END B"],
    "pcr_8_ext_forward": ["     ORG $0600", "B    LDA $FF", "     STY [V,PCR]", "     INCA ", "V    FCB 0"],
    "lea_pcr_8": ["     ORG $0600", "B    LEAX Z,PCR", "     LDA $FF", "Z    RTS  ", "     END B"],
    "lea_pcr_16": ["     ORG $0600", "B    LEAX Z,PCR", "     LDA $FF"] + NOPS * 255 + ["Z    RTS  ", "     END B"],
    "lea_pcr_16_rev": ["     ORG $0600", "Z    RTS  "] + NOPS * 255 + ["B    LEAX Z,PCR", "     LDA $FF"],
    "lea_pcr_ind_16": ["     ORG $0600", "B    LEAX [Z,PCR]", "     LDA $FF"] + NOPS * 255 + ["Z    RTS  "],
    "pcr_boundary_fwd_124": ["  ORG $0600", "B  LDX Z,PCR"] + NOPS * 124 + ["Z  RTS"],
    "pcr_boundary_fwd_125": ["  ORG $0600", "B  LDX Z,PCR"] + NOPS * 125 + ["Z  RTS"],
    "pcr_boundary_fwd_126": ["  ORG $0600", "B  LDX Z,PCR"] + NOPS * 126 + ["Z  RTS"],
    "pcr_boundary_fwd_127": ["  ORG $0600", "B  LDX Z,PCR"] + NOPS * 127 + ["Z  RTS"],
    "pcr_boundary_rev_123": ["  ORG $0600", "Z  RTS"] + NOPS * 123 + ["B  LDX Z,PCR"],
    "pcr_boundary_rev_124": ["  ORG $0600", "Z  RTS"] + NOPS * 124 + ["B  LDX Z,PCR"],
    "pcr_boundary_rev_125": ["  ORG $0600", "Z  RTS"] + NOPS * 125 + ["B  LDX Z,PCR"],
    "pcr_boundary_rev_126": ["  ORG $0600", "Z  RTS"] + NOPS * 126 + ["B  LDX Z,PCR"],
    "pcr_two_interacting": ["  ORG $0600", "A  LDX Z,PCR"] + NOPS * 120 + ["B  LDY A,PCR", "   NOP", "Z  RTS"],
    "pcr_numeric": ["     ORG $0600", "     STX 1,PCR", "     STX [1,PCR]", "     STX 258,PCR", "     STX [258,PCR]", "     STX $0102,PCR"],
    "pcr_expr": ["       ORG $0600", "START  STX 1+TEMP,PCR", "       STX [1+TEMP,PCR]", "       NOP", "TEMP   FCB 0"],
    "addr_expr": ["     ORG $0E00", "V    STX R-1", "     FCB 0", "R    FCB 0", "     LDX #R+1", "     LDD V+2"],
    "short_branch_fwd_max": ["  ORG $0600", "  BRA T"] + NOPS * 127 + ["T  RTS"],
    "short_branch_fwd_over": ["  ORG $0600", "  BRA T"] + NOPS * 128 + ["T  RTS"],
    "short_branch_rev_max": ["  ORG $0600", "T  NOP"] + NOPS * 125 + ["  BRA T"],
    "short_branch_rev_over": ["  ORG $0600", "T  NOP"] + NOPS * 126 + ["  BRA T"],
    "long_branch": ["  ORG $0600", "S  LBRA T"] + NOPS * 300 + ["T  LBNE S", "   LBSR S", "   BSR T"],
    "indexed_modes": [
        "  ORG $0600", "  LDA ,X", "  LDA ,Y+", "  LDA ,U++", "  LDA ,-S", "  LDA ,--X", "  LDA A,X",
        "  LDA B,Y", "  LDA D,U", "  LDA 5,X", "  LDA -5,X", "  LDA $20,Y", "  LDA $200,S", "  LDA [,X]",
        "  LDA [$10,Y]", "  LDA [$1234]", "  LEAX 1,X", "  LEAY -1,Y",
    ],
    "special": ["  ORG $0600", "  PSHS A,B,X", "  PULS A,B,X,PC", "  PSHU D,Y", "  PULU CC,DP", "  TFR A,B", "  EXG X,Y", "  SWI2", "  SWI3", "  CWAI #$FF"],
    "direct_extended": ["  ORG $0600", "  LDA <$20", "  LDA >$20", "  LDA $20", "  LDA $2000", "  SETDP $06", "  JSR $A000", "  STD <$10"],
    "imm16": ["  ORG $0600", "  LDD #$1", "  LDX #1", "  LDY #$FFFF", "  CMPD #2", "  ADDD #10", "  LDA #'A"],
    "imm_binary": ["  ORG $0600", "  LDA #%1010"],
    "set_end": ["V  SET 4", "   ORG $0600", "   LDA #V", "   END"],
    "name_only": ["  NAM PROG1", "  NOP"],
    "name_twice": ["  NAM FIRST", "  NAM SECOND", "  ORG $1234", "  NOP"],
    "at_labels": ["  ORG $0600", "A@  NOP", "  BRA A@", "@B  NOP", "  BRA @B"],
    "many_symbols": ["  ORG $0600"] + ["L{}  NOP".format(i) for i in range(40)] + ["  JMP L39", "  JMP L0"],
    "symbols_reverse_order": ["ZZ  EQU 1", "YY  EQU 2", "AA  EQU 3", "  ORG $10", "MM  NOP", "BB  NOP"],
    # rejected programs
    "bad_mnemonic": ["  ORG $0600", "  FOO $12"],
    "bad_mnemonic_label": ["LBL  XYZZY #1 ; what"],
    "unparseable": ["!!!"],
    "unparseable_2": ["LABEL"],
    "redefined_label": ["  ORG $0600", "A  NOP", "A  NOP"],
    "undefined_symbol": ["  ORG $0600", "  JMP NOWHERE"],
    "undefined_branch": ["  ORG $0600", "  BRA NOWHERE"],
    "bad_operand": ["  ORG $0600", "  LDA #$GG"],
    "bad_addressing": ["  ORG $0600", "  ABX #1"],
    "imm_on_store": ["  ORG $0600", "  STA #1"],
    "fcc_empty": ["  FCC"],
    "fcc_unterminated": ["  FCC \"ABC"],
    "missing_operand": ["  ORG $0600", "  LDA"],
    "include_missing": ["  ORG $0600", "  INCLUDE nosuchfile.asm"],
    "pcr_undefined": ["  ORG $0600", "  LDX NOPE,PCR"],
    "value_too_big": ["  ORG $0600", "  LDA #$12345"],
    "bad_register": ["  ORG $0600", "  TFR A,Q"],
    "org_bad": ["  ORG ZZZ", "  NOP"],
    "equ_forward": ["A  EQU B", "B  EQU 5", "  LDA #A"],
}

for _k in list(PROGRAMS):
    PROGRAMS[_k + "+pad"] = [l + "  " for l in PROGRAMS[_k]]
ORDER = list(PROGRAMS.keys())


def describe_value(v):
    if v is None:
        return None
    try:
        return [type(v).__name__, v.hex(), v.hex_len(), v.int, v.size_hint, str(v.type), v.original_string if isinstance(v.original_string, (str, type(None))) else repr(v.original_string)]
    except Exception as e:
        return [type(v).__name__, "ERR", type(e).__name__, str(e)]


def describe_pkg(p):
    return {
        "op_code": describe_value(p.op_code), "address": describe_value(p.address),
        "post_byte": describe_value(p.post_byte), "additional": describe_value(p.additional),
        "size": p.size, "anr": p.additional_needs_resolution, "pbc": list(p.post_byte_choices),
        "max_size": p.max_size,
    }


def norm_stderr(text):
    # a crash traceback quotes source lines and line numbers of the tree; only the
    # exception lines themselves (type and message) are behaviour.
    return [l for l in text.splitlines() if l and not l.startswith(" ") and not l.startswith("Traceback") and not l.startswith("During handling")]


def safe_str(obj):
    try:
        return str(obj)
    except Exception as e:
        return "STR-ERR {} {}".format(type(e).__name__, e)


def describe_statement(s):
    if isinstance(s, str):
        return ["line", s]
    return {
        "str": safe_str(s), "label": s.label, "mnemonic": s.mnemonic, "comment": s.comment,
        "is_empty": s.is_empty, "is_comment_only": s.is_comment_only, "fixed_size": s.fixed_size,
        "pcr_size_hint": s.pcr_size_hint, "state": s.state,
        "instruction": s.instruction.mnemonic if s.instruction else None,
        "operand": [type(s.operand).__name__, s.operand.operand_string] if s.operand is not None else None,
        "original_operand": [type(s.original_operand).__name__, s.original_operand.operand_string] if s.original_operand is not None else None,
        "pkg": describe_pkg(s.code_pkg),
    }


def assemble(lines):
    given = list(lines)
    snapshot = list(lines)
    result = {}
    program = Program()
    try:
        ret = program.process(given)
        result["return"] = repr(ret)
        result["binary"] = program.get_binary_array()
        result["listing"] = program.get_statements()
        result["symbols"] = program.get_symbol_table()
        result["symbol_order"] = list(program.symbol_table.keys())
        result["symbol_values"] = [describe_value(v) for v in program.symbol_table.values()]
        result["origin"] = describe_value(program.origin)
        result["name"] = program.name
        result["address_attr"] = program.address
        result["all_fixed"] = program.all_sizes_fixed()
        result["statements"] = hashlib.sha256(json.dumps([describe_statement(s) for s in program.statements], sort_keys=True, default=repr).encode()).hexdigest()
        result["first_statements"] = [describe_statement(s) for s in program.statements[:6]]
    except BaseException as e:
        result["exc_type"] = type(e).__name__
        result["exc_str"] = safe_str(e)
        result["exc_args"] = repr(e.args)
        result["exc_value"] = repr(getattr(e, "value", None))
        st = getattr(e, "statement", None)
        result["exc_statement"] = describe_statement(st) if st is not None else None
        result["exc_cause"] = repr(e.__cause__)
        result["exc_context"] = type(e.__context__).__name__ if e.__context__ is not None else None
        result["partial_symbols"] = list(program.symbol_table.keys())
        result["partial_count"] = len(program.statements)
        result["partial_origin"] = describe_value(program.origin)
        result["partial_name"] = program.name
    result["lines_untouched"] = (given == snapshot)
    return result


out = {}

# 1. every program in a row (warm interpreter), then reversed, then interleaved.
out["pass1"] = {k: assemble(PROGRAMS[k]) for k in ORDER}
out["pass2_reversed"] = {k: assemble(PROGRAMS[k]) for k in reversed(ORDER)}
out["pass3_repeat"] = {k: [assemble(PROGRAMS[k]), assemble(PROGRAMS[k])] for k in ORDER[::3]}
out["history_independent"] = all(out["pass1"][k] == out["pass2_reversed"][k] for k in ORDER)

# 2. defaults of CodePackage / shared NoneValue objects are not polluted.
def pkg_defaults():
    p = CodePackage()
    q = CodePackage()
    return {
        "p": describe_pkg(p), "q": describe_pkg(q),
        "pbc_is_shared": p.post_byte_choices is q.post_byte_choices,
        "attrs": sorted(vars(p).keys()),
        "none_types": [v.is_none() for v in (p.op_code, p.address, p.post_byte, p.additional)],
    }
out["pkg_defaults"] = pkg_defaults()
out["pkg_explicit"] = describe_pkg(CodePackage(op_code=NumericValue(0x3A), address=NumericValue(0x600), post_byte=NumericValue(0x8C), additional=NumericValue(0x1234), size=4, additional_needs_resolution=True, post_byte_choices=[0x8C, 0x8D], max_size=5))
out["pkg_positional"] = describe_pkg(CodePackage(NumericValue(1), NumericValue(2), NumericValue(3), NumericValue(4), 5, True, [6], 7))
try:
    CodePackage(bogus=1)
    out["pkg_bad_kw"] = "accepted"
except TypeError as e:
    out["pkg_bad_kw"] = "TypeError"
import inspect
out["pkg_signature_names"] = list(inspect.signature(CodePackage.__init__).parameters.keys())

# 3. single statement parsing, including rejected lines
SINGLE = [
    "", "   ", "\t", "; c", "  ; c  ", "L  LDA #1 ; c", "  lda #1", "  LdA  #$ff   comment no semicolon",
    "LBL NOP", "LBL  NOP ;x", "  NOP", "  FCC \"A B\" rest", "  FCC 'X' ; y", "  FCC /a/b", "  FCC", "  FCC \"",
    "  BADOP 1", "X  BADOP", "nope", "  LDA #$GG", "  LDA ,Q", "  PSHS Z", "  ORG $FFFF", "  NAM ABC",
    "  INCLUDE foo.asm", "  FDB 1,2", "  FCB 1,2", "  LDX [1,PCR]", "  JMP [$1234]", "A@ EQU 1", "  RMB 10",
    "  END", "  LDA <$1", "  LDA >$1", "  LEAX A,PCR",
]
single = []
for line in SINGLE:
    try:
        s = Statement(line)
        entry = describe_statement(s)
        try:
            entry["include"] = s.get_include_filename()
        except Exception as e:
            entry["include"] = [type(e).__name__, str(e)]
        entry["eq_self"] = (s == Statement(line))
        single.append(entry)
    except BaseException as e:
        single.append({"exc_type": type(e).__name__, "exc_str": safe_str(e), "value": repr(getattr(e, "value", None)), "statement": repr(getattr(e, "statement", None))})
out["single"] = single

# 4. Program pieces used directly (as the unit tests do)
def direct(lines):
    res = {}
    try:
        p = Program()
        p.statements = [Statement(l) for l in lines]
        res["parsed"] = len(p.statements)
        p.translate_statements()
        res["binary"] = p.get_binary_array()
        res["listing"] = p.get_statements()
        res["symbols"] = p.get_symbol_table()
        res["origin"] = describe_value(p.origin)
        res["name"] = p.name
    except BaseException as e:
        res["exc"] = [type(e).__name__, safe_str(e), repr(getattr(e, "value", None)), safe_str(getattr(e, "statement", None))]
    return res
out["direct"] = {k: direct([l for l in PROGRAMS[k] if l.strip() and not l.strip().startswith(";")]) for k in ORDER }

out["parse_classmethod"] = [[s.label, s.mnemonic, s.comment] for s in Program.parse(SIMPLE_OK + PROGRAMS["blank_and_comments"])]
out["parse_on_instance"] = len(Program().parse(PROGRAMS["blank_and_comments"]))
p = Program()
out["fresh_program"] = [p.symbol_table, p.statements, p.address, describe_value(p.origin), p.name, p.get_binary_array(), p.get_symbol_table(), p.get_statements(), p.all_sizes_fixed(), sorted(vars(p).keys())]

# save_symbol directly
p = Program()
s1 = Statement("LBL  NOP  "); s2 = Statement("VAL  EQU $12"); s3 = Statement("  NOP  ")
p.save_symbol(0, s1); p.save_symbol(1, s2); p.save_symbol(2, s3)
ss = {"keys": list(p.symbol_table.keys()), "vals": [describe_value(v) for v in p.symbol_table.values()]}
try:
    p.save_symbol(5, Statement("LBL  RTS  "))
    ss["redef"] = "accepted"
except TranslationError as e:
    ss["redef"] = [e.value, safe_str(e.statement), str(e)]
out["save_symbol"] = ss

# include handling: real files on disk
tmp = tempfile.mkdtemp()
try:
    inc = os.path.join(tmp, "inc.asm")
    with open(inc, "w") as f:
        f.write("INCL  LDA #$42\n; comment in include\n\n      RTS  \n")
    nested = os.path.join(tmp, "nested.asm")
    with open(nested, "w") as f:
        f.write("      INCLUDE {}\nAFTER NOP  \n".format(inc))
    selfinc = os.path.join(tmp, "self.asm")
    with open(selfinc, "w") as f:
        f.write("      INCLUDE {}\n".format(selfinc))
    incs = {}
    incs["plain"] = assemble(["  ORG $0600", "  INCLUDE " + inc, "  JMP INCL"])
    incs["nested"] = assemble(["  ORG $0600", "  INCLUDE " + nested, "  JMP AFTER", "  JMP INCL"])
    incs["twice"] = assemble(["  ORG $0600", "  INCLUDE " + inc, "  INCLUDE " + inc])
    incs["self"] = assemble(["  ORG $0600", "  INCLUDE " + selfinc])
    incs["dir"] = assemble(["  ORG $0600", "  INCLUDE " + tmp])
    out["includes"] = json.loads(json.dumps(incs, default=repr).replace(tmp, "<TMP>"))

    # 5. command line tool
    import subprocess
    cli = {}
    cli_cases = [k for k in ORDER if len(PROGRAMS[k]) < 60]
    for k in cli_cases:
        src = os.path.join(tmp, k + ".asm")
        with open(src, "w") as f:
            f.write("\n".join(PROGRAMS[k]) + "\n")
        outs = {}
        for variant, extra in (("print", ["--print", "--symbols"]),
                               ("files", ["--to_bin", os.path.join(tmp, k + ".bin"), "--to_cas", os.path.join(tmp, k + ".cas"), "--to_dsk", os.path.join(tmp, k + ".dsk"), "--name", "TESTNAME"]),
                               ("noname", ["--symbols", "--to_cas", os.path.join(tmp, k + "_nn.cas")])):
            if variant != "print" and k.split("+")[0] not in ("simple", "no_org", "fcb_fdb_fcc", "name_only", "empty", "bad_mnemonic", "name_twice", "redefined_label"):
                continue
            r = subprocess.run([sys.executable, os.path.join(tree, "assembler.py"), src] + extra, cwd=tmp, stdout=subprocess.PIPE, stderr=subprocess.PIPE)
            outs[variant] = [r.returncode, r.stdout.decode("latin-1").replace(tmp, "<TMP>"), norm_stderr(r.stderr.decode("latin-1").replace(tmp, "<TMP>").replace(tree, "<TREE>"))]
        cli[k] = outs
    files = {}
    for name in sorted(os.listdir(tmp)):
        if not name.endswith(".asm"):
            with open(os.path.join(tmp, name), "rb") as f:
                data = f.read()
            files[name] = [len(data), hashlib.sha256(data).hexdigest()]
    cli["_files"] = files
    out["cli"] = cli
finally:
    shutil.rmtree(tmp, ignore_errors=True)

# 6. module level tables are still what they were (read-only by convention)
out["tables"] = {
    "n_instructions": len(INSTRUCTIONS),
    "instr_digest": hashlib.sha256(repr([tuple(i) for i in INSTRUCTIONS]).encode()).hexdigest(),
    "mnemonics": [i.mnemonic for i in INSTRUCTIONS],
    "regexes": [statement_module.BLANK_LINE_REGEX.pattern, statement_module.COMMENT_LINE_REGEX.pattern, statement_module.ASM_LINE_REGEX.pattern, statement_module.DIR_REGEX.pattern],
    "instruction_defaults": repr(Instruction()),
    "mode_defaults": repr(Mode()),
}

@EXTRA@

# 7. after all of the above, the first pass is still reproduced
out["pass_final"] = {k: assemble(PROGRAMS[k]) for k in ORDER}
out["final_equals_first"] = all(out["pass1"][k] == out["pass_final"][k] for k in ORDER)
out["n_cases"] = len(ORDER) + len(SINGLE)

sys.stdout.write("\n===JSON===\n" + json.dumps(out, sort_keys=True, default=repr))
'''

EXTRA = r'''
# focus of refactoring r: Program.get_binary_array / all_sizes_fixed / get_symbol_table / get_statements / parse
from cocoasm.values import StringValue, MultiByteValue, MultiWordValue, SymbolValue, ExpressionValue
def fabricated(values_triplets, flags=None):
    prog = Program()
    sts = []
    for n, (a, b, c) in enumerate(values_triplets):
        st = Statement("L{}  NOP  ; fabricated".format(n))
        st.code_pkg = CodePackage(op_code=a, post_byte=b, additional=c, address=NumericValue(0x100 + n), size=1)
        if flags:
            st.is_empty, st.is_comment_only, st.fixed_size = flags[n]
        sts.append(st)
    prog.statements = sts
    res = {}
    for name, fn in (("binary", prog.get_binary_array), ("fixed", prog.all_sizes_fixed), ("listing", prog.get_statements), ("symbols", prog.get_symbol_table)):
        try:
            res[name] = fn()
        except BaseException as e:
            res[name] = ["EXC", type(e).__name__, str(e)]
    return res
N = NoneValue
sym_resolved = SymbolValue("ABC"); 
extra = {}
extra["mixed"] = fabricated([
    (NumericValue(0x3A), N(), N()),
    (NumericValue(0x10AF), NumericValue(0x8C), NumericValue(0xF9)),
    (NumericValue(0x1), NumericValue(0x0), NumericValue(0x123)),
    (NumericValue(0x1234, size_hint=2), N(), NumericValue(5, size_hint=4)),
    (N(), N(), StringValue('"HI THERE"')),
    (N(), N(), MultiByteValue("1,2,$FF")),
    (N(), N(), MultiWordValue("$DEAD,1")),
    (AddressValue(0x600), AddressValue(5), AddressValue(0x12345)),
    (sym_resolved, N(), N()),
    (NumericValue(0xFFFF), NumericValue(0xFF), NumericValue(0xFFFF)),
])
extra["flags"] = fabricated(
    [(NumericValue(1), N(), N()), (NumericValue(2), N(), N()), (NumericValue(3), N(), N()), (NumericValue(4), N(), N())],
    flags=[(False, False, True), (True, False, True), (False, True, False), (True, True, True)])
extra["all_unfixed"] = fabricated([(NumericValue(1), N(), N())] * 3, flags=[(False, False, False)] * 3)
extra["last_unfixed"] = fabricated([(NumericValue(1), N(), N())] * 3, flags=[(False, False, True), (False, False, True), (False, False, 0)])
extra["truthy_fixed"] = fabricated([(NumericValue(1), N(), N())] * 2, flags=[(0, "", 1), ("", 0, "yes")])
class Odd(NoneValue):
    def hex(self, size=0): return "ABC"
    def hex_len(self): return 3
class Short(NoneValue):
    def hex(self, size=0): return "AB"
    def hex_len(self): return 6
class Neg(NoneValue):
    def hex(self, size=0): raise RuntimeError("hex must not be called")
    def hex_len(self): return -2
class NotHex(NoneValue):
    def hex(self, size=0): return "ZZ"
    def hex_len(self): return 2
extra["odd"] = fabricated([(Odd(), N(), N())])
extra["short"] = fabricated([(N(), Short(), N())])
extra["neg"] = fabricated([(N(), N(), Neg())])
extra["nothex"] = fabricated([(NumericValue(1), NotHex(), NumericValue(2))])
# symbol table formatting with short / long / empty values
prog = Program()
prog.symbol_table = {"A": NumericValue(1), "B": NumericValue(0x1234), "C": NoneValue(), "E": AddressValue(7), "": NumericValue(0), "F": StringValue('"AB"')}
extra["symbol_format"] = prog.get_symbol_table()
# parse: ordering of errors and filtering
def try_parse(lines):
    try:
        return [[s.label, s.mnemonic, s.comment, s.is_empty, s.is_comment_only] for s in Program.parse(lines)]
    except BaseException as e:
        return ["EXC", type(e).__name__, safe_str(e), repr(getattr(e, "statement", None))]
extra["parse"] = [try_parse(x) for x in (
    [], [""], ["; only"], ["  NOP  ", "", "; c", "A  LDA #1 ; x"], ["  NOP  ", "  BAD 1", "!!!"], ["!!!", "  BAD 1"],
    iter(["  NOP  ", "  RTS  "]), ("  NOP  ",), ["  FCC", "  FCC  "],
)]
gen = (l for l in ["  NOP  ", "; c", "  RTS  "])
extra["parse_generator"] = try_parse(gen)
extra["parse_returns_list"] = type(Program.parse([])).__name__
out["extra"] = extra

'''


def run(tree, seed):
    env = dict(os.environ)
    env["PYTHONHASHSEED"] = seed
    env["PYTHONDONTWRITEBYTECODE"] = "1"
    env.pop("PYTHONPATH", None)
    code = DRIVER.replace("@EXTRA@", EXTRA).replace("@FOCUS@", "x")
    proc = subprocess.run([PYTHON, "-c", code], cwd=tree, env=env, stdout=subprocess.PIPE, stderr=subprocess.PIPE)
    if proc.returncode != 0:
        print("driver failed in", tree, "seed", seed)
        print(proc.stderr.decode()[-3000:])
        sys.exit(1)
    text = proc.stdout.decode()
    return json.loads(text.split("\n===JSON===\n", 1)[1])


def diff(a, b, path=""):
    found = []
    if type(a) != type(b):
        return ["{}: type {} vs {}".format(path, type(a).__name__, type(b).__name__)]
    if isinstance(a, dict):
        for k in sorted(set(a) | set(b)):
            if k not in a or k not in b:
                found.append("{}/{}: only in one tree".format(path, k))
            else:
                found.extend(diff(a[k], b[k], path + "/" + str(k)))
    elif isinstance(a, list):
        if len(a) != len(b):
            found.append("{}: length {} vs {}".format(path, len(a), len(b)))
        for i, (x, y) in enumerate(zip(a, b)):
            found.extend(diff(x, y, "{}[{}]".format(path, i)))
    elif a != b:
        found.append("{}: {!r} vs {!r}".format(path, a, b))
    return found


def main():
    if len(sys.argv) != 3:
        print(__doc__)
        return 2
    tree_a, tree_b = (os.path.abspath(p) for p in sys.argv[1:3])
    bad = 0
    reference = None
    for seed in ("0", "1", "4242"):
        a = run(tree_a, seed)
        b = run(tree_b, seed)
        problems = diff(a, b)
        for tag, doc in (("A", a), ("B", b)):
            if not doc["history_independent"] or not doc["final_equals_first"]:
                print("seed {}: tree {} is history dependent".format(seed, tag))
                bad += 1
        if reference is None:
            reference = a
        elif diff(reference, a):
            print("seed {}: tree A differs from its own seed-0 run".format(seed))
            bad += 1
        if problems:
            bad += len(problems)
            print("seed {}: {} differences".format(seed, len(problems)))
            for p in problems[:40]:
                print("   ", p[:600])
        else:
            print("seed {}: {} cases agree".format(seed, a["n_cases"]))
    print("EQUIVALENT" if not bad else "DIFFERENT")
    return 0 if not bad else 1


if __name__ == "__main__":
    sys.exit(main())
