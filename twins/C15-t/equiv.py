"""
Differential check for property C15 (disk space accounting).

Usage: equiv.py <treeA> <treeB>

Runs the same driver once per tree (subprocess, tree as cwd and at the front
of sys.path), collects every observable result as JSON, and compares.
Exit status 0 if all cases agree, 1 otherwise.
"""
import hashlib
import json
import os
import subprocess
import sys
import tempfile


# --------------------------------------------------------------------------
# Driver: executed inside a subprocess with the tree under test importable.
# --------------------------------------------------------------------------

def driver(tree, workdir):
    sys.path.insert(0, tree)
    os.chdir(tree)

    from cocoasm.virtualfiles.disk import (
        DiskFile, DiskConstants, MLPreamble, BasicPreamble, ASCIIPreamble, Postamble,
    )
    from cocoasm.virtualfiles.cassette import CassetteFile
    from cocoasm.virtualfiles.coco_file import CoCoFile
    from cocoasm.virtualfiles.source_file import SourceFile, SourceFileType
    from cocoasm.virtualfiles.virtual_file import VirtualFile, VirtualFileType
    from cocoasm.values import NumericValue
    import cocoasm.virtualfiles.disk as disk_module
    assert os.path.realpath(disk_module.__file__).startswith(os.path.realpath(tree)), disk_module.__file__

    results = []

    def digest(buffer):
        try:
            return hashlib.sha256(bytes(buffer)).hexdigest()
        except Exception:
            return hashlib.sha256(repr(buffer).encode()).hexdigest()

    def observe(func):
        try:
            return ["ok", func()]
        except BaseException as error:  # noqa - we want everything, SystemExit included
            return ["raised", type(error).__name__, str(error)]

    def record(name, func):
        results.append([name, observe(func)])

    def fat_of(buffer):
        return list(buffer[DiskConstants.FAT_OFFSET:DiskConstants.FAT_OFFSET + 68])

    def dir_first_bytes(buffer):
        return [buffer[DiskConstants.DIR_OFFSET + 32 * n] for n in range(72)]

    def describe_files(files):
        return [
            [f.name, f.extension, f.type.hex(), f.data_type.hex(), f.load_addr.hex(), f.exec_addr.hex(),
             len(f.data), hashlib.sha256(bytes(f.data)).hexdigest(), str(f)]
            for f in files
        ]

    def make_file(index, length, kind="ml", plain=False):
        data = [(index * 7 + n) & 0xFF for n in range(length)]
        if plain:
            data = [0x20 + ((index + n) % 7) for n in range(length)]
        name = "F{:03d}".format(index)
        if kind == "ml":
            return CoCoFile(name=name, extension="BIN", type=NumericValue(2), data_type=NumericValue(0),
                            load_addr=NumericValue(0x0E00 + index), exec_addr=NumericValue(0x0E10 + index),
                            data=data)
        if kind == "ascii":
            return CoCoFile(name=name, extension="TXT", type=NumericValue(0), data_type=NumericValue(0xFF),
                            data=[0x41 + (n % 26) for n in range(length)])
        return CoCoFile(name=name, extension="BAS", type=NumericValue(0), data_type=NumericValue(0),
                        data=data)

    # ---- constants -------------------------------------------------------
    record("const.fill_order", lambda: list(DiskConstants.GRANULE_FILL_ORDER))
    record("const.fill_order_type", lambda: type(DiskConstants.GRANULE_FILL_ORDER).__name__)
    record("const.misc", lambda: [
        DiskConstants.FAT_OFFSET, DiskConstants.DIR_OFFSET, DiskConstants.HALF_TRACK_LEN,
        DiskConstants.SECTORS_PER_TRACK, DiskConstants.BYTES_PER_SECTOR, DiskConstants.TOTAL_GRANULES,
        DiskConstants.PREAMBLE_LEN, DiskConstants.POSTAMBLE_LEN, DiskConstants.IMAGE_SIZE,
    ])
    record("default_fill_order_is_constant",
           lambda: DiskFile().granule_fill_order is DiskConstants.GRANULE_FILL_ORDER)
    record("empty_fill_order_falls_back", lambda: list(DiskFile(granule_fill_order=[]).granule_fill_order))

    # ---- granule_in_use / directory_entry_in_use --------------------------
    empty = DiskFile()
    for number in range(-3, 72):
        record("granule_in_use.empty.{}".format(number), lambda n=number: empty.granule_in_use(n))
    for number in range(-3, 76):
        record("dir_in_use.empty.{}".format(number), lambda n=number: empty.directory_entry_in_use(n))

    patterned = [(n * 37) & 0xFF for n in range(DiskConstants.IMAGE_SIZE)]
    for offset, value in ((0, 0xFF), (5, 0x00), (67, 0xFF), (33, 0xC1), (34, 0x99)):
        patterned[DiskConstants.FAT_OFFSET + offset] = value
    for slot, value in ((0, 0x00), (1, 0xFF), (2, 0x41), (70, 0xFF), (71, 0x00)):
        patterned[DiskConstants.DIR_OFFSET + 32 * slot] = value
    pattern_disk = DiskFile(buffer=list(patterned))
    record("granule_in_use.pattern", lambda: [pattern_disk.granule_in_use(n) for n in range(68)])
    record("dir_in_use.pattern", lambda: [pattern_disk.directory_entry_in_use(n) for n in range(72)])
    record("find_granule.pattern", lambda: pattern_disk.find_empty_granule())
    record("find_dir.pattern", lambda: pattern_disk.find_empty_directory_entry())

    # ---- find_empty_directory_entry with k leading / scattered slots used --
    for used in range(0, 73):
        def case(k=used):
            disk = DiskFile()
            for slot in range(min(k, 72)):
                disk.buffer[DiskConstants.DIR_OFFSET + 32 * slot] = 0x41
            before = digest(disk.buffer)
            found = disk.find_empty_directory_entry()
            return [found, before == digest(disk.buffer)]
        record("find_dir.leading_used.{}".format(used), case)

    def only_slot_free(free_slot, marker):
        disk = DiskFile(buffer=[0x41] * DiskConstants.IMAGE_SIZE)
        disk.buffer[DiskConstants.DIR_OFFSET + 32 * free_slot] = marker
        return disk.find_empty_directory_entry()
    for slot in (0, 1, 35, 69, 70, 71):
        for marker in (0x00, 0xFF):
            record("find_dir.only_free.{}.{:02X}".format(slot, marker),
                   lambda s=slot, m=marker: only_slot_free(s, m))

    # ---- find_empty_granule with assorted fill orders and FAT states -------
    default_order = list(DiskConstants.GRANULE_FILL_ORDER)
    orders = {
        "default": None,
        "ascending": list(range(68)),
        "descending": list(range(67, -1, -1)),
        "rotated": default_order[13:] + default_order[:13],
        "evens_odds": list(range(0, 68, 2)) + list(range(1, 68, 2)),
        "tuple": tuple(range(68)),
        "dupes69": [5] + list(range(68)),
        "dupes_missing": [3] * 68,
        "short67": list(range(67)),
        "short1": [0],
        "bad_value_first": [68] + list(range(67)),
        "bad_value_late": list(range(67)) + [99],
        "negative_late": list(range(67)) + [-1],
    }
    for order_name, order in orders.items():
        for used in (0, 1, 2, 33, 34, 66, 67, 68):
            def case(o=order, k=used):
                disk = DiskFile(granule_fill_order=o)
                sequence = list(o) if o else default_order
                marked = 0
                for granule in sequence:
                    if marked >= k:
                        break
                    if 0 <= granule < 68 and disk.buffer[DiskConstants.FAT_OFFSET + granule] == 0xFF:
                        disk.buffer[DiskConstants.FAT_OFFSET + granule] = 0xC1
                        marked += 1
                before = digest(disk.buffer)
                outcome = observe(disk.find_empty_granule)
                return [outcome, before == digest(disk.buffer)]
            record("find_granule.{}.{}".format(order_name, used), case)

    record("find_granule.all_zero_buffer", lambda: DiskFile(buffer=[0x00] * 161280).find_empty_granule())
    record("find_granule.short_buffer", lambda: DiskFile(buffer=[0xFF] * 100).find_empty_granule())
    record("find_dir.short_buffer", lambda: DiskFile(buffer=[0xFF] * 100).find_empty_directory_entry())

    # ---- calculate_granules_needed and friends ----------------------------
    lengths = sorted(set(
        [0, 1, 2, 3, 5, 10, 255, 256, 257]
        + [g * 2304 + d for g in (1, 2, 3, 10, 34, 67, 68, 69) for d in range(-12, 4)]
    ))

    def ml_pair():
        return MLPreamble(), Postamble()

    for length in lengths:
        data = [0] * length
        record("granules_needed.ml.{}".format(length),
               lambda d=data: DiskFile.calculate_granules_needed(d, *ml_pair()))
        record("granules_needed.ml_nopost.{}".format(length),
               lambda d=data: DiskFile.calculate_granules_needed(d, MLPreamble(), None))
        record("granules_needed.basic.{}".format(length),
               lambda d=data: DiskFile.calculate_granules_needed(d, BasicPreamble(), None))
        record("granules_needed.ascii.{}".format(length),
               lambda d=data: DiskFile.calculate_granules_needed(d, ASCIIPreamble(), None))
        record("last_sector_bytes.ml.{}".format(length),
               lambda d=data: DiskFile.calculate_last_sector_bytes_used(d, *ml_pair()))
        record("last_sector_bytes.ascii.{}".format(length),
               lambda d=data: DiskFile.calculate_last_sector_bytes_used(d, ASCIIPreamble(), None))
        record("last_granule_sectors.ml.{}".format(length),
               lambda d=data: DiskFile.calculate_last_granules_sectors_used(d, *ml_pair()))
        record("last_granule_sectors.basic.{}".format(length),
               lambda d=data: DiskFile.calculate_last_granules_sectors_used(d, BasicPreamble(), None))
    record("granules_needed.bytes_input",
           lambda: DiskFile.calculate_granules_needed(b"\x00" * 5000, BasicPreamble(), None))
    record("granules_needed.result_type",
           lambda: type(DiskFile.calculate_granules_needed([0] * 5000, BasicPreamble(), None)).__name__)
    record("granules_needed.none_preamble",
           lambda: DiskFile.calculate_granules_needed([0] * 10, None, None))
    record("granules_needed.instance_call",
           lambda: DiskFile().calculate_granules_needed([0] * 2304, MLPreamble(), Postamble()))

    # ---- histories: fill a disk until it refuses ---------------------------
    def run_history(name, specs, fill_order=None, keep_going_after_failure=2):
        disk = DiskFile(granule_fill_order=fill_order)
        failures = 0
        steps = []
        for index, (length, kind) in enumerate(specs):
            coco_file = make_file(index, length, kind)
            outcome = observe(lambda: disk.add_file(coco_file))
            steps.append([index, length, kind, outcome, digest(disk.buffer), fat_of(disk.buffer),
                          dir_first_bytes(disk.buffer)])
            if outcome[0] == "raised":
                failures += 1
                if failures > keep_going_after_failure:
                    break
        record("history.{}.steps".format(name), lambda: steps)
        record("history.{}.final_buffer".format(name), lambda: digest(disk.get_buffer()))
        record("history.{}.buffer_len".format(name), lambda: len(disk.get_buffer()))
        record("history.{}.list_files".format(name),
               lambda: describe_files(DiskFile(buffer=list(disk.get_buffer())).list_files()))
        return disk

    small = [(10, "ml")] * 76
    run_history("many_small_ml", small)
    run_history("many_small_mixed", [(n % 40, ("ml", "basic", "ascii")[n % 3]) for n in range(76)])
    run_history("many_empty_ascii", [(0, "ascii")] * 75)
    run_history("few_large_ml", [(2304 * 10, "ml")] * 8)
    run_history("few_large_exact", [(2304 * 17 - 10, "ml")] * 5)
    run_history("few_large_basic", [(2304 * 22 + 100, "basic")] * 4)
    run_history("granule_grid_ascii", [(2304 * n, "ascii") for n in range(1, 12)])
    run_history("mixture", [((n * 977) % 9000, ("ml", "basic", "ascii")[n % 3]) for n in range(60)])
    run_history("mixture_then_small",
                [(2304 * 20, "ml"), (2304 * 20, "basic"), (2304 * 20, "ascii")] + [(5, "ml")] * 12)
    run_history("one_huge", [(2304 * 68, "ascii"), (1, "ml")])
    run_history("exact_capacity", [(2304 * 68 - 1, "ascii"), (0, "ascii")])
    run_history("too_long_for_word", [(70000, "ml"), (70000, "ascii"), (3, "ml")])
    run_history("ascending_order", [(3000, "ml")] * 36, fill_order=list(range(68)))
    run_history("descending_order", [(3000, "basic")] * 36, fill_order=list(range(67, -1, -1)))
    run_history("rotated_order", [((n * 613) % 7000, "ml") for n in range(50)],
                fill_order=default_order[13:] + default_order[:13])
    run_history("evens_odds_small", small, fill_order=list(range(0, 68, 2)) + list(range(1, 68, 2)))
    run_history("dupes_order", [(2400, "ml")] * 5, fill_order=[3] * 68)
    run_history("short_order", [(10, "ml")] * 2, fill_order=list(range(10)))
    run_history("bad_order", [(2304 * 3, "ml")] * 30, fill_order=list(range(60)) + [70] * 8)

    def prefilled_directory(name, used_slots, specs, fill_order=None):
        buffer = [0xFF] * DiskConstants.IMAGE_SIZE
        for slot in used_slots:
            buffer[DiskConstants.DIR_OFFSET + 32 * slot] = 0x5A
        disk = DiskFile(buffer=buffer, granule_fill_order=fill_order)
        steps = []
        for index, (length, kind) in enumerate(specs):
            outcome = observe(lambda: disk.add_file(make_file(index, length, kind)))
            steps.append([index, outcome, digest(disk.buffer), fat_of(disk.buffer), dir_first_bytes(disk.buffer),
                          observe(disk.find_empty_directory_entry), observe(disk.find_empty_granule)])
        record("dirfull.{}".format(name), lambda: steps)

    prefilled_directory("slots_0_68_used", range(69), [(10, "ml")] * 5)
    prefilled_directory("slots_0_69_used", range(70), [(10, "basic"), (2304 * 3, "ml"), (0, "ascii")])
    prefilled_directory("slots_0_70_used", range(71), [(10, "ml"), (2304 * 30, "ascii"), (2304 * 40, "ascii")])
    prefilled_directory("all_slots_used", range(72), [(10, "ml"), (5000, "basic")])
    prefilled_directory("only_slot_71_free", [n for n in range(72) if n != 71], [(10, "ml")] * 3)
    prefilled_directory("only_slot_40_free", [n for n in range(72) if n != 40], [(10, "ml")] * 3)
    prefilled_directory("odd_slots_used", range(1, 72, 2), [(2304, "ml")] * 40, fill_order=list(range(68)))
    prefilled_directory("dir_full_and_big", range(72), [(2304 * 70, "ascii")])

    def add_files_history():
        disk = DiskFile()
        files = [make_file(n, 2304 * 9, "ml") for n in range(9)]
        outcome = observe(lambda: disk.add_files(files))
        return [outcome, digest(disk.get_buffer()), fat_of(disk.buffer), dir_first_bytes(disk.buffer)]
    record("add_files.granule_exhaustion", add_files_history)

    def add_files_slots():
        disk = DiskFile()
        files = [make_file(n, 1, "basic") for n in range(73)]
        outcome = observe(lambda: disk.add_files(files))
        return [outcome, digest(disk.get_buffer()), fat_of(disk.buffer), dir_first_bytes(disk.buffer)]
    record("add_files.slot_exhaustion", add_files_slots)

    def add_to_existing_image():
        first = DiskFile()
        first.add_files([make_file(n, 4000, "ml") for n in range(5)])
        second = DiskFile(buffer=list(first.get_buffer()))
        outcomes = [observe(lambda n=n: second.add_file(make_file(100 + n, 2304 * 12, "basic"))) for n in range(6)]
        return [outcomes, digest(second.get_buffer()), fat_of(second.buffer),
                observe(lambda: describe_files(DiskFile(buffer=list(second.get_buffer())).list_files()))]
    record("add_to_existing_image", add_to_existing_image)

    # ---- VirtualFile.save_virtual_file ------------------------------------
    def host_state(path):
        if not os.path.exists(path):
            return None
        with open(path, "rb") as handle:
            content = handle.read()
        return [len(content), hashlib.sha256(content).hexdigest()]

    def save_case(label, vf_type, files, preexisting, append, declared_type=True):
        path = os.path.join(workdir, "save_{}.img".format(label))
        if preexisting is not None:
            with open(path, "wb") as handle:
                handle.write(preexisting)
        before = host_state(path)
        virtual_file = VirtualFile(SourceFile(path, file_type=SourceFileType.BINARY),
                                   virtual_file_type=vf_type if declared_type else None)
        opened = observe(lambda: virtual_file.open_virtual_file())
        if not declared_type:
            virtual_file.virtual_file_type = vf_type
        for coco_file in files:
            virtual_file.add_coco_file(coco_file)
        saved = observe(lambda: virtual_file.save_virtual_file(append_mode=append))
        if saved[0] == "raised":
            saved[2] = saved[2].replace(workdir, "<WORK>")
        if opened[0] == "raised":
            opened[2] = opened[2].replace(workdir, "<WORK>")
        return [opened, saved, before, host_state(path), str(virtual_file.virtual_file_type)]

    ok_files = [make_file(n, 3000 + n, ("ml", "basic", "ascii")[n % 3]) for n in range(6)]
    too_many = [make_file(n, 4, "ml") for n in range(74)]
    too_big = [make_file(n, 2304 * 15, "ml") for n in range(6)]
    cli_too_big = [make_file(n, 2304 * 9, "ml", plain=True) for n in range(9)]
    cli_just_fits = [make_file(n, 2304 * 4 - 11, "ml", plain=True) for n in range(17)]
    existing_image = bytes(DiskFile().get_buffer())
    good_disk = DiskFile()
    good_disk.add_files(ok_files[:2])
    existing_good = bytes(good_disk.get_buffer())
    existing_cas_container = CassetteFile()
    existing_cas_container.add_files(ok_files[:2])
    existing_cas = bytes(existing_cas_container.get_buffer())

    for vf_type in (VirtualFileType.DISK, VirtualFileType.CASSETTE, VirtualFileType.BINARY,
                    VirtualFileType.UNKNOWN):
        tag = vf_type.name.lower()
        record("save.{}.new.ok".format(tag), lambda t=vf_type, g=tag: save_case(g + "_new_ok", t, ok_files[:1], None, False))
        record("save.{}.new.append".format(tag), lambda t=vf_type, g=tag: save_case(g + "_new_app", t, ok_files[:1], None, True))
        record("save.{}.new.none".format(tag), lambda t=vf_type, g=tag: save_case(g + "_new_none", t, [], None, False))
    record("save.disk.new.many_ok", lambda: save_case("d_many", VirtualFileType.DISK, ok_files, None, False))
    record("save.disk.new.too_many", lambda: save_case("d_slots", VirtualFileType.DISK, too_many, None, False))
    record("save.disk.new.too_big", lambda: save_case("d_big", VirtualFileType.DISK, too_big, None, False))
    record("save.disk.exists.no_append", lambda: save_case("d_ex_na", VirtualFileType.DISK, ok_files[2:4], existing_good, False))
    record("save.disk.exists.append", lambda: save_case("d_ex_a", VirtualFileType.DISK, ok_files[2:4], existing_good, True))
    record("save.disk.exists.append.too_many", lambda: save_case("d_ex_a_slots", VirtualFileType.DISK, too_many, existing_good, True))
    record("save.disk.exists.append.too_big", lambda: save_case("d_ex_a_big", VirtualFileType.DISK, too_big, existing_good, True))
    record("save.disk.exists.no_append.too_big", lambda: save_case("d_ex_na_big", VirtualFileType.DISK, too_big, existing_good, False))
    record("save.disk.exists.no_append.too_many", lambda: save_case("d_ex_na_slots", VirtualFileType.DISK, too_many, existing_good, False))
    record("save.disk.exists_blank.append", lambda: save_case("d_blank_a", VirtualFileType.DISK, ok_files, existing_image, True))
    record("save.disk.exists_is_cas", lambda: save_case("d_is_cas", VirtualFileType.DISK, ok_files[:1], existing_cas, True))
    record("save.disk.undeclared.exists.append", lambda: save_case("d_undecl", VirtualFileType.DISK, ok_files[2:3], existing_good, True, declared_type=False))
    record("save.cas.exists.no_append", lambda: save_case("c_ex_na", VirtualFileType.CASSETTE, ok_files[2:3], existing_cas, False))
    record("save.cas.exists.append", lambda: save_case("c_ex_a", VirtualFileType.CASSETTE, ok_files[2:3], existing_cas, True))
    record("save.bin.exists.no_append", lambda: save_case("b_ex_na", VirtualFileType.BINARY, ok_files[:1], b"\x01\x02\x03", False))
    record("save.bin.exists.append", lambda: save_case("b_ex_a", VirtualFileType.BINARY, ok_files[:1], b"\x01\x02\x03", True))
    record("save.none_type", lambda: save_case("none_type", None, ok_files[:1], None, False))

    # ---- command line: file_util.py ----------------------------------------
    def run_cli(arguments):
        completed = subprocess.run(
            [sys.executable, os.path.join(tree, "file_util.py")] + arguments,
            cwd=tree, stdout=subprocess.PIPE, stderr=subprocess.PIPE, timeout=600,
        )
        return [completed.returncode,
                completed.stdout.decode("utf-8", "replace").replace(workdir, "<WORK>"),
                completed.stderr.decode("utf-8", "replace").replace(workdir, "<WORK>").replace(tree, "<TREE>")]

    def write_host(name, content):
        path = os.path.join(workdir, name)
        with open(path, "wb") as handle:
            handle.write(bytes(content))
        return path

    def cassette_of(files):
        container = CassetteFile()
        container.add_files(files)
        return container.get_buffer()

    def cli_case(label, source_files, preexisting_target=None, extra=None):
        source = write_host("cli_{}_src.cas".format(label), cassette_of(source_files))
        target = os.path.join(workdir, "cli_{}_dst.dsk".format(label))
        if preexisting_target is not None:
            write_host("cli_{}_dst.dsk".format(label), preexisting_target)
        before = host_state(target)
        convert = run_cli([source, "--to_dsk", target] + (extra or []))
        after = host_state(target)
        listing = run_cli([target, "--list"]) if after else None
        return [before, convert, after, listing]

    record("cli.to_dsk.small", lambda: cli_case("small", ok_files[:3]))
    record("cli.to_dsk.too_many", lambda: cli_case("too_many", too_many))
    record("cli.to_dsk.too_big", lambda: cli_case("too_big", cli_too_big))
    record("cli.to_dsk.just_fits", lambda: cli_case("just_fits", cli_just_fits))
    record("cli.to_dsk.one_too_many", lambda: cli_case("one_too_many", cli_just_fits + [make_file(40, 1, "ml", plain=True)]))
    record("cli.to_dsk.seventy", lambda: cli_case("seventy", too_many[:70]))
    record("cli.to_dsk.seventy_one", lambda: cli_case("seventy_one", too_many[:71]))
    record("cli.to_dsk.seventy_two", lambda: cli_case("seventy_two", too_many[:72]))
    record("cli.to_dsk.exists.no_append", lambda: cli_case("ex_na", ok_files[:2], existing_good))
    record("cli.to_dsk.exists.append", lambda: cli_case("ex_a", ok_files[2:4], existing_good, ["--append"]))
    record("cli.to_dsk.exists.append.too_big", lambda: cli_case("ex_a_big", cli_too_big, existing_good, ["--append"]))
    record("cli.to_dsk.exists.no_append.too_big", lambda: cli_case("ex_na_big", cli_too_big, existing_good))
    record("cli.to_dsk.files_filter", lambda: cli_case("filter", ok_files, None, ["--files", "f001", "F004"]))

    def cli_list_full_disk():
        disk = DiskFile()
        for n in range(80):
            try:
                disk.add_file(make_file(n, 3000, "ml"))
            except Exception:
                pass
        path = write_host("cli_full.dsk", disk.get_buffer())
        return run_cli([path, "--list"])
    record("cli.list.full_disk", cli_list_full_disk)

    def cli_list_slot_full_disk():
        disk = DiskFile()
        for n in range(74):
            try:
                disk.add_file(make_file(n, 3, "ml"))
            except Exception:
                pass
        path = write_host("cli_slots.dsk", disk.get_buffer())
        return run_cli([path, "--list"])
    record("cli.list.slot_full_disk", cli_list_slot_full_disk)
    record("cli.list.blank_disk", lambda: run_cli([write_host("cli_blank.dsk", existing_image), "--list"]))

    return results


# --------------------------------------------------------------------------
# Comparison harness
# --------------------------------------------------------------------------

def run_tree(tree):
    tree = os.path.realpath(tree)
    with tempfile.TemporaryDirectory(prefix="c15equiv_") as workdir:
        environment = dict(os.environ)
        environment["PYTHONPATH"] = tree
        environment["PYTHONDONTWRITEBYTECODE"] = "1"
        environment["PYTHONHASHSEED"] = "0"
        completed = subprocess.run(
            [sys.executable, os.path.abspath(__file__), "--driver", tree, workdir],
            cwd=tree, env=environment, stdout=subprocess.PIPE, stderr=subprocess.PIPE,
        )
    if completed.returncode != 0:
        sys.stderr.write(completed.stderr.decode("utf-8", "replace"))
        raise SystemExit("driver failed for {}".format(tree))
    return json.loads(completed.stdout.decode("utf-8"))


def main(argv):
    if len(argv) >= 2 and argv[1] == "--driver":
        tree, workdir = argv[2], argv[3]
        json.dump(driver(tree, workdir), sys.stdout)
        return 0

    if len(argv) != 3:
        sys.stderr.write(__doc__)
        return 2

    results_a = run_tree(argv[1])
    results_b = run_tree(argv[2])
    names_a = [name for name, _ in results_a]
    names_b = [name for name, _ in results_b]
    status = 0
    if names_a != names_b:
        print("DIFFERENT CASE LISTS")
        status = 1
    table_b = dict((name, value) for name, value in results_b)
    mismatches = 0
    for name, value in results_a:
        if name in table_b and table_b[name] != value:
            mismatches += 1
            status = 1
            if mismatches <= 20:
                print("MISMATCH {}:\n  A: {}\n  B: {}".format(name, json.dumps(value)[:600], json.dumps(table_b[name])[:600]))
    raised = sum(1 for _, value in results_a if value[0] == "raised")
    print("{} cases compared ({} raise at top level), {} mismatches".format(len(results_a), raised, mismatches))
    return status


if __name__ == "__main__":
    sys.exit(main(sys.argv))
