#!/venv/bin/python
"""
Differential demonstration for the assembler side of CoCoAssembler.

Usage: equiv.py <treeA> <treeB>

One driver subprocess per tree (tree at the front of sys.path, private
temporary directory as cwd, fixed hash seed; a second driver per tree runs
under a different hash seed and must agree too).  The driver

  * assembles a corpus of accepted and rejected programs with Program, each
    one in a fresh Program, then the whole corpus again in the same process
    (forwards and backwards) so that state leaking between assemblies shows;
  * assembles every mnemonic with a set of operand templates;
  * probes the value / operand constructors, Statement parsing and the
    CodePackage / Program helpers directly;
  * runs assembler.py (in process through parse_arguments()/main() and as a
    real command) on files in the working directory, with INCLUDE files,
    missing files, cycles, --print --symbols and the three output kinds.

Recorded: image bytes, listing lines, symbol table lines, origin, name,
the source lines after assembly, exception type / message / statement text,
stdout, exit status, bytes of every file written.  Exit 0 = all agree.
"""
import contextlib
import hashlib
import io
import json
import os
import subprocess
import sys
import tempfile


def driver(tree):
    sys.path.insert(0, tree)
    import importlib.util
    from cocoasm.program import Program
    from cocoasm.statement import Statement
    from cocoasm.instruction import INSTRUCTIONS, CodePackage, Instruction, Mode
    from cocoasm import values as values_module
    from cocoasm import operands as operands_module
    from cocoasm.values import Value, NumericValue, NoneValue
    from cocoasm.operands import Operand
    from cocoasm.exceptions import TranslationError, ParseError
    from cocoasm.virtualfiles.source_file import SourceFile, SourceFileType

    spec = importlib.util.spec_from_file_location("assembler_under_test", os.path.join(tree, "assembler.py"))
    assembler = importlib.util.module_from_spec(spec)
    spec.loader.exec_module(assembler)

    results = []

    def safe(fn):
        try:
            return fn()
        except BaseException as error:  # noqa
            return "!{}: {}".format(type(error).__name__, error)

    def plain(value, depth=0):
        if depth > 6:
            return "..."
        if value is None or isinstance(value, (bool, int, float, str)):
            return value
        if isinstance(value, (list, tuple)):
            return [plain(x, depth + 1) for x in value]
        if isinstance(value, dict):
            return {str(k): plain(v, depth + 1) for k, v in value.items()}
        if isinstance(value, (bytes, bytearray)):
            return list(value)
        if isinstance(value, Value):
            out = {
                "class": type(value).__name__, "type": str(value.type), "int": value.int,
                "hex": safe(value.hex), "hex_len": safe(value.hex_len), "size_hint": value.size_hint,
                "mode": str(value.explict_addressing_mode), "negative": value.negative,
                "resolved": value.resolved, "ascii": plain(value.original_string, depth + 1),
                "8bit": safe(value.is_8_bit), "16bit": safe(value.is_16_bit),
            }
            for extra in ("left", "right", "operation", "hex_array"):
                if hasattr(value, extra):
                    out[extra] = plain(getattr(value, extra), depth + 1)
            if hasattr(value, "value") and not isinstance(value, type(None)):
                out["value"] = plain(getattr(value, "value"), depth + 1)
            return out
        if isinstance(value, Operand):
            return {
                "class": type(value).__name__, "type": str(value.type), "string": value.operand_string,
                "value": plain(value.value, depth + 1), "left": plain(value.left, depth + 1),
                "right": plain(value.right, depth + 1),
                "instruction": value.instruction.mnemonic if value.instruction else None,
            }
        if isinstance(value, CodePackage):
            return {k: plain(v, depth + 1) for k, v in sorted(vars(value).items())}
        if isinstance(value, Statement):
            return {
                "label": value.label, "mnemonic": value.mnemonic, "comment": value.comment,
                "empty": value.is_empty, "comment_only": value.is_comment_only,
                "fixed": value.fixed_size, "pcr": value.pcr_size_hint, "state": plain(value.state),
                "instruction": value.instruction.mnemonic if value.instruction else None,
                "operand": plain(value.operand, depth + 1), "original": plain(value.original_operand, depth + 1),
                "pkg": plain(value.code_pkg, depth + 1), "str": safe(lambda: str(value)),
            }
        if isinstance(value, Instruction):
            return "Instruction:" + value.mnemonic
        return "<{}>".format(type(value).__name__)

    def failure(error):
        out = {"error": type(error).__name__, "message": str(error)}
        if isinstance(error, (TranslationError, ParseError)):
            out["value"] = plain(error.value)
            out["statement"] = safe(lambda: str(error.statement))
        return out

    def safe_plain(fn):
        try:
            return plain(fn())
        except BaseException as error:  # noqa
            return failure(error)

    def case(name, fn):
        try:
            outcome = {"ok": plain(fn())}
        except SystemExit as stop:
            outcome = {"exit": plain(stop.code)}
        except BaseException as error:  # noqa
            outcome = failure(error)
        results.append([name, outcome])

    def assemble(lines):
        given = list(lines)
        program = Program()
        try:
            program.process(given)
        except BaseException as error:  # noqa
            out = failure(error)
            out["lines_after"] = given
            out["symbols_so_far"] = sorted(program.symbol_table)
            return out
        return {
            "bytes": program.get_binary_array(), "listing": program.get_statements(),
            "symbols": program.get_symbol_table(), "origin": plain(program.origin),
            "name": program.name, "lines_after": given, "lines_same": given == list(lines),
            "fixed": program.all_sizes_fixed(), "address": program.address,
        }

    # ------------------------------------------------------------------ corpus
    def src(text):
        return [line + "\n" for line in text.strip("\n").split("\n")]

    corpus = {}
    corpus["hello"] = src("""
        NAM HELLO
        ORG $0E00
START   LDX #MSG      ; point at text
LOOP    LDA ,X+
        BEQ DONE
        JSR [$A002]
        BRA LOOP
DONE    RTS
MSG     FCC "HELLO WORLD"
        FCB 0
        END START
""")
    corpus["modes"] = src("""
        ORG $3F00
VAL     EQU $20
WORD    EQU $1234
BEGIN   LDA #$10
        LDB #VAL
        LDD #WORD
        LDX #BEGIN
        LDA $20
        LDA <$20
        LDA >$20
        LDA $1234
        LDA VAL
        LDA WORD
        STA BEGIN
        STA BEGIN+2
        STA TAIL-1
        LDA ,X
        LDA 0,X
        LDA 5,Y
        LDA -5,U
        LDA 16,S
        LDA -17,X
        LDA 127,X
        LDA 128,X
        LDA -128,X
        LDA -129,X
        LDA $1000,Y
        LDA A,X
        LDA B,Y
        LDA D,U
        LDA ,X+
        LDA ,X++
        LDA ,-Y
        LDA ,--Y
        LDA [,X]
        LDA [,X++]
        LDA [,--S]
        LDA [5,X]
        LDA [$1000,U]
        LDA [A,X]
        LDA [D,Y]
        LDA [$2000]
        LDA [BEGIN]
        LDA BEGIN,PCR
        LDA TAIL,PCR
        LDA [TAIL,PCR]
        LDX TAIL+1,PCR
        LEAX 1,X
        LEAY TAIL,PCR
        LEAS -2,S
        LEAU D,U
        PSHS A,B,X
        PULS A,B,X,PC
        PSHU D,S
        PULU CC,DP
        TFR A,B
        TFR X,Y
        EXG D,X
        CLRA
        NEGB
        CLR VAL
        CLR WORD
        INC ,X
LOCAL   JMP BEGIN
        JSR TAIL
        LBRA BEGIN
        LBSR TAIL
        BNE LOCAL
        BEQ TAIL
        ADDD #1
        CMPX #$FFFF
        CMPY #10
        LDS #$7FFF
        SWI2
        SWI3
TAIL    NOP
        FDB BEGIN
        FDB $1,2,$FFFF
        FCB 1,2,$FF,'A
        FCB %10101010
        FDB %1010101010101010
        RMB 3
        FCC /slash string/
LAST    SWI
        END BEGIN
""")
    corpus["pcr_far"] = src("""
        ORG $1000
TOP     LDA FAR,PCR
        LDB NEAR,PCR
NEAR    RMB 100
        LEAX TOP,PCR
        RMB 60
        LEAY TOP,PCR
        LDX [FAR,PCR]
        RMB 200
FAR     FCB 1
        LDA TOP,PCR
        LDA FAR,PCR
        END TOP
""")
    corpus["branches"] = src("""
        ORG $2000
A1      BRA A3
A2      RMB 120
A3      BRA A1
        BSR A2
        LBEQ A1
        LBNE A9
        BCC A9
        RMB 120
A9      RTS
""")
    corpus["branch_too_far_fwd"] = src("""
S       BRA E
        RMB 128
E       RTS
""")
    corpus["branch_just_fwd"] = src("""
S       BRA E
        RMB 127
E       RTS
""")
    corpus["branch_too_far_back"] = src("""
S       RMB 127
        BRA S
""")
    corpus["branch_just_back"] = src("""
S       RMB 126
        BRA S
""")
    corpus["no_org"] = src("""
X1      LDA #1
        STA X1
        STA <X1
        JMP X1
""")
    corpus["low_org"] = src("""
        ORG $0010
P       LDA P
        LDA Q
        LDX #Q
        STA P+1
        RMB 250
Q       FCB 1
        LDA Q
        END
""")
    corpus["equ_expr"] = src("""
BASE    EQU $0400
SIZE    EQU 32
ENDS    EQU $0420
        ORG BASE
        LDA #SIZE
        LDX #ENDS
        LDX #BASE+SIZE
        LDY #SIZE*2
        LDB #SIZE/3
        LDU #BASE-SIZE
        LDA SIZE,X
        LDA ENDS,Y
        LDA SIZE+1,X
        STA BASE+1
        STA $10+$20
        STA 10*10
""")
    corpus["equ_expr_bad"] = src("""
BASE    EQU $0400
ENDS    EQU BASE+32
        LDX #ENDS
""")
    corpus["setdp_case"] = src("""
        nam lower
        org $4000
start   lda #$01   ; comment ; with ; semicolons
        ldb   #2;tight
loop    deca
        bne    loop
        Rts
        end  start
""")
    corpus["fcc_variants"] = src("""
        ORG $100
T1      FCC "A"
T2      FCC 'quoted text' trailing comment
T3      FCC /a;b/ ; comment
T4      FCC "two  spaces"
T5      FCC ""
""")
    corpus["comments_blank"] = [
        "; header comment\n", "\n", "   \n", "\t; indented comment\n", "* not a comment\n",
    ]
    corpus["comments_blank_ok"] = [
        "; header comment\n", "\n", "   \n", "\t; indented comment\n", " NOP ; x\n", "L NOP\n", ";end",
    ]
    corpus["dup_label"] = src("""
L1      NOP
L1      NOP
""")
    corpus["undefined"] = src("""
        LDA NOWHERE
""")
    corpus["undefined_branch"] = src("""
        BRA NOWHERE
""")
    corpus["undefined_expr"] = src("""
        LDA NOWHERE+1
""")
    corpus["bad_mnemonic"] = src("""
        NOP
        FOO #1
""")
    corpus["bad_line"] = ["LABEL\n"]
    corpus["bad_operand"] = src("""
        LDA #
""")
    corpus["bad_register"] = src("""
        PSHS Q
""")
    corpus["bad_register_own"] = src("""
        PSHS S
""")
    corpus["bad_tfr"] = src("""
        TFR A,X
""")
    corpus["tfr_one"] = src("""
        TFR A
""")
    corpus["psh_empty"] = src("""
        PSHS
""")
    corpus["imm_store"] = src("""
        STA #1
""")
    corpus["inherent_with_operand"] = src("""
        NOP 5
""")
    corpus["needs_operand"] = src("""
        LDA
""")
    corpus["no_indexed"] = src("""
        ORCC ,X
""")
    corpus["bad_ext_indirect"] = src("""
        LDA [,X+]
""")
    corpus["bad_ext_indirect2"] = src("""
        LDA [,-X]
""")
    corpus["bad_index_expr"] = src("""
        LDA 5,X+
""")
    corpus["too_big"] = src("""
        LDD #70000
""")
    corpus["hex_too_long"] = src("""
        LDD #$12345
""")
    corpus["bad_binary"] = src("""
        LDA #%101
""")
    corpus["neg_too_small"] = src("""
        LDD #-40000
""")
    corpus["fcc_unterminated"] = src("""
        FCC "ABC
""")
    corpus["fcc_missing"] = src("""
        FCC
""")
    corpus["symbol_neither"] = src("""
S       FCC "TXT"
        LDA S
T       EQU S
""")
    corpus["equ_label_ref"] = src("""
        ORG $600
ENTRY   NOP
ALIAS   EQU ENTRY
        JMP ALIAS
""")
    corpus["include_missing"] = src("""
        INCLUDE nothere.asm
""")
    for number, line in enumerate(("LDA XL,X", "LDA AB,Y", "LDA XL,PCR", "LDA PCRX,PCR", "LDA [AB,PCR]", "LDB DD,U",
                                   "LDA XL", "LDX #PCRX", "LDA [XL]", "LDA AB+1,X", "LEAX SS,PCR", "LDA UY,S")):
        corpus["register_labels_%d" % number] = src("""
        ORG $500
XL      FCB 1
AB      FCB 2
PCRX    FCB 3
SS      FCB 4
UY      FCB 5
DD      %s
        RTS
""" % line)
    corpus["neg_offsets"] = src("""
        LDA -1,X
        LDA -16,X
        LDA -17,X
        LDA 15,X
        LDA 16,X
        LDA [-1,X]
        LDA [-129,X]
        LDA [127,Y]
        LDA [128,Y]
        LDA [0,X]
        LDA $7F,X
        LDA $80,X
        LDA $0010,X
""")
    corpus["rmb_zero_fdb_single"] = src("""
        ORG $7000
R0      RMB 0
R1      FDB $12
R2      FDB R1
R3      FCB R9
R9      EQU 9
        FDB 1,
        FCB ,1
""")
    corpus["org_twice"] = src("""
        ORG $1000
A       NOP
        ORG $2000
B       NOP
        JMP A
        JMP B
        END A
""")
    corpus["name_twice"] = src("""
        NAM FIRST
        NOP
        NAM SECOND
""")
    corpus["at_labels"] = src("""
@LOOP   DECA
        BNE @LOOP
L@2     NOP
        BRA L@2
""")
    corpus["long_prog"] = src("\n".join(
        ["        ORG $0E00"] +
        ["L{0}     LDA #{0}\n        STA L{1}\n        BNE L{0}\n        LBRA L{2}".format(i, (i * 7) % 40, 39 - i)
         for i in range(40)] + ["        END L0"]))
    corpus["pcr_chain"] = src("\n".join(
        ["        ORG $0100"] +
        ["P{0}     LDA P{1},PCR\n        LEAX P{2},PCR\n        RMB {3}".format(i, (i + 3) % 12, (i * 5) % 12, 20 + i * 3)
         for i in range(12)]))

    names = list(corpus)
    for name in names:
        case("fresh " + name, lambda: assemble(corpus[name]))
    # history: the same programs again in the same interpreter, then in reverse order
    for name in names:
        case("again " + name, lambda: assemble(corpus[name]))
    for name in reversed(names):
        case("reverse " + name, lambda: assemble(corpus[name]))
    # the same list object assembled twice
    shared = list(corpus["modes"])
    case("shared list 1", lambda: assemble(shared))
    case("shared list 2", lambda: assemble(shared))
    case("shared list unchanged", lambda: shared == corpus["modes"])

    # ------------------------------------------------- every mnemonic x operands
    templates = ["", "#$12", "#$1234", "#LBL", "$12", "$1234", "<$12", ">$12", "LBL", "LBL+1", "FWD", "FWD-1",
                 ",X", "5,Y", "-3,U", "$80,S", "$1234,X", "A,X", "D,Y", ",X+", ",--U", "[,Y]", "[$1234]", "[LBL]",
                 "[4,S]", "[B,X]", "LBL,PCR", "FWD,PCR", "[FWD,PCR]", "A,B", "X,Y", "A,B,X,Y,U,PC", "CC,DP,S",
                 "1,2,3", "\"TXT\"", "name", "%00001111", "'Z", "-1", "300", "EQV", "EQV,X", "#EQV"]

    def one_statement(mnemonic, operand):
        return assemble([
            "        ORG $0E00\n", "EQV     EQU $44\n", "LBL     NOP\n",
            "TRY     {} {}\n".format(mnemonic, operand), "        RMB 140\n", "FWD     NOP\n",
        ])
    mnemonics = [instruction.mnemonic for instruction in INSTRUCTIONS]
    case("instruction table", lambda: [list(i.mode) + [i.mnemonic] + [bool(x) for x in i[2:]] for i in INSTRUCTIONS])
    for mnemonic in mnemonics:
        if mnemonic in ("INCLUDE",):
            continue
        case("sweep " + mnemonic, lambda: [[t, one_statement(mnemonic, t)] for t in templates])
        case("sweep lower " + mnemonic.lower(), lambda: one_statement(mnemonic.lower(), templates[7]))

    # ------------------------------------------------------ constructor probes
    literals = ["", "0", "1", "9", "15", "16", "127", "128", "255", "256", "32767", "32768", "65535", "65536",
                "-0", "-1", "-16", "-17", "-128", "-129", "-32768", "-32769", "$0", "$F", "$0F", "$FF", "$100",
                "$0100", "$FFFF", "$10000", "$G", "$", "%0", "%1", "%11111111", "%000000001", "%1111111100000000",
                "%2", "'A", "'a", "' ", "'", "''", "'AB", "A", "a1", "@A", "A@", "A_B", "1A", "A+1", "A-1", "1+1",
                "$10+$10", "$10*2", "7/2", "A+B", "A+", "+A", "A,B", ",X", "A,B,C", "$12,X", "<$12", ">$12", "#$12",
                "<A", ">A", "#A", "#", "<", ">$1234", "<$1234", "#-1", "#'A", "#%11110000", "A B", "[A]", "\"S\""]
    by_name = {i.mnemonic: i for i in INSTRUCTIONS}
    probe_instructions = [None] + [by_name[m] for m in ("LDA", "LDD", "FCC", "FCB", "FDB", "EQU", "BRA", "LBRA", "LEAX",
                                                        "PSHS", "TFR", "NOP", "ORG", "RMB", "INCLUDE", "NAM", "END")]
    for instruction in probe_instructions:
        tag = instruction.mnemonic if instruction else "None"
        for extended in (True, False):
            case("Value.create_from_str {} {}".format(tag, extended), lambda: [
                [text, safe_plain(lambda: Value.create_from_str(text, instruction, default_mode_extended=extended))]
                for text in literals])
        if instruction is not None:
            case("Operand.create_from_str " + tag, lambda: [
                [text, safe_plain(lambda: Operand.create_from_str(text, instruction))] for text in literals])

    numeric_inputs = literals + [0, 1, 15, 16, 127, 128, 255, 256, 65535, 65536, -1, -128, -129, -32768, -65535, -65536]
    for hint in (None, 2, 4):
        for mode in values_module.ExplicitAddressingMode:
            case("NumericValue hint={} mode={}".format(hint, mode), lambda: [
                [repr(item), safe_plain(lambda: NumericValue(item, size_hint=hint, mode=mode))] for item in numeric_inputs])
    case("NumericValue defaults", lambda: [[repr(item), safe_plain(lambda: NumericValue(item))] for item in numeric_inputs])
    case("NumericValue renderings", lambda: [
        [item, size, safe(lambda: NumericValue(item).hex(size=size)), safe(lambda: NumericValue(item).get_negative(size)),
         safe(lambda: NumericValue(item).high_byte()), safe(lambda: NumericValue(item).low_byte()),
         safe(lambda: NumericValue(item).byte_len()), safe(lambda: NumericValue(item).is_4_bit())]
        for item in (0, 1, 15, 16, 17, 127, 128, 129, 255, 256, 4095, 4096, 65535, -1, -15, -16, -17, -127, -128, -129, -255, -256, -32768)
        for size in (0, 2, 4, 6, None)])
    for class_name in ("MultiByteValue", "MultiWordValue", "StringValue", "LeftRightValue", "SymbolValue",
                       "AddressValue", "ExpressionValue", "NoneValue", "DirectNumericValue", "ExtendedNumericValue"):
        constructor = getattr(values_module, class_name)
        case("construct " + class_name, lambda: [
            [repr(item), safe_plain(lambda: constructor(item))]
            for item in literals + ["1,2", "$FF,$100", "1,,2", ",", "300,1", "70000,1", "\"AB\"", "/x/", "\"", "ab", 5, "17"]])

    def expressions():
        table = {"A": values_module.AddressValue(3), "N": NumericValue(5), "W": NumericValue("$1234"),
                 "S": values_module.StringValue("'x'"), "Z": NumericValue(0)}
        out = []
        for text in ("A+1", "1+A", "A-1", "N+1", "N*N", "W/N", "N/Z", "W-N", "N-W", "A+N", "A+A", "Q+1", "S+1",
                     "$10+N", "N+$1000", "A*2", "A/2", "70000+1", "65535+1", "3-4"):
            def run(text=text):
                value = values_module.ExpressionValue(text)
                resolved = value.resolve(table)
                extra = None
                if resolved.is_address_expression():
                    statements = [Statement("  NOP\n") for _ in range(5)]
                    for number, statement in enumerate(statements):
                        statement.code_pkg.address = NumericValue(0x1000 + number * 0x111)
                    extra = [resolved.extract_address_index_from_expression(), plain(resolved.calculate_address_offset(statements))]
                return [plain(resolved), extra]
            out.append([text, safe_plain(run)])
        return out
    case("expressions resolve", expressions)
    case("symbols resolve", lambda: [
        [text, safe_plain(lambda: values_module.SymbolValue(text).resolve(
            {"A": values_module.AddressValue(3), "N": NumericValue(5), "S": values_module.StringValue("'x'"), "NO": NoneValue()}))]
        for text in ("A", "N", "S", "NO", "Q")])

    # ------------------------------------------------------- statement probes
    lines = ["", " ", "\n", "; c", ";", "  ;  spaced  ", "LABEL", "LABEL NOP", " NOP", "\tNOP", " NOP ;c", " NOP;c", " nop",
             "L  LDA  #1  ; c", "L LDA #1 c", "L LDA #1,2 c", " LDA", " LDA  ", "L LDA ,X ; i", " LDA A,X extra words ; here",
             " FCC \"A B\" c", " FCC \"A B\"c", " FCC /A;B/;c", " FCC", " FCC \"", " FCC \"AB", " FCC A", " FCC ABA rest",
             " INCLUDE f.asm", " INCLUDE", " INCLUDE a b", " NAM X", " END", " END L", " ORG $10", " EQU 5", "L EQU", "L EQU 5",
             "L@ LDA @L", "1L NOP", "L: NOP", " XYZ 1", " XYZ", "L XYZ 1 ; c", " LDA #'A", " LDA #';", " LDA 1;2", " LDA 1 ;2",
             " LDA [1,X] ; c", " LDA <1", " LDA 1+", " LDA {", " LDA 1 {", "é NOP", " LDA é", " PSHS A,B", " PSHS a,b", " TFR a,b",
             " SETDP 1", " RMB 2", " FDB 1,2", " FCB 1,2 ; c", " FCB 1, 2", " LDA   #1   "]

    lines = lines + [line + "\n" for line in lines]

    def parses(line):
        try:
            Statement(line)
            return True
        except BaseException:  # noqa
            return False

    def parse_one(line):
        statement = Statement(line)
        return [plain(statement), safe(statement.get_include_filename) if statement.instruction else None]
    case("Statement parse", lambda: [[line, safe_plain(lambda: parse_one(line))] for line in lines])
    case("Program.parse", lambda: [plain(s) for s in Program.parse([l for l in lines if parses(l)])])
    case("Statement eq", lambda: [
        Statement(" NOP\n") == Statement(" NOP\n"), Statement(" NOP\n") == Statement(" NOP ; c\n"),
        Statement("L NOP\n") == Statement(" NOP\n"), Statement(" LDA #1\n") == Statement(" LDA #2\n"),
        Statement(" LDA #1\n") == Statement(" LDB #1\n"), Statement("; a") == Statement("; a"), Statement("") == Statement("; a")])

    def code_packages():
        first, second = CodePackage(), CodePackage()
        choices = []
        third = CodePackage(post_byte_choices=choices, size=3, max_size=5, additional=NumericValue(7))
        return [plain(first), plain(second), first.post_byte_choices is second.post_byte_choices,
                third.post_byte_choices is choices, first.op_code is second.op_code, first.address is second.address,
                plain(third), plain(CodePackage(NumericValue(1), NumericValue(2), NumericValue(3), NumericValue(4), 5, True, [1], 6))]
    case("CodePackage", code_packages)

    def program_helpers():
        program = Program()
        before = [plain(program.symbol_table), plain(program.statements), program.address, plain(program.origin), program.name]
        program.process(corpus["hello"])
        mid = [program.get_symbol_table(), program.get_statements(), program.get_binary_array(), program.all_sizes_fixed()]
        other = Program()
        fresh = [plain(other.symbol_table), plain(other.statements), plain(other.origin), other.name]
        again = None
        try:
            program.process(corpus["hello"])
        except BaseException as error:  # noqa
            again = failure(error)
        return [before, mid, fresh, again, program.get_symbol_table(), list(program.symbol_table)]
    case("Program helpers", program_helpers)

    def save_symbol_probe():
        program = Program()
        out = []
        for number, line in enumerate(["A NOP", " NOP", "B EQU 5", "C EQU $1234", "A NOP", "D FCB 1", "E ORG $10", "B NOP"]):
            statement = Statement(line + "\n")
            try:
                program.save_symbol(number, statement)
                out.append(sorted((k, plain(v)) for k, v in program.symbol_table.items()))
            except BaseException as error:  # noqa
                out.append(failure(error))
        out.append(list(program.symbol_table))
        return out
    case("Program.save_symbol", save_symbol_probe)

    # ------------------------------------------------------------- files + CLI
    def write(name, lines_or_text):
        with open(name, "w") as handle:
            handle.write(lines_or_text if isinstance(lines_or_text, str) else "".join(lines_or_text))

    write("hello.asm", corpus["hello"])
    write("modes.asm", corpus["modes"])
    write("noname.asm", corpus["no_org"])
    write("dup.asm", corpus["dup_label"])
    write("badmn.asm", corpus["bad_mnemonic"])
    write("undef.asm", corpus["undefined"])
    write("empty.asm", "")
    write("noeol.asm", "        NAM NOEOL\n        ORG $1000\nGO      LDA #1\n        RTS")
    write("noeol2.asm", "        NAM NOEOL\n        ORG $1000\nGO      LDA #1\n        RTS ")
    write("crlf.asm", "        ORG $1000\r\nGO      LDA #1 ; c\r\n        RTS\r\n")
    # include family: main -> a -> b (-> c), labels crossing in both directions
    write("main.asm", src("""
        NAM INCL
        ORG $0E00
MAIN    LDX #TABLE
        INCLUDE inc_a.asm
        LDA TABLE,PCR
        BRA SUBB
TABLE   FCB 1,2,3
        INCLUDE inc_c.asm
        END MAIN
"""))
    write("inc_a.asm", src("""
; part a
SUBA   LDA ,X+
        BEQ SUBB
        INCLUDE inc_b.asm
        LBRA MAIN
"""))
    write("inc_b.asm", src("""
SUBB   LEAX TABLE,PCR
        LDB CEE,PCR
        BNE SUBA
"""))
    write("inc_c.asm", "CEE     FDB MAIN\n        RMB 4\nCEND    RTS\n")
    write("flat.asm", src("""
        NAM INCL
        ORG $0E00
MAIN    LDX #TABLE
; part a
SUBA   LDA ,X+
        BEQ SUBB
SUBB   LEAX TABLE,PCR
        LDB CEE,PCR
        BNE SUBA
        LBRA MAIN
        LDA TABLE,PCR
        BRA SUBB
TABLE   FCB 1,2,3
CEE     FDB MAIN
        RMB 4
CEND    RTS
        END MAIN
"""))
    write("twice.asm", " INCLUDE inc_c.asm\n INCLUDE inc_c.asm\nMAIN NOP\nSUBA NOP\n")
    write("once.asm", "MAIN NOP\nSUBA NOP\n INCLUDE inc_c.asm\n")
    write("self.asm", " NOP\n INCLUDE self.asm\n")
    write("cyc1.asm", " INCLUDE cyc2.asm\n")
    write("cyc2.asm", " NOP\n INCLUDE cyc3.asm\n")
    write("cyc3.asm", " INCLUDE cyc2.asm\n")
    write("missing_inc.asm", " NOP\nL INCLUDE gone.asm ; where\n")
    write("dir_inc.asm", " INCLUDE sub\n")
    os.mkdir("sub")
    write(os.path.join("sub", "deep.asm"), "DEEP NOP\n")
    write("sub_inc.asm", " INCLUDE sub/deep.asm\n JMP DEEP\n")
    write("bad_in_inc.asm", " NOP\n INCLUDE badmn.asm\n")
    write("empty_inc.asm", " INCLUDE empty.asm\n NOP\n")
    write("only_inc.asm", " INCLUDE hello.asm\n")
    write("lower_inc.asm", " include inc_c.asm\nMAIN NOP\nSUBA NOP\n")
    write("noop_inc.asm", " INCLUDE\n NOP\n")

    def read_source(name):
        source = SourceFile(name)
        source.read_file()
        return source.get_buffer()

    for name in ("main.asm", "flat.asm", "twice.asm", "once.asm", "self.asm", "cyc1.asm", "missing_inc.asm", "dir_inc.asm",
                 "sub_inc.asm", "bad_in_inc.asm", "empty_inc.asm", "only_inc.asm", "lower_inc.asm", "noop_inc.asm",
                 "noeol.asm", "noeol2.asm", "crlf.asm", "empty.asm"):
        case("program from file " + name, lambda: assemble(read_source(name)))
    case("include equals flat", lambda: (lambda a, b: [a["bytes"] == b["bytes"], a["symbols"] == b["symbols"],
                                                        [l[:16] for l in a["listing"]] == [l[:16] for l in b["listing"]]])(
        assemble(read_source("main.asm")), assemble(read_source("flat.asm"))))

    def expand(name, including=()):
        statements = Program.parse(read_source(name))
        expanded = Program.process_mnemonics(statements, including) if including else Program.process_mnemonics(statements)
        return [len(statements), [plain(s) for s in expanded], [a is b for a, b in zip(statements, expanded)]]
    for name in ("main.asm", "hello.asm", "self.asm", "cyc1.asm", "missing_inc.asm", "empty_inc.asm", "dir_inc.asm"):
        case("process_mnemonics " + name, lambda: expand(name))
    case("process_mnemonics including", lambda: expand("main.asm", ("inc_c.asm",)))
    case("process_mnemonics including other", lambda: expand("main.asm", ("zzz.asm", "main.asm")))
    case("process_mnemonics tuple input", lambda: [plain(s) for s in Program.process_mnemonics(tuple(Program.parse(read_source("main.asm"))))])
    case("process_mnemonics empty", lambda: Program.process_mnemonics([]))
    case("source file", lambda: [
        SourceFile.read_assembly_contents("noeol.asm"), SourceFile.read_assembly_contents("crlf.asm"),
        SourceFile.read_assembly_contents("empty.asm"), SourceFile.read_binary_contents("crlf.asm"),
        SourceFile("hello.asm").get_buffer(), SourceFile("hello.asm").get_file_name(),
        (lambda s: (s.read_file(), s.get_buffer())[1])(SourceFile("crlf.asm", file_type=SourceFileType.BINARY)),
        (lambda s: (s.set_buffer([1, 2]), s.write_file(), os.path.exists("w.asm"))[2])(SourceFile("w.asm")),
        (lambda s: (s.set_buffer([65, 10]), s.write_file(), open("w.bin", "rb").read().decode())[2])(SourceFile("w.bin", file_type=SourceFileType.BINARY)),
    ])
    case("source file missing", lambda: SourceFile("gone.asm").read_file())
    case("source file missing binary", lambda: SourceFile("gone.bin", file_type=SourceFileType.BINARY).read_file())
    case("source file directory", lambda: SourceFile("sub").read_file())

    def digest_dir():
        out = {}
        for root, _, files in os.walk("."):
            for name in sorted(files):
                path = os.path.join(root, name)
                with open(path, "rb") as handle:
                    raw = handle.read()
                out[path] = hashlib.sha256(raw).hexdigest() + ":" + str(len(raw))
        return out

    def run_main(argv):
        old_argv = sys.argv
        sys.argv = ["assembler.py"] + list(argv)
        out, err = io.StringIO(), io.StringIO()
        status = None
        crash = None
        try:
            with contextlib.redirect_stdout(out), contextlib.redirect_stderr(err):
                try:
                    assembler.main(assembler.parse_arguments())
                except SystemExit as stop:
                    status = stop.code
                except BaseException as error:  # noqa
                    crash = failure(error)
        finally:
            sys.argv = old_argv
        return {"status": status, "crash": crash, "stdout": out.getvalue(), "stderr": err.getvalue(), "dir": digest_dir()}

    def run_cli(argv):
        done = subprocess.run(
            [sys.executable, os.path.join(tree, "assembler.py")] + list(argv),
            stdout=subprocess.PIPE, stderr=subprocess.PIPE, universal_newlines=True,
            env=dict(os.environ, PYTHONPATH=tree, PYTHONDONTWRITEBYTECODE="1"),
        )
        stderr = done.stderr.replace(tree, "<tree>")
        if "Traceback" in stderr:
            # line numbers inside a traceback are not behaviour: keep the exception line only
            stderr = "Traceback ... " + stderr.strip().splitlines()[-1]
        return {"status": done.returncode, "stdout": done.stdout, "stderr": stderr, "dir": digest_dir()}

    # every split of a program into an including file and nested included files
    def split_case(base, first, second, third):
        lines = [l for l in corpus[base] if l.strip()]
        stem = "split_{}_{}_{}_{}".format(base, first, second, third)
        write(stem + "_c.asm", lines[second:third])
        write(stem + "_b.asm", lines[first:second] + ["        INCLUDE {}_c.asm ; innermost\n".format(stem)])
        write(stem + "_a.asm", ["; included part\n", "        INCLUDE {}_b.asm\n".format(stem)])
        write(stem + ".asm", lines[:first] + [" INCLUDE {}_a.asm\n".format(stem)] + lines[third:])
        whole = assemble(read_source(stem + ".asm"))
        flat = assemble(lines)
        same = [whole.get(key) == flat.get(key) for key in ("bytes", "symbols", "origin", "name", "error", "value")]
        same.append([l[:16] for l in whole.get("listing", [])] == [l[:16] for l in flat.get("listing", [])])
        return [whole, same]
    for base in ("hello", "pcr_far", "branches", "equ_expr", "org_twice", "pcr_chain", "dup_label", "undefined", "branch_too_far_fwd"):
        count = len([l for l in corpus[base] if l.strip()])
        for first in range(0, count + 1):
            second = min(count, first + 1 + first % 3)
            third = min(count, second + (first * 2) % 5)
            case("split {} {} {} {}".format(base, first, second, third), lambda: split_case(base, first, second, third))
    case("split cli", lambda: [run_main(["split_hello_2_5_9.asm", "--print", "--symbols", "--to_bin", "split.bin"]),
                               run_main(["hello.asm", "--print", "--symbols", "--to_bin", "nosplit.bin"])])

    runs = [
        ["hello.asm"], ["hello.asm", "--print"], ["hello.asm", "--symbols"], ["hello.asm", "--print", "--symbols"],
        ["modes.asm", "--print", "--symbols"], ["main.asm", "--print", "--symbols"], ["flat.asm", "--print", "--symbols"],
        ["main.asm", "--to_bin", "main.bin"], ["flat.asm", "--to_bin", "flat.bin"],
        ["main.asm", "--to_cas", "main.cas", "--to_dsk", "main.dsk"], ["flat.asm", "--to_cas", "flat.cas", "--to_dsk", "flat.dsk"],
        ["hello.asm", "--to_bin", "main.bin"], ["hello.asm", "--to_bin", "main.bin", "--append"],
        ["hello.asm", "--to_cas", "main.cas", "--append"], ["hello.asm", "--to_dsk", "main.dsk", "--append"],
        ["hello.asm", "--to_cas", "main.dsk", "--append"], ["hello.asm", "--to_dsk", "main.dsk"],
        ["noname.asm", "--to_cas", "nn.cas"], ["noname.asm", "--to_dsk", "nn.dsk"], ["noname.asm", "--to_bin", "nn.bin"],
        ["noname.asm", "--to_cas", "nn2.cas", "--to_dsk", "nn2.dsk", "--to_bin", "nn2.bin"],
        ["noname.asm", "--name", "GIVEN", "--to_cas", "nn3.cas", "--to_dsk", "nn3.dsk", "--to_bin", "nn3.bin", "--symbols"],
        ["hello.asm", "--name", "OTHER", "--to_cas", "h2.cas"], ["noeol.asm", "--print", "--to_cas", "ne.cas"], ["noeol2.asm", "--print", "--to_cas", "ne2.cas"],
        ["crlf.asm", "--print", "--symbols"], ["empty.asm", "--print", "--symbols", "--to_bin", "e.bin"],
        ["dup.asm", "--print"], ["badmn.asm", "--symbols"], ["undef.asm"], ["self.asm", "--print"], ["cyc1.asm"],
        ["missing_inc.asm", "--print"], ["dir_inc.asm"], ["sub_inc.asm", "--print", "--symbols"], ["bad_in_inc.asm"],
        ["twice.asm"], ["once.asm", "--symbols", "--print"], ["only_inc.asm", "--print", "--to_dsk", "oi.dsk"],
        ["lower_inc.asm", "--print"], ["noop_inc.asm", "--print"], ["gone.asm"], ["sub"], [], ["--help"],
        ["hello.asm", "--width", "40", "--print"], ["hello.asm", "--width", "x"], ["hello.asm", "--bogus"],
    ]
    for number, argv in enumerate(runs):
        case("main#{} {}".format(number, " ".join(argv)), lambda: run_main(argv))
    for number, argv in enumerate([["main.asm", "--print", "--symbols", "--to_bin", "cli_main.bin"],
                                   ["flat.asm", "--print", "--symbols", "--to_bin", "cli_flat.bin"],
                                   ["cyc1.asm"], ["missing_inc.asm"], ["dup.asm"], ["gone.asm"],
                                   ["hello.asm", "--to_cas", "cli.cas", "--to_dsk", "cli.dsk", "--symbols"]]):
        case("cli#{} {}".format(number, " ".join(argv)), lambda: run_cli(argv))

    # final history check: after everything above, the first programs again
    for name in names[:12]:
        case("late " + name, lambda: assemble(corpus[name]))

    json.dump(results, sys.stdout)


def start_tree(tree, seed):
    tree = os.path.abspath(tree)
    workdir = tempfile.TemporaryDirectory(prefix="asm_equiv_")
    process = subprocess.Popen(
        [sys.executable, os.path.abspath(__file__), "--driver", tree],
        cwd=workdir.name, stdout=subprocess.PIPE, stderr=subprocess.PIPE, universal_newlines=True,
        env=dict(os.environ, PYTHONDONTWRITEBYTECODE="1", PYTHONHASHSEED=seed),
    )
    return tree, workdir, process


def finish_tree(started):
    tree, workdir, process = started
    stdout, stderr = process.communicate()
    workdir.cleanup()
    if process.returncode != 0:
        print("driver failed for", tree)
        print(stderr[-3000:])
        sys.exit(2)
    return json.loads(stdout)


def main():
    if len(sys.argv) == 3 and sys.argv[1] == "--driver":
        driver(sys.argv[2])
        return 0
    if len(sys.argv) != 3:
        print(__doc__)
        return 2
    started = [start_tree(sys.argv[1], "0"), start_tree(sys.argv[2], "0"), start_tree(sys.argv[2], "12345")]
    left, right, reseeded = [finish_tree(item) for item in started]
    differences = 0
    for label, other in (("B", right), ("B under another hash seed", reseeded)):
        if [name for name, _ in left] != [name for name, _ in other]:
            print("case lists differ")
            differences += 1
        for (name, a), (_, b) in zip(left, other):
            if a != b:
                differences += 1
                print("DIFFERENT ({}): {}".format(label, name))
                text_a, text_b = json.dumps(a), json.dumps(b)
                at = next((i for i, (x, y) in enumerate(zip(text_a, text_b)) if x != y), min(len(text_a), len(text_b)))
                print("   A: ..." + text_a[max(0, at - 200):at + 200])
                print("   B: ..." + text_b[max(0, at - 200):at + 200])
    raised = sum(1 for _, outcome in left if "error" in outcome)
    print("{} cases compared ({} raise at top level), {} differences".format(len(left), raised, differences))
    return 1 if differences else 0


if __name__ == "__main__":
    sys.exit(main())
