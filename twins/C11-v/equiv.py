#!/usr/bin/env python
"""
Differential check for property C11 (saved image = assembled program, at its
origin, under its name).

usage: equiv.py <treeA> <treeB>

Each tree is exercised in its own subprocess (tree at the front of sys.path).
The worker runs assembler.py / file_util.py command lines in scratch
directories and a number of library level probes, and prints one JSON
document with every observable result. The driver compares the two documents.
"""
import contextlib
import hashlib
import importlib.util
import io
import json
import os
import subprocess
import sys
import tempfile
import traceback

# ----------------------------------------------------------------- programs

def prog(origin=None, nam=None, end=None, body=None):
    lines = []
    if nam is not None:
        lines.append("        NAM   {}".format(nam))
    if origin is not None:
        lines.append("        ORG   {}".format(origin))
    lines.extend(body or [
        "START   LDA   #$01",
        "        LDX   #$1234",
        "LOOP    LEAX  1,X",
        "        BNE   LOOP",
        "        JSR   $A000",
        "        FCB   $00,$01,$FF",
        "        FDB   $BEEF,$0001",
        "        FCC   \"HELLO\"",
        "        RTS",
    ])
    if end is not None:
        lines.append("        END   {}".format(end))
    return "\n".join(lines) + "\n"

BIG = ["BIG     LDA   #$55"] + ["        FDB   ${:04X}".format(i) for i in range(700)]
HUGE = ["HUGE    NOP"] + ["        FCC   \"0123456789ABCDEF0123456789ABCDEF\"" for _ in range(300)]
EXACT255 = ["E255    NOP"] + ["        FCB   $AA" for _ in range(254)]
EXACT256 = ["E256    NOP"] + ["        FCB   $AB" for _ in range(255)]
GRAN = ["GRAN    NOP"] + ["        FDB   $1234" for _ in range(1152)]

PROGRAMS = {
    "plain": prog(),
    "org0": prog(origin="$0000"),
    "org0e00": prog(origin="$0E00", nam="HELLO"),
    "org3f00": prog(origin="$3F00", nam="hello"),
    "orgff00": prog(origin="$FF00", nam="TOPMEM"),
    "orgdec": prog(origin="1024", nam="DECORG"),
    "org_small": prog(origin="$10", nam="LOWORG"),
    "nam1": prog(origin="$2000", nam="A"),
    "nam8": prog(origin="$2000", nam="ABCDEFGH"),
    "nam9": prog(origin="$2000", nam="ABCDEFGHI"),
    "nam12": prog(origin="$2000", nam="abcdefghijkl"),
    "nammixed": prog(origin="$2000", nam="MiXeD"),
    "end_label": prog(origin="$0E00", nam="ENDLBL", end="LOOP"),
    "end_start": prog(origin="$0E00", nam="ENDST", end="START"),
    "end_noname": prog(origin="$0E00", end="START"),
    "noname_org": prog(origin="$4000"),
    "empty": "\n",
    "comment_only": "; nothing here\n* nor here\n",
    "only_nam": "        NAM   LONELY\n",
    "big": prog(origin="$1000", nam="BIG", body=BIG),
    "huge": prog(origin="$0100", nam="HUGE", body=HUGE),
    "e255": prog(origin="$0E00", nam="E255", body=EXACT255),
    "e256": prog(origin="$0E00", nam="E256", body=EXACT256),
    "gran": prog(origin="$0E00", nam="GRAN", body=GRAN),
    "two_org": prog(origin="$1000", nam="TWOORG", body=[
        "FIRST   LDA   #$01", "        ORG   $2000", "SECOND  LDB   #$02", "        RTS"]),
    "org_after": "FIRST   LDA   #$01\n        ORG   $3000\n        NAM   LATE\nNEXT    RTS\n",
    "equ_prog": prog(origin="$0E00", nam="EQUS", body=[
        "VAL     EQU   $FF", "START   LDA   #VAL", "        STA   <$10", "        LDB   VAL", "        RTS"]),
    "pcr": prog(origin="$0E00", nam="PCR", body=[
        "START   LEAX  TABLE,PCR", "        LDA   ,X+", "        BRA   START", "TABLE   FCB   1,2,3"]),
    "strings": prog(origin="$0E00", nam="STR", body=[
        "MSG     FCC   /A\tB/", "        FCB   $0D", "        FCC   'x'", "        RMB   3", "        FCB   7"]),
    "bad_mnemonic": prog(origin="$0E00", nam="BAD", body=["START   FOO   #$01"]),
    "bad_operand": prog(origin="$0E00", nam="BAD", body=["START   LDA   #$"]),
    "bad_label": prog(origin="$0E00", nam="BAD", body=["START   LDA   #1", "START   LDB   #2"]),
    "undef_symbol": prog(origin="$0E00", nam="BAD", body=["START   LDA   NOWHERE"]),
    "bad_branch": prog(origin="$0E00", nam="BAD", body=["START   BRA   FAR"] + ["        FDB   $0000"] * 100 + ["FAR     RTS"]),
    "bad_string": prog(origin="$0E00", nam="BAD", body=["MSG     FCC   \"OOPS"]),
}

# ------------------------------------------------------------------ CLI cases
# (case id, program, argv tail, pre-existing files {name: how})

CLI_CASES = []

def cli(case_id, program, argv, pre=None):
    CLI_CASES.append((case_id, program, argv, pre or {}))

for name in PROGRAMS:
    cli("bin:" + name, name, ["--to_bin", "out.bin"])
    cli("cas:" + name, name, ["--to_cas", "out.cas"])
    cli("dsk:" + name, name, ["--to_dsk", "out.dsk"])
    cli("all:" + name, name, ["--to_bin", "out.bin", "--to_cas", "out.cas", "--to_dsk", "out.dsk",
                               "--symbols", "--print"])

for name in ("plain", "noname_org", "end_noname", "org0e00", "empty", "nam12", "bad_operand"):
    for cli_name in ("x", "cliname", "LONGERNAME12", "MiXeD", "12345678", ""):
        cli("name[{}]:cas:{}".format(cli_name, name), name, ["--to_cas", "out.cas", "--name", cli_name])
        cli("name[{}]:dsk:{}".format(cli_name, name), name, ["--to_dsk", "out.dsk", "--name", cli_name])
        cli("name[{}]:all:{}".format(cli_name, name), name,
            ["--to_dsk", "out.dsk", "--to_cas", "out.cas", "--to_bin", "out.bin", "--name", cli_name])

cli("print:plain", "plain", ["--print"])
cli("symbols:plain", "plain", ["--symbols"])
cli("print:w40", "org0e00", ["--print", "--symbols", "--width", "40"])
cli("nothing", "org0e00", [])
cli("noname:casdsk", "plain", ["--to_cas", "out.cas", "--to_dsk", "out.dsk"])
cli("noname:dskbin", "plain", ["--to_dsk", "out.dsk", "--to_bin", "out.bin"])
cli("noname:bin_cas", "plain", ["--to_bin", "out.bin", "--to_cas", "out.cas"])

# pre-existing targets: "self" = produced by a first identical run, "junk" = garbage,
# "empty" = zero length, "cas"/"dsk"/"bin" = a container of that kind made from org3f00
for kind in ("bin", "cas", "dsk"):
    target = "out." + kind
    for how in ("junk", "empty", "bin", "cas", "dsk"):
        for append in (False, True):
            argv = ["--to_" + kind, target] + (["--append"] if append else [])
            cli("exist:{}:{}:{}".format(kind, how, "append" if append else "noappend"),
                "org0e00", argv, {target: how})
cli("exist:all:append", "nam8", ["--to_bin", "out.bin", "--to_cas", "out.cas", "--to_dsk", "out.dsk", "--append"],
    {"out.bin": "bin", "out.cas": "cas", "out.dsk": "dsk"})
cli("exist:all:noappend", "nam8", ["--to_bin", "out.bin", "--to_cas", "out.cas", "--to_dsk", "out.dsk"],
    {"out.bin": "bin", "out.cas": "cas", "out.dsk": "dsk"})
cli("exist:cas:append:noname", "plain", ["--to_cas", "out.cas", "--append"], {"out.cas": "cas"})
cli("unwritable:bin", "org0e00", ["--to_bin", "nodir/out.bin"])
cli("unwritable:cas", "org0e00", ["--to_cas", "nodir/out.cas"])
cli("unwritable:dsk", "org0e00", ["--to_dsk", "nodir/out.dsk"])
cli("dir:bin", "org0e00", ["--to_bin", "."])
cli("missing_source", None, ["--to_bin", "out.bin"])

# ------------------------------------------------------------------- worker

def load_module(tree, name):
    spec = importlib.util.spec_from_file_location("tool_" + name, os.path.join(tree, name + ".py"))
    module = importlib.util.module_from_spec(spec)
    spec.loader.exec_module(module)
    return module


def run_tool(module, argv):
    """Runs parse_arguments() + main() of a command line tool in-process."""
    out, err = io.StringIO(), io.StringIO()
    status, failure = 0, None
    old_argv = sys.argv
    sys.argv = [module.__name__] + list(argv)
    try:
        with contextlib.redirect_stdout(out), contextlib.redirect_stderr(err):
            try:
                module.main(module.parse_arguments())
            except SystemExit as error:
                status = error.code
            except BaseException as error:  # traceback escaping from the tool
                status = "traceback"
                failure = [type(error).__name__, str(error)]
    finally:
        sys.argv = old_argv
    return {"stdout": out.getvalue(), "stderr": err.getvalue(), "status": status, "failure": failure}


def snapshot(directory):
    files = {}
    for root, dirs, names in os.walk(directory):
        for name in sorted(names):
            path = os.path.join(root, name)
            with open(path, "rb") as handle:
                content = handle.read()
            files[os.path.relpath(path, directory)] = [len(content), hashlib.sha256(content).hexdigest()]
    return files


def make_existing(assembler, how, target):
    if how == "junk":
        with open(target, "wb") as handle:
            handle.write(bytes(range(256)) * 3)
    elif how == "empty":
        open(target, "wb").close()
    else:
        with open("pre.asm", "w") as handle:
            handle.write(PROGRAMS["org3f00"])
        run_tool(assembler, ["pre.asm", "--to_" + how, target])
        os.remove("pre.asm")


def worker(tree):
    sys.path.insert(0, tree)
    assembler = load_module(tree, "assembler")
    file_util = load_module(tree, "file_util")
    results = {}
    home = os.getcwd()

    for case_id, program, argv, pre in CLI_CASES:
        with tempfile.TemporaryDirectory() as scratch:
            os.chdir(scratch)
            try:
                for target, how in pre.items():
                    make_existing(assembler, how, target)
                before = snapshot(".")
                if program is not None:
                    with open("src.asm", "w") as handle:
                        handle.write(PROGRAMS[program])
                record = run_tool(assembler, ["src.asm"] + argv)
                record["before"] = before
                record["files"] = snapshot(".")
                listings = {}
                for name in sorted(record["files"]):
                    if name != "src.asm":
                        listings[name] = run_tool(file_util, [name, "--list"])
                record["listings"] = listings
                results["cli:" + case_id] = record
            finally:
                os.chdir(home)

    # ---- library probes
    from cocoasm.program import Program
    from cocoasm.values import NumericValue, AddressValue, NoneValue, StringValue, Value
    from cocoasm.virtualfiles.virtual_file import VirtualFile, VirtualFileType
    from cocoasm.virtualfiles.source_file import SourceFile, SourceFileType
    from cocoasm.virtualfiles.coco_file import CoCoFile

    for name, text in PROGRAMS.items():
        program = Program()
        record = {}
        try:
            program.process(text.splitlines(keepends=True))
            record["origin"] = [type(program.origin).__name__, program.origin.hex(), program.origin.hex(size=4),
                                program.origin.high_byte(), program.origin.low_byte(), program.origin.int]
            record["name"] = program.name
            record["binary"] = hashlib.sha256(repr(program.get_binary_array()).encode()).hexdigest()
            record["binary_head"] = program.get_binary_array()[:64]
            record["binary_len"] = len(program.get_binary_array())
            record["symbols"] = [str(x) for x in program.get_symbol_table()]
            record["statements"] = [str(x) for x in program.get_statements()]
        except Exception as error:
            record["error"] = [type(error).__name__, str(error), str(getattr(error, "value", None)),
                               str(getattr(error, "statement", None))]
        results["lib:program:" + name] = record

    def probe(label, func):
        try:
            results[label] = repr(func())
        except Exception as error:
            results[label] = ["raised", type(error).__name__, str(error)]

    numbers = [0, 1, 2, 9, 10, 15, 16, 17, 127, 128, 129, 254, 255, 256, 257, 1000, 4095, 4096, 32767, 32768,
               65279, 65280, 65534, 65535, "$0", "$00", "$000", "$0000", "$F", "$0F", "$FF", "$100", "$0100",
               "$FFFF", "$1234", "%1", "%11111111", "%100000000", "0", "00", "255", "-1", "-128", "-129", "-32768"]
    for number in numbers:
        for hint in (None, 2, 4):
            for cls in (NumericValue, AddressValue):
                label = "lib:value:{}:{!r}:{}".format(cls.__name__, number, hint)

                def split(cls=cls, number=number, hint=hint):
                    value = cls(number) if hint is None else cls(number, size_hint=hint)
                    return [value.hex(), value.hex_len(), value.byte_len(), value.high_byte(), value.low_byte(),
                            value.hex(size=2), value.hex(size=4), value.int, str(value)]
                probe(label, split)
    probe("lib:value:none", lambda: [NoneValue().high_byte(), NoneValue().low_byte(), NoneValue().byte_len()])
    for text in ('"A"', '"AB"', '"ABC"', '"\t"', '"A\tB"', '""'):
        probe("lib:value:string:" + text, lambda text=text: [
            StringValue(text).hex(), StringValue(text).hex_len(), StringValue(text).byte_len(),
            StringValue(text).high_byte(), StringValue(text).low_byte()])

    # VirtualFile save paths, directly
    def save_direct(kind, coco_files, existing, append):
        with tempfile.TemporaryDirectory() as scratch:
            os.chdir(scratch)
            try:
                if existing is not None:
                    with open("target", "wb") as handle:
                        handle.write(existing)
                virtual_file = VirtualFile(SourceFile("target", file_type=SourceFileType.BINARY), kind)
                outcome = []
                try:
                    virtual_file.open_virtual_file()
                    outcome.append(["opened", virtual_file.file_exists, str(virtual_file.virtual_file_type),
                                    len(virtual_file.coco_file_list)])
                    for coco_file in coco_files:
                        virtual_file.add_coco_file(coco_file)
                    outcome.append(["saved", virtual_file.save_virtual_file(append_mode=append)])
                except Exception as error:
                    outcome.append(["raised", type(error).__name__, str(error)])
                outcome.append(snapshot("."))
                return outcome
            finally:
                os.chdir(home)

    def coco(name, size, load=0x0E00, extension="bin"):
        return CoCoFile(name=name, load_addr=NumericValue(load), exec_addr=NumericValue(load + 1),
                        data=[(i * 7) & 0xFF for i in range(size)], extension=extension,
                        type=NumericValue(0x02), data_type=NumericValue(0x00))

    kinds = {"cas": VirtualFileType.CASSETTE, "bin": VirtualFileType.BINARY, "dsk": VirtualFileType.DISK,
             "none": None, "unknown": VirtualFileType.UNKNOWN}
    file_sets = {
        "one": [coco("ONE", 10)], "none": [], "two": [coco("ONE", 300), coco("TWO", 2304)],
        "toobig": [coco("BIG", 2304 * 69)], "many": [coco("F{}".format(i), 5) for i in range(75)],
    }
    for kind_name, kind in kinds.items():
        for set_name, coco_files in file_sets.items():
            for existing_name, existing in (("absent", None), ("junk", b"junk" * 10), ("empty", b"")):
                for append in (False, True):
                    label = "lib:save:{}:{}:{}:{}".format(kind_name, set_name, existing_name, append)
                    probe(label, lambda: save_direct(kind, coco_files, existing, append))

    json.dump(results, sys.stdout, sort_keys=True)


# ------------------------------------------------------------------- driver

def run_worker(tree):
    tree = os.path.abspath(tree)
    env = dict(os.environ, PYTHONDONTWRITEBYTECODE="1", PYTHONHASHSEED="0")
    env.pop("PYTHONPATH", None)
    done = subprocess.run([sys.executable, os.path.abspath(__file__), "--worker", tree],
                          cwd=tree, env=env, stdout=subprocess.PIPE, stderr=subprocess.PIPE, text=True)
    if done.returncode != 0:
        print("worker failed for {}:\n{}".format(tree, done.stderr))
        sys.exit(1)
    return json.loads(done.stdout)


def main():
    if len(sys.argv) == 3 and sys.argv[1] == "--worker":
        try:
            worker(sys.argv[2])
        except Exception:
            traceback.print_exc()
            sys.exit(2)
        return
    if len(sys.argv) != 3:
        print(__doc__)
        sys.exit(2)
    result_a, result_b = run_worker(sys.argv[1]), run_worker(sys.argv[2])
    differing = [key for key in sorted(set(result_a) | set(result_b)) if result_a.get(key) != result_b.get(key)]
    for key in differing[:20]:
        print("DIFFERENT: {}\n  A: {}\n  B: {}".format(key, str(result_a.get(key))[:600], str(result_b.get(key))[:600]))
    produced = sum(1 for record in result_a.values() if isinstance(record, dict) and len(record.get("files", {})) > 1)
    print("{} cases compared ({} command lines produced output files), {} differ".format(
        len(result_a), produced, len(differing)))
    sys.exit(1 if differing else 0)


if __name__ == "__main__":
    main()
