#!/usr/bin/env python
"""
Differential demonstration: runs the same set of cases against two source trees
(one subprocess per tree, tree first on sys.path) and compares every observable
result.  Usage: equiv.py <treeA> <treeB>; exit status 0 when everything agrees.
"""
import json
import os
import shutil
import subprocess
import sys
import tempfile

HERE = os.path.abspath(__file__)


# ----------------------------------------------------------------- driver side

def norm(obj, depth=0):
    """Turns library objects into plain JSON-able data, without memory addresses."""
    if obj is None or isinstance(obj, (bool, int, float, str)):
        return obj
    if isinstance(obj, (bytes, bytearray)):
        return {"__bytes__": obj.hex()}
    if isinstance(obj, (list, tuple)):
        if len(obj) > 64 and all(isinstance(x, int) and not isinstance(x, bool) for x in obj):
            import hashlib
            return {"__ints__": len(obj), "sha": hashlib.sha256(repr(list(obj)).encode()).hexdigest(),
                    "head": list(obj[:16]), "tail": list(obj[-16:])}
        return [norm(x, depth + 1) for x in obj]
    if isinstance(obj, dict):
        return {str(k): norm(v, depth + 1) for k, v in obj.items()}
    if hasattr(obj, "_asdict") and depth < 6:
        return {"__nt__": type(obj).__name__, "fields": norm(obj._asdict(), depth + 1)}
    import enum
    if isinstance(obj, enum.Enum):
        return "enum:" + str(obj)
    if hasattr(obj, "__dict__") and depth < 6:
        return {"__obj__": type(obj).__name__,
                "attrs": {k: norm(v, depth + 1) for k, v in sorted(vars(obj).items())}}
    return "repr:" + type(obj).__name__


def attempt(fn, *args, **kwargs):
    """Calls fn and records either its normalised result or the exception type and message."""
    try:
        return ["ok", norm(fn(*args, **kwargs))]
    except SystemExit as error:
        return ["exit", repr(error.code)]
    except BaseException as error:  # noqa - we want to see everything
        return ["raised", type(error).__name__, str(error)]


def file_state(path):
    """The observable state of a file: absent, or its bytes."""
    if not os.path.exists(path):
        return None
    with open(path, "rb") as handle:
        data = handle.read()
    import hashlib
    return {"len": len(data), "sha": hashlib.sha256(data).hexdigest(), "head": data[:48].hex()}


def run_cli(tree, script, arguments, cwd):
    """Runs one of the command-line tools of the tree; tracebacks are reduced to their last line."""
    env = dict(os.environ, PYTHONDONTWRITEBYTECODE="1", PYTHONPATH=tree)
    done = subprocess.run([sys.executable, "-B", os.path.join(tree, script)] + list(arguments),
                          cwd=cwd, env=env, stdout=subprocess.PIPE, stderr=subprocess.PIPE, timeout=120)
    err = done.stderr.decode("utf-8", "replace").replace(tree, "<TREE>")
    if "Traceback (most recent call last)" in err:
        err = "TRACEBACK ... " + err.strip().splitlines()[-1]
    out = done.stdout.decode("utf-8", "replace").replace(tree, "<TREE>")
    return {"status": done.returncode, "stdout": out, "stderr": err}


def write_text(path, text):
    with open(path, "w") as handle:
        handle.write(text)


def write_bytes(path, data):
    with open(path, "wb") as handle:
        handle.write(bytes(data))


# ------------------------------------------------------- shared assembly cases

def assemble(lines):
    """Assembles the lines with the tree's Program and reports everything observable about the outcome."""
    from cocoasm.program import Program
    program = Program()
    try:
        program.process(lines)
    except Exception as error:
        statement = getattr(error, "statement", None)
        return {"raised": type(error).__name__, "message": str(error), "value": repr(getattr(error, "value", None)),
                "statement": attempt(str, statement) if statement is not None else None}
    report = {
        "bytes": attempt(program.get_binary_array),
        "listing": attempt(program.get_statements),
        "symbols": attempt(program.get_symbol_table),
        "origin": attempt(lambda: (type(program.origin).__name__, program.origin.hex(), program.origin.int)),
        "name": program.name,
        "sizes": attempt(lambda: [(s.code_pkg.size, s.code_pkg.max_size, s.fixed_size, s.pcr_size_hint,
                                   type(s.operand).__name__, s.code_pkg.address.hex())
                                  for s in program.statements]),
    }
    return report


FRAME = """VAL5    EQU     5
VAL200  EQU     200
VALW    EQU     $1234
VALN    EQU     -3
        ORG     $2000
BEFORE  NOP
{label:<8}{mnemonic:<8}{operand}
AFTER   NOP
FAR     EQU     $7FFF
"""


def statement_cases(prefix, mnemonics, operands, label=""):
    """One program per mnemonic and operand: the statement framed by labelled NOPs and some EQUs."""
    results = []
    for mnemonic in mnemonics:
        for operand in operands:
            text = FRAME.format(label=label, mnemonic=mnemonic, operand=operand)
            results.append(("{}/{} {}".format(prefix, mnemonic, operand), assemble(text.splitlines(True))))
    return results

MINIMUM_CASES = 30

INDIRECT_OPERANDS = [
    "[,X]", "[,Y]", "[,U]", "[,S]", "[,X++]", "[,Y++]", "[,--U]", "[,--S]", "[,X+]", "[,Y+]", "[,U+]", "[,S+]",
    "[,-X]", "[,-Y]", "[,-U]", "[,-S]", "[,X+++]", "[,---X]", "[,+X]", "[,X-]", "[,X--]", "[,++X]", "[,-X+]",
    "[A,X]", "[B,Y]", "[D,U]", "[A,S]", "[D,PCR]", "[A,X+]", "[B,--Y]", "[D,X++]", "[E,X]", "[a,X]",
    "[0,X]", "[1,X]", "[5,X]", "[15,Y]", "[16,Y]", "[-1,X]", "[-5,X]", "[-16,U]", "[-17,U]", "[127,X]", "[128,X]",
    "[-128,X]", "[-129,X]", "[255,S]", "[256,S]", "[32767,X]", "[32768,X]", "[-32768,X]", "[-32769,X]",
    "[65535,X]", "[65536,X]", "[$00,X]", "[$05,X]", "[$7F,X]", "[$80,X]", "[$FF,Y]", "[$0005,X]", "[$1234,Y]",
    "[$FFFF,U]", "[$12345,X]", "[%00000101,X]", "[%1111111100000000,X]", "[%101,X]", "['A,X]",
    "[<$10,X]", "[>$10,X]", "[>5,Y]", "[<$1234,X]", "[#1,X]", "[#$1234,X]",
    "[VAL5,X]", "[VAL200,Y]", "[VALW,U]", "[VALN,S]", "[VAL5+1,X]", "[VALW-1,X]", "[VAL200*2,X]", "[VALW/2,Y]",
    "[BEFORE,X]", "[AFTER,Y]", "[BEFORE+1,X]", "[AFTER-1,U]", "[FAR,X]", "[UNDEFINED,X]", "[UNDEFINED+1,X]",
    "[BEFORE,PCR]", "[AFTER,PCR]", "[AFTER+1,PCR]", "[BEFORE-2,PCR]", "[$10,PCR]", "[$1000,PCR]", "[10,PCR]",
    "[-10,PCR]", "[300,PCR]", "[VAL5,PCR]", "[VALW,PCR]", "[FAR,PCR]", "[,PCR]", "[0,PCR]", "[A,PCR]",
    "[5,X+]", "[5,X++]", "[5,-X]", "[5,--X]", "[BEFORE,X+]", "[$1234,--Y]",
    "[$1234]", "[$12]", "[$0012]", "[1234]", "[10]", "[0]", "[65535]", "[65536]", "[-1]", "[-200]", "[%00001111]",
    "['Z]", "[BEFORE]", "[AFTER]", "[FAR]", "[VAL5]", "[VALW]", "[VALN]", "[UNDEFINED]", "[BEFORE+1]", "[AFTER-1]",
    "[VAL5+VAL200]", "[<$12]", "[>$12]", "[#$12]", "[#BEFORE]",
    "[,Z]", "[,PC]", "[,A]", "[,]", "[X]", "[]", "[,X", ",X]", "[[,X]]", "[1,2,3]", "[,X,Y]", "[5,]", "[ ,X]",
    "[5,Z]", "[5,XY]", "[5,PC]", "[5,pcr]", "[5,x]", "[$1234,]", "[;]", "[+,X]", "[-,X]", "[5,5]", "[X,5]",
    "[PCR]", "[PCR,X]", "[5,PCRX]", "[5,SPCR]",
]

MNEMONICS = ["LDA", "STA", "LDB", "LDD", "STD", "LDX", "STX", "LDY", "STY", "LDS", "CMPX", "CMPU", "LEAX", "LEAS",
             "JMP", "JSR", "CLR", "TST", "NEG", "ADDD", "ORA", "NOP", "BRA", "LBRA", "PSHS", "TFR", "ANDCC", "FCB",
             "FDB", "EQU", "ORG", "RMB", "FROB"]


def cases(tree, work):
    results = statement_cases("indirect", MNEMONICS, INDIRECT_OPERANDS)
    results.extend(statement_cases("labelled", ["LDA", "LEAX", "JMP"], INDIRECT_OPERANDS[::3], label="HERE"))

    # several indirect PCR references whose width depends on each other
    for gap in (100, 118, 119, 120, 121, 122, 123, 124, 125, 126, 127, 128, 129, 130, 131, 140, 250, 300):
        text = "        ORG $1000\nSTART   LDA [END,PCR]\n        LDB [START,PCR]\n        RMB {}\n" \
               "        LDX [START,PCR]\n        LDY [END+1,PCR]\nEND     RTS\n".format(gap)
        results.append(("pcr-chain/{}".format(gap), assemble(text.splitlines(True))))

    # straight through the operand classes, without a program around them
    from cocoasm.operands import ExtendedIndexedOperand, Operand
    from cocoasm.instruction import INSTRUCTIONS
    by_name = {entry.mnemonic: entry for entry in INSTRUCTIONS}

    def direct(mnemonic, text, symbols):
        operand = ExtendedIndexedOperand(text, by_name[mnemonic])
        operand = operand.resolve_symbols(symbols)
        package = operand.translate()
        return (type(operand).__name__, vars(package), package.op_code.hex(), package.post_byte.hex(),
                package.additional.hex(), vars(operand))
    from cocoasm.values import NumericValue, AddressValue
    tables = {"none": {}, "some": {"VAL5": NumericValue(5), "VALW": NumericValue("$1234"), "ADDR": AddressValue(3)}}
    for mnemonic in ("LDA", "LEAX", "JMP", "NOP", "LDY"):
        for text in INDIRECT_OPERANDS[::2] + ["[ADDR,X]", "[ADDR]", "[ADDR,PCR]", "[ADDR+2,PCR]", "[VAL5,PCR]"]:
            for table_name, table in tables.items():
                results.append(("direct/{}/{}/{}".format(mnemonic, text, table_name),
                                attempt(direct, mnemonic, text, table)))
    return results


# ------------------------------------------------------------- comparison side

def driver(tree):
    tree = os.path.abspath(tree)
    sys.path.insert(0, tree)
    sys.dont_write_bytecode = True
    work = tempfile.mkdtemp(prefix="equiv_")
    previous = os.getcwd()
    os.chdir(work)
    try:
        results = cases(tree, work)
    finally:
        os.chdir(previous)
        shutil.rmtree(work, ignore_errors=True)
    text = json.dumps(results, sort_keys=True)
    sys.stdout.write(text.replace(work, "<WORK>").replace(tree, "<TREE>"))


def run_tree(tree):
    env = dict(os.environ, PYTHONDONTWRITEBYTECODE="1")
    env.pop("PYTHONPATH", None)
    done = subprocess.run([sys.executable, "-B", HERE, "--driver", os.path.abspath(tree)],
                          cwd=os.path.abspath(tree), env=env, stdout=subprocess.PIPE, stderr=subprocess.PIPE)
    if done.returncode != 0:
        sys.stderr.write(done.stderr.decode("utf-8", "replace"))
        raise SystemExit("driver failed for {}".format(tree))
    return json.loads(done.stdout.decode("utf-8"))


def main():
    if len(sys.argv) == 3 and sys.argv[1] == "--driver":
        driver(sys.argv[2])
        return 0
    if len(sys.argv) != 3:
        print("usage: equiv.py <treeA> <treeB>")
        return 2
    first, second = run_tree(sys.argv[1]), run_tree(sys.argv[2])
    names = [name for name, _ in first]
    if names != [name for name, _ in second]:
        print("DIFFERENT case lists")
        return 1
    if len(names) < MINIMUM_CASES:
        print("too few cases: {}".format(len(names)))
        return 1
    failures = 0
    for (name, left), (_, right) in zip(first, second):
        if left != right:
            failures += 1
            print("DIFFER {}\n  A: {}\n  B: {}".format(name, json.dumps(left)[:600], json.dumps(right)[:600]))
    print("{} cases compared, {} differ".format(len(names), failures))
    return 1 if failures else 0


if __name__ == "__main__":
    sys.exit(main())
