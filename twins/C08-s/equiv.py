#!/venv/bin/python
"""
Differential check for property C08 (disk images written are valid Disk BASIC
filesystems). Usage:

    equiv.py <treeA> <treeB>

Runs the same battery of library calls and command-line invocations against
both source trees (one subprocess per tree, with the tree as cwd / first entry
of sys.path) and compares every observable: image bytes, FAT / directory
contents, files read back, return values, exception types and messages, buffer
state after an exception, stdout / exit status of the CLIs and the files they
produce. Exit status 0 if everything agrees, 1 otherwise.
"""
import hashlib
import json
import os
import shutil
import subprocess
import sys
import tempfile

PYTHON = "/venv/bin/python"

DRIVER = r'''
import hashlib, json, random, sys, traceback
tree = sys.argv[1]
sys.path.insert(0, tree)

from cocoasm.virtualfiles import disk as disk_mod
from cocoasm.virtualfiles.disk import (
    DiskFile, DiskConstants, MLPreamble, BasicPreamble, ASCIIPreamble, Postamble
)
from cocoasm.virtualfiles.coco_file import CoCoFile
from cocoasm.values import NumericValue, NoneValue

assert disk_mod.__file__.startswith(tree), (disk_mod.__file__, tree)

RESULTS = []


def digest(buf):
    try:
        return hashlib.sha256(bytes(bytearray(buf))).hexdigest() + ":" + str(len(buf))
    except Exception as e:           # values outside 0..255 in a list buffer
        return hashlib.sha256(repr(list(buf)).encode()).hexdigest() + ":r" + str(len(buf))


def outcome(fn):
    try:
        return {"ok": plain(fn())}
    except BaseException as e:
        return {"exc": type(e).__name__, "msg": str(e)}


def plain(x):
    if isinstance(x, (bytes, bytearray)):
        return list(x)
    if isinstance(x, tuple):
        return [plain(i) for i in x]
    if isinstance(x, list):
        return [plain(i) for i in x]
    if isinstance(x, CoCoFile):
        return describe(x)
    if x is None or isinstance(x, (int, float, str, bool)):
        return x
    return repr(type(x).__name__)


def describe(f):
    return {
        "name": f.name, "ext": f.extension, "type": f.type.hex(), "dtype": f.data_type.hex(),
        "load": f.load_addr.hex(), "exec": f.exec_addr.hex(), "len": len(f.data),
        "sha": hashlib.sha256(bytes(bytearray(f.data))).hexdigest(), "str": str(f),
    }


def record(label, value):
    RESULTS.append([label, value])


def make(kind, length, idx, rng):
    data = [rng.randrange(256) for _ in range(length)]
    name = "F%d" % idx
    if kind == "ML":
        return CoCoFile(name=name, extension="bin", type=NumericValue(2), data_type=NumericValue(0),
                        load_addr=NumericValue(0x0E00 + idx), exec_addr=NumericValue(0x0E10 + idx), data=data)
    if kind == "BAS":
        return CoCoFile(name=name, extension="bas", type=NumericValue(0), data_type=NumericValue(0), data=data)
    if kind == "ASC":
        return CoCoFile(name=name, extension="txt", type=NumericValue(1), data_type=NumericValue(0xFF), data=data)
    if kind == "DAT":
        return CoCoFile(name=name, extension="dat", type=NumericValue(1), data_type=NumericValue(0), data=data)
    raise ValueError(kind)


def image_summary(d):
    buf = d.get_buffer()
    res = {"sha": digest(buf)}
    if len(buf) >= DiskConstants.DIR_OFFSET + 72 * 32:
        res["fat"] = list(buf[DiskConstants.FAT_OFFSET:DiskConstants.FAT_OFFSET + 256])
        res["dir"] = digest(buf[DiskConstants.DIR_OFFSET:DiskConstants.DIR_OFFSET + 72 * 32])
    return res


def store_sequence(label, specs, order=None, seed=0, base=None):
    rng = random.Random(seed)
    files = [make(k, n, i, rng) for i, (k, n) in enumerate(specs)]
    if base is None:
        d = DiskFile(granule_fill_order=order)
    else:
        d = DiskFile(buffer=list(base), granule_fill_order=order)
    res = {"add": outcome(lambda: d.add_files(files))}
    res.update(image_summary(d))
    d2 = DiskFile(buffer=list(d.get_buffer()))
    res["list"] = outcome(lambda: d2.list_files())
    record(label, res)
    return d.get_buffer()


# ---------------------------------------------------------------- fill orders
DEFAULT = list(DiskConstants.GRANULE_FILL_ORDER)
ORDERS = {"default": None, "reversed": DEFAULT[::-1], "ascending": list(range(68)),
          "rot17": DEFAULT[17:] + DEFAULT[:17]}
for s in (1, 2, 3):
    p = list(range(68))
    random.Random(100 + s).shuffle(p)
    ORDERS["perm%d" % s] = p

# ------------------------------------------------- single files, all boundaries
ML_LENGTHS = [0, 1, 2, 245, 246, 247, 250, 251, 252, 255, 256, 257, 2292, 2293, 2294, 2295, 2296, 2297, 2298,
              2299, 2300, 2303, 2304, 2305, 4596, 4597, 4598, 4599, 4600, 4603, 4604, 4608, 4609, 6902, 6903,
              6907, 6912, 9216, 20000, 23030, 23040, 65535, 65536, 70000]
for kind in ("ML", "BAS", "ASC", "DAT"):
    for n in ML_LENGTHS:
        store_sequence("single/%s/%d" % (kind, n), [(kind, n)], seed=n)
for oname in ("reversed", "perm1", "ascending"):
    for n in (0, 2293, 2294, 2295, 2299, 2304, 4603, 9216, 30000):
        for kind in ("ML", "BAS", "ASC"):
            store_sequence("single-%s/%s/%d" % (oname, kind, n), [(kind, n)], order=ORDERS[oname], seed=n)

# ------------------------------------------------------------- file sequences
KINDS = ["ML", "BAS", "ASC", "DAT"]
POOL = [0, 1, 100, 251, 256, 2293, 2294, 2295, 2298, 2299, 2304, 2305, 4598, 4603, 4608, 5000, 7000, 12000]
seq_rng = random.Random(4242)
for oname, order in sorted(ORDERS.items()):
    for j in range(6):
        count = seq_rng.randrange(2, 14)
        specs = [(seq_rng.choice(KINDS), seq_rng.choice(POOL)) for _ in range(count)]
        store_sequence("seq/%s/%d" % (oname, j), specs, order=order, seed=j * 31 + len(oname))

# disk-full histories: run out of granules part way through a file / exactly full
store_sequence("full/68-empty", [("ML", 0)] * 68)
store_sequence("full/69-empty", [("ASC", 0)] * 69)
store_sequence("full/70-mixed", [(KINDS[i % 4], i) for i in range(70)], order=ORDERS["perm2"])
store_sequence("full/big", [("ML", 60000), ("BAS", 60000), ("ASC", 30000), ("ML", 10000)])
store_sequence("full/exact", [("ASC", 2303)] * 68, order=ORDERS["reversed"])
store_sequence("full/exact+1", [("ASC", 2303)] * 68 + [("ML", 1)], order=ORDERS["perm3"])
store_sequence("full/two-halves", [("ML", 2304 * 34 - 11), ("BAS", 2304 * 34 - 4)])
store_sequence("full/overshoot", [("ML", 2304 * 34 - 10), ("BAS", 2304 * 34 - 3)])

# appending to an image that already holds files
base_img = store_sequence("base", [("ML", 3000), ("ASC", 10), ("BAS", 2301)])
store_sequence("append/default", [("ML", 2294), ("DAT", 5000)], base=base_img)
store_sequence("append/perm1", [("ML", 2299), ("ASC", 0), ("BAS", 4610)], order=ORDERS["perm1"], base=base_img)

# directory full (all 72 slots look used) -> error after granules were reserved
dir_full = [0xFF] * DiskConstants.IMAGE_SIZE
for e in range(72):
    dir_full[DiskConstants.DIR_OFFSET + 32 * e] = 0x41
store_sequence("dirfull", [("ML", 3000)], base=dir_full)
dir_last = list(dir_full)
dir_last[DiskConstants.DIR_OFFSET + 32 * 70] = 0x00
store_sequence("dir-slot70", [("ML", 10), ("ML", 10)], base=dir_last)
dir_71 = list(dir_full)
dir_71[DiskConstants.DIR_OFFSET + 32 * 71] = 0xFF
store_sequence("dir-slot71-only", [("BAS", 10)], base=dir_71)

# bad fill orders
for label, order in [("short", list(range(67))), ("dups", [5] * 68), ("with68", list(range(1, 69))),
                     ("neg", [-1] + list(range(67))), ("str", ["a"] * 68), ("none", [None] * 68),
                     ("float", [1.0] + list(range(67))), ("long", list(range(68)) + [99]),
                     ("tuple", tuple(range(68))), ("empty", [])]:
    store_sequence("badorder/" + label, [("ML", 5000), ("ASC", 3)], order=order)

# short / odd buffers
for size in (0, 1, 100, 78592, 78593, 78660, 78848, 80000, 161279):
    def run(size=size):
        d = DiskFile(buffer=[0xFF] * size) if size else DiskFile(buffer=[])
        r = {"add": outcome(lambda: d.add_file(make("ML", 300, 0, random.Random(1))))}
        r["sha"] = digest(d.get_buffer())
        return r
    record("shortbuf/%d" % size, run())

ba = DiskFile(buffer=bytearray([0xFF] * DiskConstants.IMAGE_SIZE))
record("bytearray-buffer", [outcome(lambda: ba.add_files([make("ML", 2299, 0, random.Random(2)),
                                                           make("ASC", 7, 1, random.Random(3))])),
                            digest(ba.get_buffer()), outcome(lambda: ba.list_files())])

# ------------------------------------------------------------ granule helpers
d = DiskFile()
d.add_files([make("ML", 5000, 0, random.Random(9)), make("BAS", 1, 1, random.Random(9))])
for g in [-2, -1, 0, 1, 31, 32, 33, 34, 35, 66, 67, 68, 69, 255, 1.5, 67.5, "a", None, True, float("nan")]:
    record("granule_in_use/%r" % (g,), outcome(lambda: d.granule_in_use(g)))
for e in [-1, 0, 1, 35, 70, 71, 72, 100, "a", None, 2.0]:
    record("directory_entry_in_use/%r" % (e,), outcome(lambda: d.directory_entry_in_use(e)))
record("find_empty_granule", outcome(lambda: d.find_empty_granule()))
record("find_empty_directory_entry", outcome(lambda: d.find_empty_directory_entry()))
for oname, order in sorted(ORDERS.items()):
    dd = DiskFile(buffer=list(d.get_buffer()), granule_fill_order=order)
    record("find_empty_granule/" + oname, outcome(lambda: dd.find_empty_granule()))
full = DiskFile()
for g in range(68):
    full.buffer[DiskConstants.FAT_OFFSET + g] = 0xC1
record("find_empty_granule/full", outcome(lambda: full.find_empty_granule()))
full.buffer[DiskConstants.FAT_OFFSET + 41] = 0xFF
record("find_empty_granule/only41", outcome(lambda: full.find_empty_granule()))
for g in [0, 1, 33, 34, 35, 67, 68, -1]:
    record("seek_granule/%d" % g, outcome(lambda: DiskFile.seek_granule(g)))

# ---------------------------------------------------------------- write_to_fat
for label, grans, sectors in [("none", [], 1), ("one", [2], 1), ("four", [2, 4, 6, 8], 9), ("dup", [3, 3], 2),
                              ("dup3", [3, 5, 3], 2), ("zero-sect", [10, 11], 0), ("big-sect", [10, 11], 40),
                              ("range", [66, 67, 68, 200], 3), ("neg", [-1, -2], 1), ("tuple", (7, 9, 1), 4),
                              ("order", [67, 0, 33, 34], 5), ("huge", [5, 400000], 1), ("nonint", [1, "x"], 1),
                              ("nonesect", [1, 2], None)]:
    def run(grans=grans, sectors=sectors):
        t = DiskFile()
        r = outcome(lambda: t.write_to_fat(grans, sectors))
        return [r, digest(t.get_buffer()), plain(list(t.get_buffer()[DiskConstants.FAT_OFFSET - 4:DiskConstants.FAT_OFFSET + 260]))]
    record("write_to_fat/" + label, run())

# ----------------------------------------------------------- write_to_granules
def ambles(kind, n):
    if kind == "ML":
        pre = MLPreamble(); pre.data_length = NumericValue(n & 0xFFFF); pre.load_addr = NumericValue(0x1234)
        post = Postamble(); post.exec_addr = NumericValue(0x4321)
        return pre, post
    if kind == "BAS":
        pre = BasicPreamble(); pre.data_length = NumericValue(n & 0xFFFF)
        return pre, None
    if kind == "ASC":
        return ASCIIPreamble(), None
    if kind == "NOPRE":
        post = Postamble(); post.exec_addr = NumericValue(0xBEEF)
        return None, post
    return None, None

wg_cases = []
for kind in ("ML", "BAS", "ASC", "NOPRE", "NONE"):
    for n in (0, 1, 2298, 2299, 2300, 2301, 2303, 2304, 2305, 4603, 4604, 4608, 7000):
        for grans in ([], [5], [5, 9], [67, 0, 34], [33, 34, 1, 2], [3, 3, 3, 3]):
            for first in (True, False):
                wg_cases.append((kind, n, grans, first))
for kind, n, grans, first in wg_cases:
    def run():
        t = DiskFile()
        pre, post = ambles(kind, n)
        data = [(i * 7 + 1) & 0xFF for i in range(n)]
        r = outcome(lambda: t.write_to_granules(data, list(grans), pre, post, first_granule=first))
        return [r, digest(t.get_buffer())]
    record("write_to_granules/%s/%d/%r/%r" % (kind, n, grans, first), run())

for label, data in [("bytes", bytes(range(256)) * 10), ("bytearray", bytearray(range(256)) * 10),
                    ("tuple", tuple(range(256)) * 10)]:
    def run():
        t = DiskFile()
        pre, post = ambles("ML", len(data))
        r = outcome(lambda: t.write_to_granules(data, [8, 2], pre, post))
        return [r, digest(t.get_buffer())]
    record("write_to_granules/data-" + label, run())

for size in (0, 3, 5, 100, 2304, 2309, 4608, 4612):
    for n in (0, 90, 2299, 2400):
        def run():
            t = DiskFile(buffer=[0xEE] * size) if size else DiskFile(buffer=[])
            pre, post = ambles("ML", n)
            r = outcome(lambda: t.write_to_granules([1] * n, [0, 1], pre, post))
            return [r, digest(t.get_buffer())]
        record("write_to_granules/small-buffer/%d/%d" % (size, n), run())
record("write_to_granules/positional", (lambda t: [outcome(lambda: t.write_to_granules([9] * 3000, [1, 2], None, None, False)),
                                                   digest(t.get_buffer())])(DiskFile()))
record("write_to_granules/granule-out-of-range", (lambda t: [outcome(lambda: t.write_to_granules([9] * 10, [70], *ambles("ML", 10))),
                                                             digest(t.get_buffer())])(DiskFile()))

# ------------------------------------------------------------- write_dir_entry
class Odd:
    pass

dir_cases = [
    ("plain", dict(name="test", extension="bas", type=NumericValue(0x99), data_type=NumericValue(0x10)), 0, 0x20, 0x22),
    ("long", dict(name="averylongname", extension="binary", type=NumericValue(2), data_type=NumericValue(0)), 3, 67, 256),
    ("exact", dict(name="ABCDEFGH", extension="XYZ", type=NumericValue(2), data_type=NumericValue(0)), 71, 0, 0),
    ("nul", dict(name="a\0b\0", extension="\0\0\0", type=NumericValue(1), data_type=NumericValue(0xFF)), 10, 33, 255),
    ("empty", dict(name="", extension="", type=NumericValue(0), data_type=NumericValue(0)), 1, 1, 1),
    ("lower-unicode", dict(name="straße", extension="été", type=NumericValue(0), data_type=NumericValue(0)), 2, 2, 2),
    ("wide", dict(name="Ā€", extension="ab", type=NumericValue(0), data_type=NumericValue(0)), 2, 2, 2),
    ("defaults", dict(), 5, 9, 0xFFFF),
    ("nonevalue", dict(name="n", extension="e", type=NoneValue(), data_type=NoneValue()), 6, 4, 0x1234),
    ("bigbytes", dict(name="n", extension="e", type=NumericValue(2), data_type=NumericValue(0)), 6, 4, 65536),
    ("negbytes", dict(name="n", extension="e", type=NumericValue(2), data_type=NumericValue(0)), 6, 4, -300),
    ("strbytes", dict(name="n", extension="e", type=NumericValue(2), data_type=NumericValue(0)), 6, 4, "$0102"),
    ("nonebytes", dict(name="n", extension="e", type=NumericValue(2), data_type=NumericValue(0)), 6, 4, None),
    ("none-ext", dict(name="keep", extension=None, type=NumericValue(2), data_type=NumericValue(0)), 7, 4, 4),
    ("none-name", dict(name=None, extension="abc", type=NumericValue(2), data_type=NumericValue(0)), 7, 4, 4),
    ("odd-type", dict(name="keep", extension="abc", type=Odd(), data_type=NumericValue(0)), 7, 4, 4),
    ("odd-dtype", dict(name="keep", extension="abc", type=NumericValue(2), data_type=Odd()), 7, 4, 4),
    ("entry72", dict(name="x", extension="y", type=NumericValue(2), data_type=NumericValue(0)), 72, 4, 4),
    ("entry-neg", dict(name="x", extension="y", type=NumericValue(2), data_type=NumericValue(0)), -1, 4, 4),
    ("entry-huge", dict(name="x", extension="y", type=NumericValue(2), data_type=NumericValue(0)), 5000, 4, 4),
    ("gran-big", dict(name="x", extension="y", type=NumericValue(2), data_type=NumericValue(0)), 8, 300, 4),
    ("type-big", dict(name="x", extension="y", type=NumericValue(0x1FF), data_type=NumericValue(0x2FF)), 8, 3, 4),
]
for label, kw, entry, gran, used in dir_cases:
    for bufkind in ("list", "bytearray", "dirty"):
        def run():
            if bufkind == "list":
                t = DiskFile()
            elif bufkind == "bytearray":
                t = DiskFile(buffer=bytearray([0xFF] * DiskConstants.IMAGE_SIZE))
            else:
                t = DiskFile(buffer=[(i * 13) & 0xFF for i in range(DiskConstants.IMAGE_SIZE)])
            r = outcome(lambda: t.write_dir_entry(entry, CoCoFile(**kw), gran, used))
            lo = max(0, DiskConstants.DIR_OFFSET + 32 * entry - 8)
            return [r, digest(t.get_buffer()), plain(list(t.get_buffer()[lo:lo + 48]))]
        record("write_dir_entry/%s/%s" % (label, bufkind), run())
for size in (0, 5, 8, 11, 14, 16, 31, 32):
    def run():
        saved = DiskConstants.DIR_OFFSET
        DiskConstants.DIR_OFFSET = 0
        try:
            t = DiskFile(buffer=[0x77] * size) if size else DiskFile(buffer=[])
            r = outcome(lambda: t.write_dir_entry(0, CoCoFile(name="abcdefgh", extension="ijk", type=NumericValue(2),
                                                           data_type=NumericValue(1)), 0x20, 0x1234))
            return [r, plain(list(t.get_buffer()))]
        finally:
            DiskConstants.DIR_OFFSET = saved
    record("write_dir_entry/short-buffer/%d" % size, run())

# patched offsets (the unit tests do this)
def patched_fat():
    saved = DiskConstants.FAT_OFFSET
    DiskConstants.FAT_OFFSET = 0
    try:
        t = DiskFile(buffer=[0x00] * 68)
        t.write_to_fat([2, 4, 6, 8], 1)
        u = DiskFile(buffer=[0xFF] * 68)
        return [plain(list(t.get_buffer())), outcome(lambda: u.granule_in_use(3)), outcome(lambda: u.find_empty_granule()),
                outcome(lambda: u.add_file(make("ASC", 5, 0, random.Random(5)))), digest(u.get_buffer())]
    finally:
        DiskConstants.FAT_OFFSET = saved
record("patched-fat-offset", patched_fat())

# ------------------------------------------------------------------ calculate_*
for kind in ("ML", "BAS", "ASC"):
    for n in list(range(0, 12)) + list(range(240, 262)) + list(range(2288, 2312)) + list(range(4590, 4615)) + [9216, 65535, 100000]:
        pre, post = ambles(kind, n)
        data = [0] * n
        record("calc/%s/%d" % (kind, n), [
            outcome(lambda: DiskFile.calculate_granules_needed(data, pre, post)),
            outcome(lambda: DiskFile.calculate_last_sector_bytes_used(data, pre, post)),
            outcome(lambda: DiskFile.calculate_last_granules_sectors_used(data, pre, post)),
            outcome(lambda: DiskFile.calculate_sectors_needed(n)),
        ])
record("calc/none-preamble", [outcome(lambda: DiskFile.calculate_granules_needed([1], None, None)),
                              outcome(lambda: DiskFile.calculate_last_sector_bytes_used([1], None, None)),
                              outcome(lambda: DiskFile.calculate_last_granules_sectors_used([1], None, None))])

# --------------------------------------------------------------- add_file odd
for label, kw in [
    ("no-type", dict(name="a", extension="b", data=[1, 2, 3])),
    ("ascii-type0", dict(name="a", extension="b", type=NumericValue(0), data_type=NumericValue(0xFF), data=[65] * 10)),
    ("ml-ascii-flag", dict(name="a", extension="b", type=NumericValue(2), data_type=NumericValue(0xFF),
                           load_addr=NumericValue(1), exec_addr=NumericValue(2), data=[65] * 10)),
    ("ml-no-addrs", dict(name="a", extension="b", type=NumericValue(2), data_type=NumericValue(0), data=[65] * 10)),
    ("none-data", dict(name="a", extension="b", type=NumericValue(2), data_type=NumericValue(0), data=None)),
    ("bytes-data", dict(name="a", extension="b", type=NumericValue(2), data_type=NumericValue(0),
                        load_addr=NumericValue(1), exec_addr=NumericValue(2), data=bytes(range(200)) * 20)),
    ("odd-type", dict(name="a", extension="b", type=Odd(), data_type=NumericValue(0), data=[1])),
    ("none-ext", dict(name="a", extension=None, type=NumericValue(0), data_type=NumericValue(0xFF), data=[1] * 3000)),
]:
    def run():
        t = DiskFile(granule_fill_order=ORDERS["perm2"])
        r = outcome(lambda: t.add_file(CoCoFile(**kw)))
        u = DiskFile(buffer=list(t.get_buffer()))
        return [r, image_summary(t), outcome(lambda: u.list_files())]
    record("add_file/" + label, run())

json.dump(RESULTS, sys.stdout)
'''

ASM_SMALL = """        NAM  HELLO
        ORG  $0E00
START   LDA  #$01
        LDX  #$0400
LOOP    STA  ,X+
        CMPX #$0600
        BNE  LOOP
        RTS
        END  START
"""


def asm_big(n):
    lines = ["        NAM  BIG%d" % n, "        ORG  $2000", "START   LDA  #$05"]
    lines += ["        FCB  $%02X" % (i & 0xFF) for i in range(n)]
    lines += ["        RTS", "        END  START", ""]
    return "\n".join(lines)


def sha(path):
    with open(path, "rb") as handle:
        return hashlib.sha256(handle.read()).hexdigest() + ":" + str(os.path.getsize(path))


def run_cli(tree, work, script, args):
    env = dict(os.environ, PYTHONPATH=tree, PYTHONDONTWRITEBYTECODE="1")
    proc = subprocess.run([PYTHON, os.path.join(tree, script)] + args, cwd=work, env=env,
                          stdout=subprocess.PIPE, stderr=subprocess.PIPE, timeout=600)
    return {"args": [script] + args, "rc": proc.returncode,
            "out": proc.stdout.decode("utf-8", "replace"),
            "err": proc.stderr.decode("utf-8", "replace").replace(tree, "<TREE>")}


def cli_battery(tree):
    """Runs both command-line tools from the given tree in a scratch directory."""
    work = tempfile.mkdtemp(prefix="c08cli-")
    results = []
    try:
        with open(os.path.join(work, "small.asm"), "w") as handle:
            handle.write(ASM_SMALL)
        for n in (2290, 2294, 2295, 2300, 4603, 7000):
            with open(os.path.join(work, "big%d.asm" % n), "w") as handle:
                handle.write(asm_big(n))

        steps = [
            ("assembler.py", ["small.asm", "--to_dsk", "small.dsk"]),
            ("file_util.py", ["small.dsk", "--list"]),
            ("assembler.py", ["small.asm", "--to_dsk", "small.dsk"]),                 # exists, no --append
            ("assembler.py", ["big2294.asm", "--to_dsk", "small.dsk", "--append"]),
            ("assembler.py", ["big2295.asm", "--to_dsk", "small.dsk", "--append"]),
            ("assembler.py", ["big4603.asm", "--to_dsk", "small.dsk", "--append", "--name", "other"]),
            ("file_util.py", ["small.dsk", "--list"]),
            ("assembler.py", ["small.asm", "--to_cas", "small.cas"]),
            ("assembler.py", ["big7000.asm", "--to_cas", "small.cas", "--append"]),
            ("assembler.py", ["big2300.asm", "--to_cas", "small.cas", "--append"]),
            ("file_util.py", ["small.cas", "--list"]),
            ("file_util.py", ["small.cas", "--to_dsk", "fromcas.dsk"]),
            ("file_util.py", ["fromcas.dsk", "--list"]),
            ("file_util.py", ["small.cas", "--to_dsk", "fromcas.dsk"]),               # exists
            ("file_util.py", ["small.cas", "--to_dsk", "fromcas.dsk", "--append"]),
            ("file_util.py", ["fromcas.dsk", "--list"]),
            ("file_util.py", ["small.cas", "--to_dsk", "only.dsk", "--files", "big7000"]),
            ("file_util.py", ["only.dsk", "--list"]),
            ("file_util.py", ["small.dsk", "--to_dsk", "copy.dsk"]),
            ("file_util.py", ["copy.dsk", "--list"]),
            ("file_util.py", ["copy.dsk", "--to_cas", "back.cas"]),
            ("assembler.py", ["big2290.asm", "--to_dsk", "b2290.dsk"]),
            ("file_util.py", ["b2290.dsk", "--list"]),
            ("assembler.py", ["big2290.asm", "--to_bin", "b2290.bin"]),
            ("file_util.py", ["b2290.bin", "--to_dsk", "frombin.dsk"]),
            ("file_util.py", ["frombin.dsk", "--list"]),
            ("file_util.py", ["only.dsk", "--to_bin", "only.bin"]),
            ("file_util.py", ["missing.dsk", "--list"]),
            ("assembler.py", ["small.asm", "--to_dsk", "multi.dsk", "--print", "--symbols"]),
            ("assembler.py", ["big2300.asm", "--to_dsk", "multi.dsk", "--append"]),
            ("assembler.py", ["big7000.asm", "--to_dsk", "multi.dsk", "--append"]),
            ("file_util.py", ["multi.dsk", "--list"]),
            ("file_util.py", ["multi.dsk", "--to_dsk", "multicopy.dsk", "--files", "hello", "BIG7000"]),
            ("file_util.py", ["multicopy.dsk", "--list"]),
            ("file_util.py", ["multi.dsk", "--to_cas", "multi.cas"]),
            ("assembler.py", ["small.asm", "--to_dsk", "noname.dsk", "--name", "ignored"]),
        ]
        for script, args in steps:
            results.append(run_cli(tree, work, script, args))
        files = {}
        for name in sorted(os.listdir(work)):
            files[name] = sha(os.path.join(work, name))
        results.append({"files": files})
    finally:
        shutil.rmtree(work, ignore_errors=True)
    return results


def library_battery(tree):
    handle, path = tempfile.mkstemp(prefix="c08driver-", suffix=".py")
    try:
        with os.fdopen(handle, "w") as out:
            out.write(DRIVER)
        env = dict(os.environ, PYTHONDONTWRITEBYTECODE="1")
        env.pop("PYTHONPATH", None)
        proc = subprocess.run([PYTHON, path, tree], cwd=tree, env=env,
                              stdout=subprocess.PIPE, stderr=subprocess.PIPE, timeout=3600)
        if proc.returncode != 0:
            print("driver failed in", tree)
            print(proc.stderr.decode("utf-8", "replace"))
            sys.exit(1)
        return json.loads(proc.stdout.decode("utf-8"))
    finally:
        os.unlink(path)


def main():
    if len(sys.argv) != 3:
        print(__doc__)
        return 2
    tree_a, tree_b = (os.path.abspath(p) for p in sys.argv[1:3])
    lib_a, lib_b = library_battery(tree_a), library_battery(tree_b)
    cli_a, cli_b = cli_battery(tree_a), cli_battery(tree_b)

    differences = 0
    if len(lib_a) != len(lib_b):
        print("different number of library cases: %d vs %d" % (len(lib_a), len(lib_b)))
        differences += 1
    for (label_a, value_a), (label_b, value_b) in zip(lib_a, lib_b):
        if label_a != label_b or value_a != value_b:
            differences += 1
            if differences <= 20:
                print("DIFF library case %s / %s" % (label_a, label_b))
                print("   A: %s" % json.dumps(value_a)[:600])
                print("   B: %s" % json.dumps(value_b)[:600])
    if len(cli_a) != len(cli_b):
        differences += 1
    for step_a, step_b in zip(cli_a, cli_b):
        if step_a != step_b:
            differences += 1
            print("DIFF cli step")
            print("   A: %s" % json.dumps(step_a)[:800])
            print("   B: %s" % json.dumps(step_b)[:800])

    errors = sum(1 for _, v in lib_a if "exc" in json.dumps(v))
    print("library cases: %d (of which %d involve an exception); cli steps: %d; differences: %d"
          % (len(lib_a), errors, len(cli_a) - 1, differences))
    return 0 if differences == 0 else 1


if __name__ == "__main__":
    sys.exit(main())
