#!/usr/bin/env python
"""
Differential check for refactoring C01/c: IndexedOperand.translate chooses the
5/8/16-bit constant offset form through the new IndexedOperand.constant_offset()
helper (named post-byte constants), and ExtendedIndexedOperand.translate tests
the forbidden [,R+] / [,-R] forms with one membership test.

usage: equiv.py <treeA> <treeB>   (exit 0 = every observable result agrees)
"""


def build_cases():
    cases = []
    symbols = {"SYM": ["num", 5], "NEG": ["num", 200], "BIG": ["num", 4660], "LBL": ["addr", 0], "LBL2": ["addr", 2]}
    numbers = [0, 1, 2, 14, 15, 16, 17, 31, 32, 100, 126, 127, 128, 129, 130, 200, 254, 255, 256, 257, 1000, 4095,
               4096, 32766, 32767, 32768, 32769, 40000, 65534, 65535, 65536]
    spellings = []
    for n in numbers:
        spellings.append(str(n))
        spellings.append("-" + str(n))
        spellings.append("${:X}".format(n))
        spellings.append("${:02X}".format(n))
        spellings.append("${:04X}".format(n))
        if n < 256:
            spellings.append("%{:08b}".format(n))
        if n < 65536:
            spellings.append("%{:016b}".format(n))
    spellings += ["SYM", "NEG", "BIG", "LBL", "LBL2", "UNDEF", "SYM+1", "SYM-9", "SYM-5", "BIG*2", "BIG/2", "1-18", "0-16",
                  "0-17", "0-128", "0-129", "0-200", "LBL+1", "LBL2-1", "1+LBL", "'A", "A", "B", "D", "", "<5", ">5",
                  "#5", "<$1234", ">300"]
    seen = set()
    registers = ["X", "Y", "U", "S"]
    mnemonics = ["LDA", "LEAX", "STD", "CMPD", "JMP", "LDY", "NOP", "BRA"]
    count = 0
    for s_index, text in enumerate(spellings):
        if text in seen:
            continue
        seen.add(text)
        register = registers[s_index % 4]
        for m_index, mnemonic in enumerate(mnemonics):
            if m_index < 2 or (s_index + m_index) % 4 == 0:
                cases.append({"kind": "operand", "mnemonic": mnemonic, "symbols": symbols,
                              "operand": "{},{}".format(text, register)})
                cases.append({"kind": "operand", "mnemonic": mnemonic, "symbols": symbols,
                              "operand": "[{},{}]".format(text, register)})
    # register side spellings, including the forbidden and the malformed ones
    for right in ["X", "Y", "U", "S", "X+", "Y+", "U+", "S+", "X++", "Y++", "U++", "S++", "-X", "-Y", "-U", "-S",
                  "--X", "--Y", "--U", "--S", "-X+", "--X++", "X-", "X--", "+X", "PCR", "PC", "Q", "", "XY", "-", "+",
                  "x", "X+ ", "A", "D"]:
        for left in ["", "0", "5", "-5", "200", "A", "SYM", "LBL"]:
            for mnemonic in ["LDB", "LEAS"]:
                cases.append({"kind": "operand", "mnemonic": mnemonic, "symbols": symbols,
                              "operand": "{},{}".format(left, right)})
                cases.append({"kind": "operand", "mnemonic": mnemonic, "symbols": symbols,
                              "operand": "[{},{}]".format(left, right)})

    # whole programs: the offset reached through EQU symbols and labels, followed by
    # a label so that a wrong size would show up in the listing addresses
    for text in sorted(seen):
        cases.append({"kind": "prog", "lines": [
            "  ORG $0E00", "LBL LDA {},X".format(text), "  LDX [{},Y]".format(text), "LBL2 LEAU {},S".format(text),
            "SYM EQU 5", "NEG EQU 200", "BIG EQU $1234", "AFTER STD [{},U]".format(text), "LAST RTS"]})
    for right in ["X+", "-X", "X++", "--X", "S+", "-U", "-Y", "Y+"]:
        cases.append({"kind": "prog", "lines": ["  ORG $0E00", "  LDA [,{}]".format(right), "END RTS"]})
        cases.append({"kind": "prog", "lines": ["  ORG $0E00", "  LDA ,{}".format(right), "END RTS"]})
    source = "".join("  LDA {},X\n  LDD [{},Y]\n".format(n, n) for n in
                     ["-129", "-128", "-17", "-16", "-1", "0", "1", "15", "16", "127", "128", "255", "256", "$7FFF"])
    cases.append({"kind": "cli", "args": ["in.asm", "--print", "--symbols", "--to_bin", "out.bin"],
                  "files": {"in.asm": "  NAM C\n  ORG $3F00\nGO NOP\n" + source + "DONE RTS\n  END GO\n"}})
    cases.append({"kind": "cli", "args": ["in.asm", "--print"], "files": {"in.asm": "  LDA [,X+]\n"}})
    cases.append({"kind": "cli", "args": ["in.asm", "--print"], "files": {"in.asm": "L LDA L+1,X\n"}})
    return cases


# ---------------------------------------------------------------------------
# Common differential harness: one worker subprocess per tree, same cases.
# ---------------------------------------------------------------------------

WORKER = r'''
import sys, os, json, io, tempfile, subprocess, contextlib
tree = os.path.abspath(sys.argv[1])
sys.path.insert(0, tree)
os.chdir(tree)

from cocoasm.program import Program
from cocoasm.statement import Statement
from cocoasm.instruction import INSTRUCTIONS, CodePackage, Instruction, Mode
from cocoasm.operands import Operand
from cocoasm import operands as operands_module
from cocoasm import values as values_module
from cocoasm.values import Value, NumericValue, AddressValue, NoneValue


def instr(mnemonic):
    if mnemonic is None:
        return None
    return next(op for op in INSTRUCTIONS if op.mnemonic == mnemonic)


def dump(obj, depth=0):
    if depth > 6:
        return "<deep>"
    if obj is None or isinstance(obj, (bool, int, str, float)):
        return obj
    if isinstance(obj, (list, tuple)):
        return [dump(x, depth + 1) for x in obj]
    if isinstance(obj, dict):
        return {str(k): dump(v, depth + 1) for k, v in obj.items()}
    if isinstance(obj, Value):
        out = {"class": type(obj).__name__}
        for name in ("type", "int", "size_hint", "explict_addressing_mode", "negative", "resolved",
                     "original_string", "operation", "hex_array", "original_value"):
            if hasattr(obj, name):
                out[name] = dump(getattr(obj, name), depth + 1)
        for name in ("left", "right", "value"):
            if hasattr(obj, name):
                out[name] = dump(getattr(obj, name), depth + 1)
        for name in ("hex", "hex_len", "byte_len", "is_8_bit", "is_16_bit", "high_byte", "low_byte", "ascii"):
            out[name + "()"] = attempt(getattr(obj, name))
        if hasattr(obj, "is_4_bit"):
            out["is_4_bit()"] = attempt(obj.is_4_bit)
            out["hex(2)"] = attempt(lambda: obj.hex(size=2))
            out["hex(4)"] = attempt(lambda: obj.hex(size=4))
            out["get_negative()"] = attempt(obj.get_negative)
        return out
    if isinstance(obj, CodePackage):
        return {"class": "CodePackage",
                "op_code": dump(obj.op_code, depth + 1), "address": dump(obj.address, depth + 1),
                "post_byte": dump(obj.post_byte, depth + 1), "additional": dump(obj.additional, depth + 1),
                "size": obj.size, "max_size": obj.max_size,
                "additional_needs_resolution": obj.additional_needs_resolution,
                "post_byte_choices": dump(obj.post_byte_choices, depth + 1)}
    if isinstance(obj, Operand):
        return {"class": type(obj).__name__, "type": str(obj.type), "operand_string": obj.operand_string,
                "requires_resolution": obj.requires_resolution, "operation": obj.operation,
                "instruction": obj.instruction.mnemonic if obj.instruction else None,
                "value": dump(obj.value, depth + 1), "left": dump(obj.left, depth + 1),
                "right": dump(obj.right, depth + 1)}
    if isinstance(obj, Statement):
        return {"class": "Statement", "label": obj.label, "mnemonic": obj.mnemonic, "comment": obj.comment,
                "is_empty": obj.is_empty, "is_comment_only": obj.is_comment_only,
                "fixed_size": obj.fixed_size, "pcr_size_hint": obj.pcr_size_hint,
                "instruction": obj.instruction.mnemonic if obj.instruction else None,
                "operand": dump(obj.operand, depth + 1), "original_operand": dump(obj.original_operand, depth + 1),
                "code_pkg": dump(obj.code_pkg, depth + 1),
                "str": attempt(lambda: str(obj))}
    if isinstance(obj, BaseException):
        return describe_error(obj)
    if hasattr(obj, "name") and hasattr(obj, "value") and type(obj).__module__.startswith("cocoasm"):
        return str(obj)
    return repr(obj)


def describe_error(error):
    out = {"exception": type(error).__name__, "str": str(error), "args": dump(list(error.args), 3)}
    if hasattr(error, "value"):
        out["value"] = dump(error.value, 3)
    if hasattr(error, "statement"):
        statement = error.statement
        if isinstance(statement, Statement):
            out["statement"] = attempt(lambda: str(statement))
            out["statement_label"] = statement.label
            out["statement_mnemonic"] = statement.mnemonic
        else:
            out["statement"] = dump(statement, 3)
    return out


def attempt(function):
    try:
        return dump(function(), 3)
    except BaseException as error:
        return {"raised": describe_error(error)}


def run_prog(case):
    program = Program()
    out = {}
    # source lines come from readlines(), so they end in a newline unless the case says otherwise
    lines = case["lines"] if case.get("raw") else [line if line.endswith("\n") else line + "\n" for line in case["lines"]]
    try:
        program.process(lines)
        out["process"] = "ok"
    except BaseException as error:
        out["process"] = describe_error(error)
    out["binary"] = attempt(program.get_binary_array)
    out["listing"] = attempt(program.get_statements)
    out["symbols"] = attempt(program.get_symbol_table)
    out["origin"] = dump(program.origin)
    out["name"] = dump(program.name)
    out["symbol_table"] = attempt(lambda: {k: v for k, v in program.symbol_table.items()})
    if case.get("deep"):
        out["statements"] = attempt(lambda: list(program.statements))
    return out


def run_cli(case):
    tool = case.get("tool", "assembler.py")
    with tempfile.TemporaryDirectory() as work:
        for name, content in case.get("files", {}).items():
            path = os.path.join(work, name)
            if isinstance(content, list):
                with open(path, "wb") as handle:
                    handle.write(bytes(content))
            else:
                with open(path, "w") as handle:
                    handle.write(content)
        env = dict(os.environ)
        env["PYTHONPATH"] = tree
        env["PYTHONDONTWRITEBYTECODE"] = "1"
        env["COLUMNS"] = "80"
        done = subprocess.run([sys.executable, os.path.join(tree, tool)] + case["args"], cwd=work, env=env,
                              capture_output=True, text=True)
        produced = {}
        for name in sorted(os.listdir(work)):
            with open(os.path.join(work, name), "rb") as handle:
                produced[name] = handle.read().hex()
        stderr_lines = done.stderr.strip().splitlines()
        return {"rc": done.returncode, "stdout": done.stdout.replace(tree, "<tree>"),
                "stderr_tail": stderr_lines[-1].replace(tree, "<tree>") if stderr_lines else "",
                "stderr_is_traceback": done.stderr.startswith("Traceback"),
                "files": produced}


def run_operand(case):
    out = {}
    instruction = instr(case["mnemonic"])
    table = {}
    for name, spec in case.get("symbols", {}).items():
        kind, number = spec
        table[name] = AddressValue(number) if kind == "addr" else NumericValue(number)
    try:
        operand = Operand.create_from_str(case["operand"], instruction)
    except BaseException as error:
        return {"create": describe_error(error)}
    out["create"] = dump(operand)
    if case.get("resolve", True):
        try:
            operand = operand.resolve_symbols(table)
            out["resolve"] = dump(operand)
        except BaseException as error:
            out["resolve"] = describe_error(error)
            return out
    try:
        out["translate"] = dump(operand.translate())
        out["after_translate"] = dump(operand)
    except BaseException as error:
        out["translate"] = describe_error(error)
    return out


def run_value(case):
    try:
        value = Value.create_from_str(case["text"], instr(case.get("mnemonic")), case.get("default_mode_extended", True))
    except BaseException as error:
        return {"create": describe_error(error)}
    out = {"create": dump(value)}
    if "symbols" in case:
        table = {}
        for name, spec in case["symbols"].items():
            kind, number = spec
            table[name] = AddressValue(number) if kind == "addr" else NumericValue(number)
        try:
            out["resolve"] = dump(value.resolve(table))
            out["after_resolve"] = dump(value)
        except BaseException as error:
            out["resolve"] = describe_error(error)
    return out


def run_statement(case):
    line = case["line"] if case.get("raw") or case["line"].endswith("\n") else case["line"] + "\n"
    try:
        statement = Statement(line)
    except BaseException as error:
        return {"parse": describe_error(error)}
    return {"parse": dump(statement)}


def run_eval(case):
    scope = dict(globals())
    try:
        exec(case.get("setup", ""), scope)
        return {"result": dump(eval(case["expr"], scope))}
    except BaseException as error:
        return {"raised": describe_error(error)}


RUNNERS = {"prog": run_prog, "cli": run_cli, "operand": run_operand, "value": run_value,
           "statement": run_statement, "eval": run_eval}

cases = json.load(sys.stdin)
results = []
for case in cases:
    captured = io.StringIO()
    with contextlib.redirect_stdout(captured):
        try:
            result = RUNNERS[case["kind"]](case)
        except BaseException as error:
            result = {"harness_error": describe_error(error)}
    results.append({"result": result, "printed": captured.getvalue()})
sys.__stdout__.write(json.dumps(results, sort_keys=True))
'''


def run_tree(tree, cases):
    import json
    import os
    import subprocess
    import sys
    env = dict(os.environ)
    env.pop("PYTHONPATH", None)
    env["PYTHONDONTWRITEBYTECODE"] = "1"
    done = subprocess.run([sys.executable, "-c", WORKER, tree], input=json.dumps(cases), cwd=tree, env=env,
                          capture_output=True, text=True)
    if done.returncode != 0:
        print("worker failed for", tree)
        print(done.stderr)
        sys.exit(1)
    return json.loads(done.stdout)


def main():
    import json
    import os
    import sys
    if len(sys.argv) != 3:
        print("usage: equiv.py <treeA> <treeB>")
        sys.exit(2)
    tree_a, tree_b = (os.path.abspath(p) for p in sys.argv[1:3])
    cases = build_cases()
    results_a = run_tree(tree_a, cases)
    results_b = run_tree(tree_b, cases)
    differences = 0
    errors = 0
    for case, a, b in zip(cases, results_a, results_b):
        text = json.dumps(a, sort_keys=True)
        if '"exception"' in text:
            errors += 1
        if "harness_error" in a["result"] or "harness_error" in b["result"]:
            differences += 1
            print("HARNESS ERROR in case", json.dumps(case)[:200])
            print("  A:", json.dumps(a)[:600])
            print("  B:", json.dumps(b)[:600])
        elif a != b:
            differences += 1
            print("DIFFERENCE in case", json.dumps(case)[:300])
            print("  A:", json.dumps(a, sort_keys=True)[:1500])
            print("  B:", json.dumps(b, sort_keys=True)[:1500])
    print("{} cases ({} involving an error/diagnostic), {} differences".format(len(cases), errors, differences))
    sys.exit(1 if differences or len(results_a) != len(cases) or len(results_b) != len(cases) else 0)


if __name__ == "__main__":
    main()
