#!/usr/bin/env python
"""
Differential demonstration: runs the same set of cases against two source
trees (one subprocess per tree, the tree at the front of sys.path and as the
working directory) and compares every observable result.

usage: equiv.py <treeA> <treeB>      exit 0 = all cases agree, 1 = otherwise
"""
import json
import os
import subprocess
import sys

PYTHON = "/venv/bin/python" if os.path.exists("/venv/bin/python") else sys.executable

DRIVER_HEAD = r'''
import contextlib, enum, hashlib, io, json, os, shutil, subprocess, sys, tempfile
TREE = os.path.abspath(sys.argv[1])
PYTHON = sys.argv[2]
sys.path.insert(0, TREE)
os.chdir(TREE)
RESULTS = []


def norm(text):
    return str(text).replace(TREE, "<TREE>")


def show(obj, depth=0):
    """Canonical, address-free, JSON-able rendering of a result."""
    if depth > 20:
        return "<deep>"
    if obj is None or isinstance(obj, (bool, int, float)):
        return obj
    if isinstance(obj, str):
        return norm(obj)
    if isinstance(obj, (bytes, bytearray)):
        return {"bytes": bytes(obj).hex()}
    if isinstance(obj, enum.Enum):
        return str(obj)
    if isinstance(obj, dict):
        return {"dict": [[show(k, depth), show(v, depth)] for k, v in obj.items()]}
    if hasattr(obj, "_asdict"):
        if type(obj).__name__ in ("Instruction", "Mode") and depth > 0:
            return "<{} {}>".format(type(obj).__name__, getattr(obj, "mnemonic", ""))
        return {"nt": type(obj).__name__, "f": show(obj._asdict(), depth + 1)}
    if isinstance(obj, (list, tuple, set, frozenset)):
        items = list(obj)
        if len(items) > 600 and all(isinstance(i, int) and not isinstance(i, bool) for i in items):
            blob = ",".join(map(str, items)).encode()
            return {type(obj).__name__: len(items), "sha": hashlib.sha256(blob).hexdigest(),
                    "head": items[:24], "tail": items[-24:]}
        return {type(obj).__name__: [show(i, depth + 1) for i in items]}
    if hasattr(obj, "__dict__"):
        return {"obj": type(obj).__name__, "vars": show(vars(obj), depth + 1)}
    return norm(repr(obj))


def case(label, fn):
    out_buf, err_buf = io.StringIO(), io.StringIO()
    try:
        with contextlib.redirect_stdout(out_buf), contextlib.redirect_stderr(err_buf):
            value = fn()
        out = {"ok": show(value)}
    except SystemExit as error:
        out = {"exit": show(error.code)}
    except BaseException as error:
        out = {"exc": type(error).__name__, "msg": norm(error)}
    out["stdout"] = norm(out_buf.getvalue())
    out["stderr"] = norm(err_buf.getvalue())
    RESULTS.append([label, out])


def cli(tool, argv, files=None, keep=None):
    """
    Runs <TREE>/<tool> with argv inside a fresh temporary directory that first
    receives `files` (name -> str or bytes). Returns return code, stdout, the
    last line of stderr and name/size/sha256 of every file left behind.
    """
    work = keep or tempfile.mkdtemp(prefix="equiv")
    try:
        for name, content in (files or {}).items():
            mode = "wb" if isinstance(content, (bytes, bytearray)) else "w"
            with open(os.path.join(work, name), mode) as handle:
                handle.write(content)
        env = dict(os.environ, PYTHONPATH=TREE, PYTHONDONTWRITEBYTECODE="1", COLUMNS="80")
        done = subprocess.run([PYTHON, os.path.join(TREE, tool)] + list(argv), cwd=work, env=env,
                              capture_output=True, text=True, timeout=600)
        left = {}
        for name in sorted(os.listdir(work)):
            with open(os.path.join(work, name), "rb") as handle:
                blob = handle.read()
            left[name] = [len(blob), hashlib.sha256(blob).hexdigest()]
        err_lines = [line for line in done.stderr.splitlines() if line.strip()]
        return {"rc": done.returncode, "stdout": norm(done.stdout).replace(work, "<WORK>"),
                "stderr_last": norm(err_lines[-1]).replace(work, "<WORK>") if err_lines else "",
                "files": left}
    finally:
        if not keep:
            shutil.rmtree(work, ignore_errors=True)


def safe(fn):
    try:
        return fn()
    except Exception as error:
        return "<{}: {}>".format(type(error).__name__, error)


def read_back(work, name):
    with open(os.path.join(work, name), "rb") as handle:
        return handle.read()

'''

DRIVER_TAIL = r'''
print("@@RESULTS@@" + json.dumps(RESULTS))
'''

DRIVER_PROGS = r'''
def program(size, org="$0E00", nam=None, end=None, seed=7):
    """Assembly source producing `size` pseudo-random bytes at `org`."""
    lines = []
    if nam is not None:
        lines.append("\tNAM {}".format(nam))
    if org is not None:
        lines.append("\tORG {}".format(org))
    lines.append("START\tNOP") if size > 0 else None
    state, left = seed, max(size - 1, 0)
    while left > 0:
        count = min(left, 24)
        values = []
        for _ in range(count):
            state = (state * 1103515245 + 12345) & 0x7FFFFFFF
            values.append("${:02X}".format((state >> 16) & 0xFF))
        lines.append("\tFCB {}".format(",".join(values)))
        left -= count
    if end is not None:
        lines.append("\tEND {}".format(end))
    return "\n".join(lines) + "\n"


def data_bytes(size, seed=3):
    state, out = seed, []
    for _ in range(size):
        state = (state * 1103515245 + 12345) & 0x7FFFFFFF
        out.append((state >> 16) & 0xFF)
    return out

'''

DRIVER_DISK = r'''
import random
from cocoasm.virtualfiles.disk import DiskFile, DiskConstants, MLPreamble, BasicPreamble, ASCIIPreamble, Postamble
from cocoasm.virtualfiles.coco_file import CoCoFile
from cocoasm.virtualfiles.virtual_file import VirtualFile, VirtualFileType
from cocoasm.virtualfiles.source_file import SourceFile, SourceFileType
from cocoasm.values import NumericValue, NoneValue

GRANULE = 2304


def coco(name="PROG", size=100, kind=2, data_type=0, load=0x0E00, execute=0x0E00, extension="bin", seed=1):
    return CoCoFile(name=name, extension=extension, type=NumericValue(kind), data_type=NumericValue(data_type),
                    load_addr=NumericValue(load), exec_addr=NumericValue(execute), data=data_bytes(size, seed=seed))


def digest(buffer):
    return [len(buffer), hashlib.sha256(",".join(map(str, buffer)).encode()).hexdigest()]


def usage(buffer):
    """Which granules and directory slots an image says are taken (read straight from the bytes)."""
    fat = list(buffer[DiskConstants.FAT_OFFSET:DiskConstants.FAT_OFFSET + 68])
    slots = [buffer[DiskConstants.DIR_OFFSET + 32 * entry] for entry in range(72)]
    return [fat, slots]


def listing(buffer):
    try:
        files = DiskFile(buffer=list(buffer)).list_files()
    except Exception as error:
        return ["raised", type(error).__name__, str(error)]
    return [[f.name, f.extension, safe(f.type.hex), safe(f.data_type.hex), safe(f.load_addr.hex), safe(f.exec_addr.hex),
             digest(f.data)] for f in files]


def history(files, fill_order=None, start=None):
    """Adds the files one by one; after each step: outcome, image digest, FAT and directory usage."""
    disk = DiskFile(buffer=start, granule_fill_order=fill_order) if start is not None \
        else DiskFile(granule_fill_order=fill_order)
    steps = []
    for coco_file in files:
        try:
            outcome = show(disk.add_file(coco_file))
        except Exception as error:
            outcome = ["raised", type(error).__name__, str(error)]
        steps.append([coco_file.name, len(coco_file.data), outcome, digest(disk.buffer), usage(disk.buffer)])
    return [steps, listing(disk.buffer)]


def sizes_to_files(sizes, kinds=((2, 0, "bin"),)):
    files = []
    for number, size in enumerate(sizes):
        kind, data_type, extension = kinds[number % len(kinds)]
        files.append(coco("F{}".format(number), size, kind=kind, data_type=data_type, extension=extension, seed=number + 1))
    return files


ALL_KINDS = ((2, 0, "bin"), (0, 0, "bas"), (1, 0xFF, "txt"), (0, 0xFF, "bas"))
HISTORIES = {
    "slot exhaustion": sizes_to_files([10] * 75),
    "slot exhaustion empty files": sizes_to_files([0] * 75, ALL_KINDS),
    "granule exhaustion large": sizes_to_files([30000] * 7),
    "granule exhaustion exact": sizes_to_files([GRANULE * 10 - 10] * 8),
    "granule exhaustion one by one": sizes_to_files([GRANULE - 10] * 70),
    "boundary sizes": sizes_to_files([GRANULE - 11, GRANULE - 10, GRANULE - 9, GRANULE - 6, GRANULE - 5, GRANULE - 4,
                                      GRANULE - 3, GRANULE - 1, GRANULE, GRANULE + 1, 2 * GRANULE - 10, 2 * GRANULE - 5,
                                      2 * GRANULE - 3, 2 * GRANULE], ALL_KINDS),
    "sector boundary sizes": sizes_to_files([245, 246, 247, 250, 251, 252, 253, 255, 256, 257, 501, 502, 507, 512, 2293,
                                             2294, 2295, 2298, 2299], ALL_KINDS),
    "mixture": sizes_to_files([5000, 10, 0, 12000, 300, 2304, 40000, 1, 7000, 2294, 65535, 30000, 20000, 4608, 100],
                              ALL_KINDS),
    "too big first": sizes_to_files([65535, 65535, 65535, 10, 2000]),
    "whole disk in one file": sizes_to_files([65535, 65535, 26000, 100]),
    "too long for a length word": sizes_to_files([65536, 70000, 10]),
    "same name twice": [coco("SAME", 10), coco("SAME", 20, seed=2), coco("same", 30, seed=3)],
    "odd names": [coco("", 10), coco("A", 10), coco("LONGERTHAN8", 10), coco("SP ACE", 10), coco("\x00NUL", 10)],
}


def save_history(rounds, append=True):
    """Saves file lists to one host .dsk file through VirtualFile; host bytes before/after each save."""
    work = tempfile.mkdtemp(prefix="equiv")
    try:
        target = os.path.join(work, "host.dsk")
        steps = []
        for files in rounds:
            before = digest(read_back(work, "host.dsk")) if os.path.exists(target) else None
            virtual = VirtualFile(SourceFile(target, file_type=SourceFileType.BINARY), VirtualFileType.DISK)
            try:
                virtual.open_virtual_file()
                for coco_file in files:
                    virtual.add_coco_file(coco_file)
                virtual.save_virtual_file(append_mode=append)
                outcome = "saved"
            except Exception as error:
                outcome = ["raised", type(error).__name__, str(error).replace(work, "<WORK>")]
            after = digest(read_back(work, "host.dsk")) if os.path.exists(target) else None
            steps.append([outcome, before, after, before == after,
                          listing(list(read_back(work, "host.dsk"))) if os.path.exists(target) else None])
        return steps
    finally:
        shutil.rmtree(work, ignore_errors=True)

'''

DRIVER_CASES = DRIVER_PROGS + DRIVER_DISK + r'''
# 1. the length calculators, for every kind of file, at every length around the sector and granule boundaries
def ambles(kind, size):
    if kind == "ml":
        preamble, postamble = MLPreamble(), Postamble()
    elif kind == "basic":
        preamble, postamble = BasicPreamble(), None
    elif kind == "ascii":
        preamble, postamble = ASCIIPreamble(), None
    elif kind == "ml without postamble":
        preamble, postamble = MLPreamble(), None
    else:
        preamble, postamble = ASCIIPreamble(), Postamble()
    return preamble, postamble


LENGTHS = sorted(set(list(range(0, 600)) + [base + delta for base in range(GRANULE, 30 * GRANULE, GRANULE)
                                            for delta in range(-12, 4)] + list(range(65520, 65540))
                     + [sector * 256 + delta for sector in range(1, 40) for delta in range(-11, 2)]))


def calculators(kind):
    rows = []
    for size in LENGTHS:
        data = [0] * size
        preamble, postamble = ambles(kind, size)
        rows.append([size, safe(lambda: DiskFile.calculate_granules_needed(data, preamble, postamble)),
                     safe(lambda: DiskFile.calculate_last_sector_bytes_used(data, preamble, postamble)),
                     safe(lambda: DiskFile.calculate_last_granules_sectors_used(data, preamble, postamble))])
    return rows


for kind in ("ml", "basic", "ascii", "ml without postamble", "ascii with postamble"):
    case("calculators " + kind, lambda: calculators(kind))
case("sectors needed", lambda: [[n, safe(lambda: DiskFile.calculate_sectors_needed(n))]
                               for n in list(range(-600, 5000)) + [0.5, 255.5, 256.0, -0.5, 10 ** 9, 2 ** 60, None, "x"]])


class OddAmble(object):
    def __init__(self, length):
        self.length = length


for label, preamble, postamble in (("negative", OddAmble(-5), None), ("huge", OddAmble(5000), OddAmble(5000)),
                                   ("float", OddAmble(2.5), OddAmble(2.5)), ("none length", OddAmble(None), None),
                                   ("no preamble", None, Postamble()), ("zero", OddAmble(0), OddAmble(0)),
                                   ("falsy postamble", OddAmble(5), 0), ("text", OddAmble("5"), None)):
    case("calculators odd amble " + label,
         lambda: [[size, safe(lambda: DiskFile.calculate_last_sector_bytes_used([0] * size, preamble, postamble)),
                   safe(lambda: DiskFile.calculate_last_granules_sectors_used([0] * size, preamble, postamble))]
                  for size in (0, 1, 255, 256, 2299, 2304, 5000)])
for label, data in (("none", None), ("int", 5), ("text", "abc"), ("bytes", b"abcd" * 700), ("tuple", (1,) * 300),
                    ("range", range(2500))):
    case("calculators data " + label,
         lambda: [safe(lambda: DiskFile.calculate_last_sector_bytes_used(data, MLPreamble(), Postamble())),
                  safe(lambda: DiskFile.calculate_last_granules_sectors_used(data, BasicPreamble(), None))])
case("calculators on an instance", lambda: [DiskFile().calculate_last_sector_bytes_used([0] * 3000, MLPreamble(), Postamble()),
                                           DiskFile().calculate_last_granules_sectors_used([0] * 3000, MLPreamble(), None)])


# 2. the length of a file as recorded in the FAT
def chain(links, last_sectors):
    fat = [0xFF] * 256
    for here, there in zip(links, links[1:]):
        fat[here] = there
    fat[links[-1]] = 0xC0 + last_sectors
    return fat


def file_length(fat, granule, last):
    return lambda: DiskFile.calculate_file_length(granule, fat, last)


for sectors in range(0, 12):
    for last in (0, 1, 255, 256):
        case("fat length one granule sectors {} last {}".format(sectors, last), file_length(chain([5], sectors), 5, last))
        case("fat length chain sectors {} last {}".format(sectors, last),
             file_length(chain([32, 33, 0, 67, 1], sectors), 32, last))
case("fat length from the middle of a chain", file_length(chain([3, 9, 4, 60], 2), 4, 17))
case("fat length whole disk", file_length(chain(list(range(68)), 9), 0, 200))
case("fat length free granule", file_length([0xFF] * 256, 3, 10))
case("fat length entry e0", file_length([0xE5] * 256, 3, 10))
case("fat length entry c0", file_length([0xC0] * 256, 0, 0))
case("fat length entry df", file_length([0xDF] * 256, 0, 256))
case("fat length points outside", file_length(chain([1, 2], 1)[:2] + [0x90] + [0xFF] * 60, 1, 5))
case("fat length start outside", file_length(chain([1], 1), 300, 5))
case("fat length negative start", file_length(chain([1], 1), -1, 5))
case("fat length short fat", file_length([1, 2, 3], 0, 5))
case("fat length empty fat", file_length([], 0, 5))
case("fat length none fat", file_length(None, 0, 5))
case("fat length bytes fat", file_length(bytes(chain([1, 2, 3], 4)), 1, 5))
case("fat length none last", file_length(chain([1], 3), 1, None))
case("fat length text last", file_length(chain([1], 3), 1, "7"))
case("fat length float last", file_length(chain([1, 2], 3), 1, 7.5))
case("fat length text entries", file_length(["x"] * 10, 1, 5))
case("fat length negative entry", file_length([0, -1, 5] + [0xC3] * 10, 1, 5))

# 3. histories that take an image from empty to full
for name, files in HISTORIES.items():
    case("history " + name, lambda: history(files))
    case("history reversed order " + name, lambda: history(files, fill_order=list(range(67, -1, -1))))
for seed in range(6):
    order = list(range(68))
    random.Random(seed).shuffle(order)
    sizes = [random.Random(seed * 7 + n).choice([0, 5, 300, 2294, 2295, 2304, 5000, 9000, 20000]) for n in range(40)]
    case("history shuffled {}".format(seed), lambda: history(sizes_to_files(sizes, ALL_KINDS), fill_order=order))
case("history short fill order", lambda: history(sizes_to_files([10, 10]), fill_order=[0, 1, 2]))
case("history long fill order", lambda: history(sizes_to_files([10, 3000]), fill_order=list(range(68)) + [0, 1]))
case("history fill order with bad granule", lambda: history(sizes_to_files([10, 3000]), fill_order=[99] + list(range(67))))

# 4. saving through VirtualFile: a save that does not fit leaves the host file as it was
case("save grows until full", lambda: save_history([sizes_to_files([30000] * 2)] * 5))
case("save slots until full", lambda: save_history([sizes_to_files([10] * 30)] * 4))
case("save too big at once", lambda: save_history([sizes_to_files([65535] * 4)]))
case("save without append", lambda: save_history([sizes_to_files([10]), sizes_to_files([20])], append=False))
case("save nothing", lambda: save_history([[], []]))


# 5. the command line tools
def fill_by_cli(size, rounds):
    work = tempfile.mkdtemp(prefix="equiv")
    try:
        steps = [cli("assembler.py", ["p.asm", "--to_dsk", "p.dsk"], files={"p.asm": program(size, nam="FILLER")}, keep=work)]
        for _ in range(rounds):
            steps.append(cli("assembler.py", ["p.asm", "--to_dsk", "p.dsk", "--append"], keep=work))
        steps.append(cli("file_util.py", ["p.dsk", "--list"], keep=work))
        steps.append(cli("file_util.py", ["p.dsk", "--to_cas", "p.cas"], keep=work))
        steps.append(cli("file_util.py", ["p.cas", "--to_dsk", "q.dsk"], keep=work))
        steps.append(cli("file_util.py", ["q.dsk", "--list"], keep=work))
        return steps
    finally:
        shutil.rmtree(work, ignore_errors=True)


case("cli fill with large programs", lambda: fill_by_cli(30000, 6))
case("cli fill with boundary programs", lambda: fill_by_cli(2294, 4))
case("cli fill with boundary programs plus one", lambda: fill_by_cli(2295, 4))
case("cli fill with small programs", lambda: fill_by_cli(5, 8))


# 6. directory slots run out before granules do when slots were taken beforehand
def taken_slots(count, mark=0x41):
    buffer = [0xFF] * DiskConstants.IMAGE_SIZE
    for entry in range(count):
        buffer[DiskConstants.DIR_OFFSET + 32 * entry] = mark
    return buffer


for count in (0, 1, 60, 69, 70, 71, 72):
    case("history {} slots taken".format(count), lambda: history(sizes_to_files([10] * 14), start=taken_slots(count)))
case("history deleted slots are free", lambda: history(sizes_to_files([10] * 5), start=taken_slots(72, mark=0x00)))
case("history short image", lambda: history(sizes_to_files([10, 3000]), start=[0xFF] * 1000))
'''


def run_tree(tree):
    tree = os.path.abspath(tree)
    env = dict(os.environ, PYTHONDONTWRITEBYTECODE="1")
    done = subprocess.run([PYTHON, "-c", DRIVER_HEAD + DRIVER_CASES + DRIVER_TAIL, tree, PYTHON],
                          cwd=tree, env=env, capture_output=True, text=True)
    marker = done.stdout.rfind("@@RESULTS@@")
    if done.returncode != 0 or marker < 0:
        print("driver failed for", tree)
        print(done.stdout[-2000:])
        print(done.stderr[-4000:])
        sys.exit(1)
    return json.loads(done.stdout[marker + len("@@RESULTS@@"):])


def main():
    if len(sys.argv) != 3:
        print(__doc__)
        sys.exit(2)
    first, second = run_tree(sys.argv[1]), run_tree(sys.argv[2])
    bad = 0
    if [label for label, _ in first] != [label for label, _ in second]:
        print("case lists differ")
        bad += 1
    for (label, left), (_, right) in zip(first, second):
        if left != right:
            bad += 1
            print("DIFF in case", label)
            print("  A:", json.dumps(left)[:1500])
            print("  B:", json.dumps(right)[:1500])
    print("{} cases compared, {} differ".format(len(first), bad))
    sys.exit(1 if bad or len(first) < 30 else 0)


if __name__ == "__main__":
    main()
