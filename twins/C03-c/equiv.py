#!/usr/bin/env python
"""
Differential check for refactoring C03/c: Program.save_symbol delegates to the
new Program.symbol_entry(), Statement.set_address and Statement.resolve_symbols
are reshaped (label -> statement index -> address is what every branch and PCR
displacement is computed from).

usage: equiv.py <treeA> <treeB>   (exit 0 = every observable result agrees)
"""


def build_cases():
    cases = []

    def prog(text, deep=False):
        cases.append({"kind": "prog", "lines": text.split("|"), "deep": deep})

    kinds = ["NOP", "LDA #1", "LDX $1234", "BRA T", "LBRA T", "LEAX T,PCR", "FCB 1,2", "FDB 7", "FCC /AB/", "RMB 3",
             "RMB 0", "ORG $3000", "EQU 5", "EQU $1234", "EQU T", "EQU T+1", "SET 7", "SETDP 0", "NAM X", "END", "END T",
             "TFR A,B", "PSHS A", "JMP [T]", "LDA [T,PCR]", "EQU", "ORG"]
    for kind in kinds:
        # a label on every kind of statement, referred to by branches and PCR operands on both sides
        prog("  ORG $2000|T NOP|  BRA L|  LBSR L|  LEAX L,PCR|  LDD [L,PCR]|  JMP L|  LDX #L|L {}|AFTER NOP|  BNE L|  LBEQ L"
             "|  LEAY L,PCR|  FDB 1".format(kind), deep=True)
        prog("L {}|T NOP|  BRA L".format(kind))
        prog("T NOP|L {}|L NOP".format(kind))
        prog("T NOP|L NOP|L {}".format(kind))
    # labels and symbols: spelling, duplicates, case, forward and backward use
    prog("A NOP|B NOP|A NOP")
    prog("A EQU 1|A EQU 2")
    prog("A EQU 1|A NOP")
    prog("A NOP|A EQU 1")
    prog("A NOP|a NOP|  BRA A|  BRA a")
    prog("@A NOP|A@ NOP|  BRA @A|  BRA A@")
    prog("L1 NOP|L_2 NOP|3L NOP|  BRA L1|  BRA 3L")
    prog("X NOP|  LDA ,X|  BRA X|  LEAX X,PCR")
    prog("A EQU B|B EQU 5|  LDA #A")
    prog("A EQU B|B NOP|  BRA A")
    prog("Z EQU 3|  BRA Z|  NOP|  NOP|  NOP|  NOP")
    prog("Z EQU 3|  LEAX Z,PCR|  LEAX [Z,PCR]")
    for origin in ["$0000", "$0100", "$7FFF", "$FFF0"]:
        prog("A NOP|  ORG {}|B NOP|  BRA A|  BRA B|  LEAX A,PCR|  LEAX B,PCR|C ORG $0500|D BRA C|  LBRA A".format(origin))
    for count in [1, 2, 10, 63, 64, 65, 100]:
        lines = ["  ORG $1000"] + ["L{} NOP".format(i) for i in range(count)] + ["  BRA L0", "  LBRA L0", "  LEAX L0,PCR"]
        lines += ["  BRA L{}".format(count - 1), "  FDB 0"]
        prog("|".join(lines))

    # direct calls
    for line in ["L NOP", "  NOP", "L EQU 5", "L EQU $1234", "L SET 5", "L ORG $100", "L FCB 1", "L BRA L", "L EQU M"]:
        setup = ("program = Program()\nstatement = Statement({!r})\n"
                 "first = attempt(lambda: program.save_symbol(4, statement))\n"
                 "table = dump(program.symbol_table)\n"
                 "second = attempt(lambda: program.save_symbol(9, statement))\n").format(line + "\n")
        cases.append({"kind": "eval", "setup": setup, "expr": "[first, table, second, program.symbol_table]"})
    for line in ["  NOP", "  ORG $1234", "  ORG 5", "L RMB 4", "  ORG"]:
        for address in ["0", "5", "255", "256", "65535", "65536", "-1", "-70000", "None", "'$10'", "'zz'", "2.5"]:
            setup = ("statement = Statement({!r})\nstatement.translate()\n"
                     "first = attempt(lambda: statement.set_address({}))\nmiddle = dump(statement)\n"
                     "second = attempt(lambda: statement.set_address(77))\n").format(line + "\n", address)
            cases.append({"kind": "eval", "setup": setup, "expr": "[first, middle, second, statement]"})
    for line in ["  LDA T", "  LDA U", "  BRA T", "  LEAX T,PCR", "  LDA T+1", "  LDA #E", "  LDA E", "  LDA <T", "  NOP",
                 "  FCB E", "  LDA E,X", "  LDA [U,X]", "  LDA E/Z"]:
        setup = ("statement = Statement({!r})\nbefore = dump(statement)\n"
                 "table = {{'T': AddressValue(3), 'E': NumericValue(5), 'Z': NumericValue(0)}}\n"
                 "outcome = attempt(lambda: statement.resolve_symbols(table))\n").format(line + "\n")
        cases.append({"kind": "eval", "setup": setup, "expr": "[before, outcome, statement]"})
    cases.append({"kind": "eval", "setup": "statement = Statement('')\n",
                  "expr": "[attempt(lambda: statement.resolve_symbols({})), attempt(lambda: statement.set_address(3)), statement]"})

    source = "  ORG $0E00\nTOP LDA #1\nSIZE EQU 3\nLOOP DECA\n  BNE LOOP\n  LBRA TOP\n  LEAX TOP,PCR\n  RMB SIZE\nEND1 RTS\n"
    cases.append({"kind": "cli", "args": ["in.asm", "--print", "--symbols", "--to_bin", "out.bin"], "files": {"in.asm": source}})
    cases.append({"kind": "cli", "args": ["in.asm", "--print", "--symbols"], "files": {"in.asm": source + "TOP NOP\n"}})
    cases.append({"kind": "cli", "args": ["in.asm", "--print", "--symbols"], "files": {"in.asm": source + "  BRA GONE\n"}})
    return cases


# ---------------------------------------------------------------------------
# Common differential harness: one worker subprocess per tree, same cases.
# ---------------------------------------------------------------------------

WORKER = r'''
import sys, os, json, io, tempfile, subprocess, contextlib
tree = os.path.abspath(sys.argv[1])
sys.path.insert(0, tree)
os.chdir(tree)

from cocoasm.program import Program
from cocoasm.statement import Statement
from cocoasm.instruction import INSTRUCTIONS, CodePackage, Instruction, Mode
from cocoasm.operands import Operand
from cocoasm import operands as operands_module
from cocoasm import values as values_module
from cocoasm.values import Value, NumericValue, AddressValue, NoneValue


def instr(mnemonic):
    if mnemonic is None:
        return None
    return next(op for op in INSTRUCTIONS if op.mnemonic == mnemonic)


def dump(obj, depth=0):
    if depth > 6:
        return "<deep>"
    if obj is None or isinstance(obj, (bool, int, str, float)):
        return obj
    if isinstance(obj, (list, tuple)):
        return [dump(x, depth + 1) for x in obj]
    if isinstance(obj, dict):
        return {str(k): dump(v, depth + 1) for k, v in obj.items()}
    if isinstance(obj, Value):
        out = {"class": type(obj).__name__}
        for name in ("type", "int", "size_hint", "explict_addressing_mode", "negative", "resolved",
                     "original_string", "operation", "hex_array", "original_value"):
            if hasattr(obj, name):
                out[name] = dump(getattr(obj, name), depth + 1)
        for name in ("left", "right", "value"):
            if hasattr(obj, name):
                out[name] = dump(getattr(obj, name), depth + 1)
        for name in ("hex", "hex_len", "byte_len", "is_8_bit", "is_16_bit", "high_byte", "low_byte", "ascii"):
            out[name + "()"] = attempt(getattr(obj, name))
        if hasattr(obj, "is_4_bit"):
            out["is_4_bit()"] = attempt(obj.is_4_bit)
            out["hex(2)"] = attempt(lambda: obj.hex(size=2))
            out["hex(4)"] = attempt(lambda: obj.hex(size=4))
            out["get_negative()"] = attempt(obj.get_negative)
        return out
    if isinstance(obj, CodePackage):
        return {"class": "CodePackage",
                "op_code": dump(obj.op_code, depth + 1), "address": dump(obj.address, depth + 1),
                "post_byte": dump(obj.post_byte, depth + 1), "additional": dump(obj.additional, depth + 1),
                "size": obj.size, "max_size": obj.max_size,
                "additional_needs_resolution": obj.additional_needs_resolution,
                "post_byte_choices": dump(obj.post_byte_choices, depth + 1)}
    if isinstance(obj, Operand):
        return {"class": type(obj).__name__, "type": str(obj.type), "operand_string": obj.operand_string,
                "requires_resolution": obj.requires_resolution, "operation": obj.operation,
                "instruction": obj.instruction.mnemonic if obj.instruction else None,
                "value": dump(obj.value, depth + 1), "left": dump(obj.left, depth + 1),
                "right": dump(obj.right, depth + 1)}
    if isinstance(obj, Statement):
        return {"class": "Statement", "label": obj.label, "mnemonic": obj.mnemonic, "comment": obj.comment,
                "is_empty": obj.is_empty, "is_comment_only": obj.is_comment_only,
                "fixed_size": obj.fixed_size, "pcr_size_hint": obj.pcr_size_hint,
                "instruction": obj.instruction.mnemonic if obj.instruction else None,
                "operand": dump(obj.operand, depth + 1), "original_operand": dump(obj.original_operand, depth + 1),
                "code_pkg": dump(obj.code_pkg, depth + 1),
                "str": attempt(lambda: str(obj))}
    if isinstance(obj, BaseException):
        return describe_error(obj)
    if hasattr(obj, "name") and hasattr(obj, "value") and type(obj).__module__.startswith("cocoasm"):
        return str(obj)
    return repr(obj)


def describe_error(error):
    out = {"exception": type(error).__name__, "str": str(error), "args": dump(list(error.args), 3)}
    if hasattr(error, "value"):
        out["value"] = dump(error.value, 3)
    if hasattr(error, "statement"):
        statement = error.statement
        if isinstance(statement, Statement):
            out["statement"] = attempt(lambda: str(statement))
            out["statement_label"] = statement.label
            out["statement_mnemonic"] = statement.mnemonic
        else:
            out["statement"] = dump(statement, 3)
    return out


def attempt(function):
    try:
        return dump(function(), 3)
    except BaseException as error:
        return {"raised": describe_error(error)}


def run_prog(case):
    program = Program()
    out = {}
    # source lines come from readlines(), so they end in a newline unless the case says otherwise
    lines = case["lines"] if case.get("raw") else [line if line.endswith("\n") else line + "\n" for line in case["lines"]]
    try:
        program.process(lines)
        out["process"] = "ok"
    except BaseException as error:
        out["process"] = describe_error(error)
    out["binary"] = attempt(program.get_binary_array)
    out["listing"] = attempt(program.get_statements)
    out["symbols"] = attempt(program.get_symbol_table)
    out["origin"] = dump(program.origin)
    out["name"] = dump(program.name)
    out["symbol_table"] = attempt(lambda: {k: v for k, v in program.symbol_table.items()})
    if case.get("deep"):
        out["statements"] = attempt(lambda: list(program.statements))
    return out


def run_cli(case):
    tool = case.get("tool", "assembler.py")
    with tempfile.TemporaryDirectory() as work:
        for name, content in case.get("files", {}).items():
            path = os.path.join(work, name)
            if isinstance(content, list):
                with open(path, "wb") as handle:
                    handle.write(bytes(content))
            else:
                with open(path, "w") as handle:
                    handle.write(content)
        env = dict(os.environ)
        env["PYTHONPATH"] = tree
        env["PYTHONDONTWRITEBYTECODE"] = "1"
        env["COLUMNS"] = "80"
        done = subprocess.run([sys.executable, os.path.join(tree, tool)] + case["args"], cwd=work, env=env,
                              capture_output=True, text=True)
        produced = {}
        for name in sorted(os.listdir(work)):
            with open(os.path.join(work, name), "rb") as handle:
                produced[name] = handle.read().hex()
        stderr_lines = done.stderr.strip().splitlines()
        return {"rc": done.returncode, "stdout": done.stdout.replace(tree, "<tree>"),
                "stderr_tail": stderr_lines[-1].replace(tree, "<tree>") if stderr_lines else "",
                "stderr_is_traceback": done.stderr.startswith("Traceback"),
                "files": produced}


def run_operand(case):
    out = {}
    instruction = instr(case["mnemonic"])
    table = {}
    for name, spec in case.get("symbols", {}).items():
        kind, number = spec
        table[name] = AddressValue(number) if kind == "addr" else NumericValue(number)
    try:
        operand = Operand.create_from_str(case["operand"], instruction)
    except BaseException as error:
        return {"create": describe_error(error)}
    out["create"] = dump(operand)
    if case.get("resolve", True):
        try:
            operand = operand.resolve_symbols(table)
            out["resolve"] = dump(operand)
        except BaseException as error:
            out["resolve"] = describe_error(error)
            return out
    try:
        out["translate"] = dump(operand.translate())
        out["after_translate"] = dump(operand)
    except BaseException as error:
        out["translate"] = describe_error(error)
    return out


def run_value(case):
    try:
        value = Value.create_from_str(case["text"], instr(case.get("mnemonic")), case.get("default_mode_extended", True))
    except BaseException as error:
        return {"create": describe_error(error)}
    out = {"create": dump(value)}
    if "symbols" in case:
        table = {}
        for name, spec in case["symbols"].items():
            kind, number = spec
            table[name] = AddressValue(number) if kind == "addr" else NumericValue(number)
        try:
            out["resolve"] = dump(value.resolve(table))
            out["after_resolve"] = dump(value)
        except BaseException as error:
            out["resolve"] = describe_error(error)
    return out


def run_statement(case):
    line = case["line"] if case.get("raw") or case["line"].endswith("\n") else case["line"] + "\n"
    try:
        statement = Statement(line)
    except BaseException as error:
        return {"parse": describe_error(error)}
    return {"parse": dump(statement)}


def run_eval(case):
    scope = dict(globals())
    try:
        exec(case.get("setup", ""), scope)
        return {"result": dump(eval(case["expr"], scope))}
    except BaseException as error:
        return {"raised": describe_error(error)}


RUNNERS = {"prog": run_prog, "cli": run_cli, "operand": run_operand, "value": run_value,
           "statement": run_statement, "eval": run_eval}

cases = json.load(sys.stdin)
results = []
for case in cases:
    captured = io.StringIO()
    with contextlib.redirect_stdout(captured):
        try:
            result = RUNNERS[case["kind"]](case)
        except BaseException as error:
            result = {"harness_error": describe_error(error)}
    results.append({"result": result, "printed": captured.getvalue()})
sys.__stdout__.write(json.dumps(results, sort_keys=True))
'''


def run_tree(tree, cases):
    import json
    import os
    import subprocess
    import sys
    env = dict(os.environ)
    env.pop("PYTHONPATH", None)
    env["PYTHONDONTWRITEBYTECODE"] = "1"
    done = subprocess.run([sys.executable, "-c", WORKER, tree], input=json.dumps(cases), cwd=tree, env=env,
                          capture_output=True, text=True)
    if done.returncode != 0:
        print("worker failed for", tree)
        print(done.stderr)
        sys.exit(1)
    return json.loads(done.stdout)


def main():
    import json
    import os
    import sys
    if len(sys.argv) != 3:
        print("usage: equiv.py <treeA> <treeB>")
        sys.exit(2)
    tree_a, tree_b = (os.path.abspath(p) for p in sys.argv[1:3])
    cases = build_cases()
    results_a = run_tree(tree_a, cases)
    results_b = run_tree(tree_b, cases)
    differences = 0
    errors = 0
    for case, a, b in zip(cases, results_a, results_b):
        text = json.dumps(a, sort_keys=True)
        if '"exception"' in text:
            errors += 1
        if "harness_error" in a["result"] or "harness_error" in b["result"]:
            differences += 1
            print("HARNESS ERROR in case", json.dumps(case)[:200])
            print("  A:", json.dumps(a)[:600])
            print("  B:", json.dumps(b)[:600])
        elif a != b:
            differences += 1
            print("DIFFERENCE in case", json.dumps(case)[:300])
            print("  A:", json.dumps(a, sort_keys=True)[:1500])
            print("  B:", json.dumps(b, sort_keys=True)[:1500])
    print("{} cases ({} involving an error/diagnostic), {} differences".format(len(cases), errors, differences))
    sys.exit(1 if differences or len(results_a) != len(cases) or len(results_b) != len(cases) else 0)


if __name__ == "__main__":
    main()
