"""E5: path-enumerating abstract interpreter for small methods (encoders, sizing, writers).

Domains: Const (folded constant), Lin (affine integer over symbols), Bits (constant mask OR opaque
contributions), Ctor (abstract constructor call), Opq (opaque, versioned access path).  Branch conditions
become atoms; identical atoms are correlated along a path; substring implications between
`'c' in x` atoms are built in.  Loops are joined as {0, 1} iterations.  No solver is involved."""
import ast
import re

from .model import U


class PathCap(Exception):
    pass


class AV:
    pass


class Const(AV):
    def __init__(self, v):
        self.v = v

    def __repr__(self):
        if isinstance(self.v, int) and not isinstance(self.v, bool):
            return "Const(%#x)" % self.v
        return "Const(%r)" % (self.v,)


class Lin(AV):
    """symbolic affine int: {sym: coeff} + c"""
    def __init__(self, terms, c=0):
        self.terms = {k: v for k, v in terms.items() if v}
        self.c = c

    def __repr__(self):
        t = "+".join((k if v == 1 else "%d*%s" % (v, k)) for k, v in sorted(self.terms.items()))
        if not t:
            return "Lin(%d)" % self.c
        return "Lin(%s%s%d)" % (t, "+" if self.c >= 0 else "", self.c)

    def key(self):
        return (tuple(sorted(self.terms.items())), self.c)


class Bits(AV):
    def __init__(self, mask=0, opaque=()):
        self.mask = mask
        self.opaque = tuple(opaque)

    def __repr__(self):
        return "Bits(%#04x%s)" % (self.mask, "".join("|" + repr(o) for o in self.opaque))


class Ctor(AV):
    def __init__(self, cls, args, kw, node=None):
        self.cls = cls
        self.args = args
        self.kw = kw
        self.node = node

    def __repr__(self):
        a = ", ".join([repr(x) for x in self.args] + ["%s=%r" % kv for kv in self.kw.items()])
        return "%s(%s)" % (self.cls, a)


class Opq(AV):
    def __init__(self, text, unk=False):
        self.text = text
        self.unk = unk      # the expression is of a shape the interpreter does not model (as opposed to a free input)

    def __repr__(self):
        return "<%s%s>" % ("?!" if self.unk else "", self.text)


def strip_ver(s):
    return re.sub(r"@\d+", "", s)


class Path:
    __slots__ = ("env", "conds", "ver", "trace", "unk")

    def __init__(self):
        self.unk = []       # conditions taken both ways because their value has an unmodelled shape: outcomes on this path prove nothing
        self.env = {}
        self.conds = []     # (atom text, truth)
        self.ver = {}       # attribute text -> version
        self.trace = []     # line numbers of taken branches (for reports)

    def copy(self):
        p = Path()
        p.env = dict(self.env)
        p.conds = list(self.conds)
        p.ver = dict(self.ver)
        p.trace = list(self.trace)
        p.unk = list(self.unk)
        return p

    def atoms(self, strip=True):
        return {(strip_ver(a) if strip else a): t for a, t in self.conds}

    def true_atoms(self):
        return {strip_ver(a) for a, t in self.conds if t}

    def false_atoms(self):
        return {strip_ver(a) for a, t in self.conds if not t}


CMP = {ast.Eq: lambda a, b: a == b, ast.NotEq: lambda a, b: a != b, ast.In: lambda a, b: a in b,
       ast.NotIn: lambda a, b: a not in b, ast.Lt: lambda a, b: a < b, ast.Gt: lambda a, b: a > b,
       ast.LtE: lambda a, b: a <= b, ast.GtE: lambda a, b: a >= b,
       ast.Is: lambda a, b: (a is b) if (a is None or b is None or isinstance(a, bool) or isinstance(b, bool)) else (a == b and type(a) is type(b)),
       ast.IsNot: lambda a, b: not ((a is b) if (a is None or b is None or isinstance(a, bool) or isinstance(b, bool)) else (a == b and type(a) is type(b)))}
ARITH = {ast.Add: int.__add__, ast.Sub: int.__sub__, ast.BitOr: int.__or__, ast.BitAnd: int.__and__, ast.Mult: int.__mul__,
         ast.LShift: int.__lshift__, ast.RShift: int.__rshift__}


_ATOM_CACHE = {}
_LIT = r"('(?:[^'\\\\]|\\\\.)*'|\"(?:[^\"\\\\]|\\\\.)*\")"
_RE_IN = re.compile(r"^" + _LIT + r" in (.+)$")
_RE_EQ = re.compile(r"^(.+) == " + _LIT + r"$")
_RE_NE = re.compile(r"^(.+) != " + _LIT + r"$")


def parse_atom(atom):
    """('in', literal, var) | ('eq', var, literal) | ('ne', var, literal) | ('other', text)"""
    r = _ATOM_CACHE.get(atom)
    if r is not None:
        return r
    r = ("other", atom)
    try:
        m = _RE_IN.match(atom)
        if m:
            r = ("in", ast.literal_eval(m.group(1)), m.group(2))
        else:
            m = _RE_EQ.match(atom)
            if m:
                r = ("eq", m.group(1), ast.literal_eval(m.group(2)))
            else:
                m = _RE_NE.match(atom)
                if m:
                    r = ("ne", m.group(1), ast.literal_eval(m.group(2)))
    except Exception:
        r = ("other", atom)
    _ATOM_CACHE[atom] = r
    return r


def atom_holds(kind, s):
    if kind[0] == "in":
        return kind[1] in s
    if kind[0] == "eq":
        return s == kind[2]
    if kind[0] == "ne":
        return s != kind[2]
    return None


def candidates(conds, var, universe):
    """members of the universe consistent with every string atom on var"""
    cs = []
    for a, t in conds:
        k = parse_atom(a)
        v = k[2] if k[0] == "in" else (k[1] if k[0] in ("eq", "ne") else None)
        if v == var:
            cs.append((k, t))
    return [s for s in universe if all(atom_holds(k, s) == t for k, t in cs)]


class Outcome:
    def __init__(self, kind, path, value, node):
        self.kind = kind        # 'return' | 'raise' | 'fall'
        self.path = path
        self.value = value
        self.node = node

    @property
    def line(self):
        return getattr(self.node, "lineno", 0)


_PATHLIKE = re.compile(r"^[A-Za-z_]\w*(@\d+)?(\.[A-Za-z_]\w*(@\d+)?)+(\(\))?$")


def _const_like(name):
    """an UPPER_CASE name that did not fold: a constant of the program the interpreter failed to evaluate, not a free input"""
    return len(name) > 1 and name.isupper()


class Interp:
    def __init__(self, fn_node, consts=None, maxpaths=20000, sym_attrs=(), init_env=None, hooks=None, universes=None,
                 sub_bases=(), call_syms=None, call_ctors=(), inline=None, loop_summary=False, resolver=None, alias_paths=False, strict_unknown=True):
        """sym_attrs: attribute-text suffixes to be treated as Lin symbols (e.g. '_sz')."""
        self.fn = fn_node
        self.results = []
        self.consts = consts or {}
        self.maxpaths = maxpaths
        self.sym_attrs = sym_attrs
        self.init_env = init_env or {}
        self.hooks = hooks or {}      # call-text -> callable(interp, path, node) -> AV
        self.stmt_events = []         # (path-id unaware) list of (event, node) for callers who need effects
        self.universes = universes or {}   # string variable text -> finite list of candidate strings (feasibility filter)
        self.sub_bases = set(sub_bases)    # subscripted bases abstracted as Ctor('sub', [base, index])
        self.call_syms = call_syms or {}   # call text prefix -> fresh symbol name (Opq) for its result
        self.call_ctors = set(call_ctors)  # call func texts abstracted as Ctor('call:<f>', args)
        self.inline = inline or {}         # 'self.name' -> FunctionDef, interpreted at the call site
        self.fresh = 0
        self.strict_unknown = strict_unknown   # run() refuses (PathCap) when a branch was taken both ways on a value of unmodelled shape; callers that judge per path pass False
        self.alias_paths = alias_paths     # spell a local that names an access path by that path in atoms and opaque texts
        self.loop_summary = loop_summary   # summarise counted loops: v_after = v_before + N * delta, stores become ranges
        self.resolver = resolver           # call node -> (FunctionDef, [param names]) of a repository helper, for folding calls with constant arguments

    # ---- helpers
    def key(self, p, node):
        t = U(node)
        # a local that merely names an access path / a call on one (value = self.value; n = value.int) is spelled by what it names,
        # so that facts about the same quantity read alike whichever way the code reaches it
        for nm in {x.id for x in ast.walk(node) if isinstance(x, ast.Name)} if (self.alias_paths and not isinstance(node, ast.stmt)) else ():
            v = p.env.get(nm)
            if isinstance(v, Opq) and not v.unk and v.text != nm and _PATHLIKE.match(v.text):
                t = re.sub(r"(?<![\w.@])%s(?![\w@(])" % re.escape(nm), lambda m_: v.text, t)
        if p.ver:
            for a in sorted(p.ver, key=len, reverse=True):
                if a in t:
                    t = re.sub((r"(?<![\w.])" if "." not in a else "") + re.escape(a) + r"(?![\w@])", "%s@%d" % (a, p.ver[a]), t)
        return t

    def aslin(self, v):
        if isinstance(v, Lin):
            return v
        if isinstance(v, Const) and isinstance(v.v, int) and not isinstance(v.v, bool):
            return Lin({}, v.v)
        if isinstance(v, Opq):
            return Lin({v.text: 1})
        if isinstance(v, Ctor) and (v.cls.startswith("attr:") or v.cls.startswith("call:") or v.cls.startswith("meth:") or v.cls == "div"):
            return Lin({repr(v): 1})
        return None

    # ---- expressions: return list of (path, value)
    def ev(self, p, n):
        if isinstance(n, ast.Constant):
            return [(p, Const(n.value))]
        if isinstance(n, ast.Name):
            if n.id in p.env:
                return [(p, p.env[n.id])]
            if n.id in self.consts:
                return [(p, Const(self.consts[n.id]))]
            return [(p, Opq(n.id, unk=_const_like(n.id)))]
        if isinstance(n, ast.Attribute):
            t = U(n)
            if t in p.env:
                return [(p, p.env[t])]
            if self.sub_bases and isinstance(n.value, (ast.Call, ast.Subscript, ast.Name)):
                inner = self.ev(p, n.value)
                if len(inner) == 1 and isinstance(inner[0][1], Ctor):
                    return [(inner[0][0], Ctor("attr:" + n.attr, [inner[0][1]], {}, n))]
            if t in self.consts:
                return [(p, Const(self.consts[t]))]
            for suf in self.sym_attrs:
                if t.endswith(suf):
                    return [(p, Lin({t.split(".")[-1]: 1}))]
            return [(p, Opq(self.key(p, n), unk=_const_like(n.attr)))]
        if isinstance(n, ast.IfExp):
            out = []
            for q, t in self.cond(p, n.test):
                out += self.ev(q, n.body if t else n.orelse)
            return out
        if isinstance(n, (ast.List, ast.Tuple)):
            outs = [(p, [])]
            for e in n.elts:
                nxt = []
                for q, acc in outs:
                    for q2, v in self.ev(q, e):
                        nxt.append((q2, acc + [v]))
                outs = nxt
            res = []
            for q, els in outs:
                if all(isinstance(e, Const) for e in els):
                    res.append((q, Const([e.v for e in els])))
                else:
                    res.append((q, Ctor("list", els, {})))
            return res
        if isinstance(n, ast.BinOp):
            out = []
            for q, l in self.ev(p, n.left):
                for q2, r in self.ev(q, n.right):
                    out.append((q2, self.binop(q2, n, l, r)))
            return out
        if isinstance(n, ast.UnaryOp) and isinstance(n.op, ast.USub):
            out = []
            for q, v in self.ev(p, n.operand):
                if isinstance(v, Const) and isinstance(v.v, int):
                    out.append((q, Const(-v.v)))
                else:
                    lv = self.aslin(v)
                    out.append((q, Lin({k: -c for k, c in lv.terms.items()}, -lv.c) if lv else Opq(self.key(q, n))))
            return out
        if isinstance(n, ast.Subscript) and U(n.value) not in self.sub_bases:
            out = []
            for q, b in self.ev(p, n.value):
                if isinstance(b, Const) and not isinstance(n.slice, ast.Slice):
                    for q2, i in self.ev(q, n.slice):
                        if isinstance(i, Const):
                            try:
                                out.append((q2, Const(b.v[i.v])))
                                continue
                            except Exception:
                                pass
                        out.append((q2, Opq(self.key(q2, n))))
                elif isinstance(b, Const) and isinstance(n.slice, ast.Slice):
                    try:
                        lo = self.ev(q, n.slice.lower)[0][1].v if n.slice.lower else None
                        hi = self.ev(q, n.slice.upper)[0][1].v if n.slice.upper else None
                        out.append((q, Const(b.v[lo:hi])))
                    except Exception:
                        out.append((q, Opq(self.key(q, n))))
                else:
                    # an index that evaluates to a constant is spelled by its value (choices[wide] with wide = 0 reads choices[0])
                    txt = None
                    if not isinstance(n.slice, ast.Slice):
                        iv = self.ev(q, n.slice)
                        if len(iv) == 1 and isinstance(iv[0][1], Const) and isinstance(iv[0][1].v, (int, str)) and not isinstance(n.slice, ast.Constant):
                            txt = "%s[%r]" % (self.key(q, n.value), iv[0][1].v)
                    out.append((q, Opq(txt or self.key(q, n))))
            return out
        if isinstance(n, ast.Subscript) and U(n.value) in self.sub_bases and not isinstance(n.slice, ast.Slice):
            return [(q, Ctor("sub", [Opq(U(n.value)), v], {}, n)) for q, v in self.ev(p, n.slice)]
        if isinstance(n, ast.Call) and isinstance(n.func, ast.Attribute) and isinstance(n.func.value, ast.Call) and U(n.func.value.func) == "getattr" \
                and len(n.func.value.args) == 2 and not n.func.value.keywords:
            # getattr(obj, <constant name>).method(...) is obj.<name>.method(...)
            nv = self.ev(p, n.func.value.args[1])
            if len(nv) == 1 and isinstance(nv[0][1], Const) and isinstance(nv[0][1].v, str) and nv[0][1].v.isidentifier():
                recv = ast.copy_location(ast.Attribute(value=n.func.value.args[0], attr=nv[0][1].v, ctx=ast.Load()), n)
                n2 = ast.copy_location(ast.Call(func=ast.copy_location(ast.Attribute(value=recv, attr=n.func.attr, ctx=ast.Load()), n), args=n.args, keywords=n.keywords), n)
                return self.ev(nv[0][0], n2)
        if isinstance(n, ast.Call):
            f = U(n.func)
            if f in self.hooks:
                return [(p, self.hooks[f](self, p, n))]
            if f == "getattr" and len(n.args) in (2, 3) and not n.keywords:
                nv = self.ev(p, n.args[1])
                if len(nv) == 1 and isinstance(nv[0][1], Const) and isinstance(nv[0][1].v, str) and nv[0][1].v.isidentifier():
                    attr = ast.copy_location(ast.Attribute(value=n.args[0], attr=nv[0][1].v, ctx=ast.Load()), n)
                    return self.ev(nv[0][0], attr)
            if f == "len" and len(n.args) == 1 and not n.keywords:
                lv = self.ev(p, n.args[0])
                if len(lv) == 1 and isinstance(lv[0][1], Ctor) and lv[0][1].cls == "list":
                    return [(lv[0][0], Const(len(lv[0][1].args)))]
            # calls on / with constants only: fold (table lookups, helper functions over the finite grammar)
            folded = self.fold_call(p, n, f)
            if folded is not None:
                return folded
            # a helper whose body is a single `return <expression>` is evaluated in place (pure accessor / formula)
            if self.resolver is not None and not n.keywords and getattr(self, "_depth", 0) < 3:
                r = self.resolver(n)
                if r is not None:
                    fnode, params = r
                    body = [b for b in fnode.body if not (isinstance(b, ast.Expr) and isinstance(b.value, ast.Constant))]
                    if len(body) == 1 and isinstance(body[0], ast.Return) and body[0].value is not None and len(params) == len(n.args):
                        outs = [(p, [])]
                        for a in n.args:
                            nxt = []
                            for q, acc in outs:
                                for q2, v in self.ev(q, a):
                                    nxt.append((q2, acc + [v]))
                            outs = nxt
                        res = []
                        self._depth = getattr(self, "_depth", 0) + 1
                        try:
                            for q, args in outs:
                                saved = {k: q.env.get(k) for k in params}
                                for k, v in zip(params, args):
                                    q.env[k] = v
                                for q2, v in self.ev(q, body[0].value):
                                    for k, old in saved.items():
                                        if old is None:
                                            q2.env.pop(k, None)
                                        else:
                                            q2.env[k] = old
                                    res.append((q2, v))
                        finally:
                            self._depth -= 1
                        return res
            if self.resolver is not None and f not in self.call_syms and f not in self.call_ctors and f not in self.inline \
                    and getattr(self, "_depth", 0) < 3:
                r = self.resolver(n)
                if r is not None:
                    got = self.interpret_callee(p, n, r[0], r[1])
                    if got is not None:
                        return got
            if f in self.call_syms:
                self.fresh += 1
                return [(p, Opq("%s%d" % (self.call_syms[f], self.fresh)))]
            if f in self.call_ctors or f in self.inline:
                outs = [(p, [])]
                for a in n.args:
                    nxt = []
                    for q, args in outs:
                        for q2, v in self.ev(q, a):
                            nxt.append((q2, args + [v]))
                    outs = nxt
                if f in self.call_ctors:
                    return [(q, Ctor("call:" + f, args, {}, n)) for q, args in outs]
                res = []
                for q, args in outs:
                    res += self.do_inline(q, f, args, n)
                return res
            if isinstance(n.func, ast.Name) and f[:1].isupper():
                outs = [(p, [], {})]
                for a in n.args:
                    nxt = []
                    for q, args, kw in outs:
                        for q2, v in self.ev(q, a):
                            nxt.append((q2, args + [v], kw))
                    outs = nxt
                for k in n.keywords:
                    nxt = []
                    for q, args, kw in outs:
                        for q2, v in self.ev(q, k.value):
                            kw2 = dict(kw)
                            kw2[k.arg] = v
                            nxt.append((q2, args, kw2))
                    outs = nxt
                return [(q, Ctor(f, args, kw, n)) for q, args, kw in outs]
            if self.call_ctors and isinstance(n.func, ast.Attribute):
                outs = [(q, [v]) for q, v in self.ev(p, n.func.value)]
                for a in n.args:
                    nxt = []
                    for q, args in outs:
                        for q2, v in self.ev(q, a):
                            nxt.append((q2, args + [v]))
                    outs = nxt
                if outs and all(any(isinstance(x, Ctor) for x in args) for q, args in outs):
                    return [(q, Ctor("meth:" + n.func.attr, args, {}, n)) for q, args in outs]
            return [(p, Opq(self.key(p, n), unk=self.all_const_call(p, n) or self.taints_unknown(p, n)))]
        if isinstance(n, ast.Compare) or isinstance(n, ast.BoolOp) or (isinstance(n, ast.UnaryOp) and isinstance(n.op, ast.Not)):
            return [(q, Const(t)) for q, t in self.cond(p, n)]
        return [(p, self.fold_else_unknown(p, n))]

    def taints_unknown(self, p, n):
        """the receiver or an argument of the call is itself a value of unmodelled shape: so is the result"""
        exprs = ([n.func.value] if isinstance(n.func, ast.Attribute) else []) + list(n.args) + [k.value for k in n.keywords]
        for e in exprs:
            if isinstance(e, ast.Name) and e.id in ("self", "cls"):
                continue
            try:
                r = self.ev(p, e)
            except Exception:
                return True
            if any("<?!" in repr(v) for _, v in r):
                return True
        if isinstance(n.func, ast.Name) and "<?!" in repr(p.env.get(n.func.id, "")):
            return True
        return False

    def all_const_call(self, p, n):
        """a call that reads no free input (receiver and arguments are constants) and still could not be folded: its result is not
        an unknown of the program but a gap of the interpreter"""
        exprs = ([n.func.value] if isinstance(n.func, ast.Attribute) else []) + list(n.args) + [k.value for k in n.keywords]
        if isinstance(n.func, ast.Attribute) and isinstance(n.func.value, ast.Name) and n.func.value.id in ("self", "cls"):
            exprs = exprs[1:]
            if not exprs:
                return False
        for e in exprs:
            try:
                r = self.ev(p, e)
            except Exception:
                return False
            if len(r) != 1 or not isinstance(r[0][1], Const):
                return False
            if not isinstance(r[0][1].v, (str, int, float, bytes, tuple, list, dict, set, frozenset, type(None))):
                return False      # a token that stands for a free input object
        return True

    def const_env(self, p):
        env = dict(self.consts)
        for k, v in p.env.items():
            if isinstance(v, Const):
                env[k] = v.v
            elif not k.startswith("$"):
                env.pop(k, None)
        return env

    def fold_else_unknown(self, p, n):
        """expression kinds the interpreter has no transfer function for (comprehensions, f-strings, lambdas ...):
        a constant when every name in them is constant, otherwise an opaque of unmodelled shape"""
        from .consteval import fold
        try:
            return Const(fold(n, self.const_env(p)))
        except Exception:
            # a slice / element of an input buffer is input, not a gap of the interpreter
            free = isinstance(n, ast.Subscript) and not any(isinstance(x, (ast.ListComp, ast.GeneratorExp, ast.Lambda)) for x in ast.walk(n))
            return Opq(self.key(p, n), unk=not free)

    def fold_call(self, p, n, f):
        from .consteval import fold_body, Raised, NotConst
        if n.keywords and any(k.arg is None for k in n.keywords):
            return None
        if isinstance(n.func, ast.Name) and n.func.id[:1].isupper() and not (self.resolver and self.resolver(n)):
            return None
        # evaluate receiver (for methods) and arguments; all must be constants
        vals = []
        cur = [(p, [])]
        exprs = ([n.func.value] if isinstance(n.func, ast.Attribute) else []) + list(n.args) + [k.value for k in n.keywords]
        for e in exprs:
            nxt = []
            for q, acc in cur:
                r = self.ev(q, e)
                if len(r) != 1 or not isinstance(r[0][1], Const):
                    return None
                nxt.append((r[0][0], acc + [r[0][1].v]))
            cur = nxt
        q, vals = cur[0]
        if isinstance(n.func, ast.Attribute):
            recv, args = vals[0], vals[1:len(n.args) + 1]
            if isinstance(recv, (str, dict, list, tuple)) and not n.keywords and n.func.attr in (
                    "get", "upper", "lower", "strip", "lstrip", "rstrip", "startswith", "endswith", "split", "find", "rfind", "replace", "count", "index", "keys", "values", "items", "ljust", "rjust"):
                try:
                    r = getattr(recv, n.func.attr)(*args)
                    if n.func.attr in ("keys", "values", "items"):
                        r = list(r)
                    return [(q, Const(r))]
                except Exception:
                    return None
            if not (isinstance(n.func.value, ast.Name) and n.func.value.id in ("self", "cls")):
                return None
            vals = vals[1:]
        if isinstance(n.func, ast.Name) and n.func.id in ("len", "type", "min", "max", "abs", "bool", "int", "str", "ord", "chr", "any", "all", "sorted", "tuple", "list", "isinstance") and not n.keywords:
            try:
                import builtins
                return [(q, Const(getattr(builtins, n.func.id)(*vals)))]
            except Exception:
                return None
        if isinstance(n.func, ast.Name) and n.func.id in ("enumerate", "zip", "range", "reversed", "divmod", "sum", "hex") and not n.keywords:
            try:
                import builtins
                r = getattr(builtins, n.func.id)(*vals)
                if n.func.id in ("enumerate", "zip", "range", "reversed"):
                    r = list(r)
                    if len(r) > 4096:
                        return None
                return [(q, Const(r))]
            except Exception:
                return None
        if self.resolver is None:
            return None
        r = self.resolver(n)
        if r is None:
            return None
        fnode, params = r
        if len(params) < len(n.args):
            return None
        env = dict(self.consts)
        _ = None
        defaults = fnode.args.defaults
        for pname, d in zip(params[len(params) - len(defaults):], defaults):
            try:
                from .consteval import fold
                env[pname] = fold(d, self.consts)
            except Exception:
                pass
        for pname, v in zip(params, vals[:len(n.args)]):
            env[pname] = v
        for k, v in zip(n.keywords, vals[len(n.args):]):
            env[k.arg] = v
        try:
            body = fnode.body
            return [(q, Const(fold_body(body, env)))]
        except Raised as e:
            self.results.append(Outcome("raise", q, e.name, n))
            return []
        except NotConst:
            return None
        except Exception:
            return None

    def interpret_callee(self, p, n, fnode, params):
        """a repository helper called with abstract arguments: its body is interpreted on the caller's state, one continuation per
        return; its path conditions and its writes to self.* are carried back. None when the call shape is not supported."""
        if any(k.arg is None for k in n.keywords) or any(isinstance(a, ast.Starred) for a in n.args):
            return None
        if fnode.args.vararg or fnode.args.kwarg or fnode.args.kwonlyargs or len(n.args) > len(params):
            return None
        if any(isinstance(x, (ast.Yield, ast.YieldFrom, ast.Global, ast.Nonlocal)) for x in ast.walk(fnode)):
            return None
        binds = [(p, {})]
        pairs = list(zip(params, n.args)) + [(k.arg, k.value) for k in n.keywords]
        if any(k not in params for k, _ in pairs):
            return None
        for name, e in pairs:
            nxt = []
            for q, b in binds:
                for q2, v in self.ev(q, e):
                    b2 = dict(b)
                    b2[name] = v
                    nxt.append((q2, b2))
            binds = nxt
        defaults = fnode.args.defaults
        dflt = {}
        for pname, d in zip(params[len(params) - len(defaults):], defaults):
            dflt[pname] = d
        out = []
        for q, b in binds:
            env = {k: v for k, v in q.env.items() if k.startswith("self.") or k.startswith("cls.") or k.startswith("$")}
            for pname in params:
                if pname in b:
                    env[pname] = b[pname]
                elif pname in dflt:
                    dv = self.ev(q, dflt[pname])
                    if len(dv) != 1:
                        return None
                    env[pname] = dv[0][1]
                else:
                    return None
            sub = Interp(fnode, consts=self.consts, maxpaths=self.maxpaths, sym_attrs=self.sym_attrs, init_env=env, hooks=self.hooks,
                         universes=self.universes, sub_bases=self.sub_bases, call_syms=self.call_syms, call_ctors=self.call_ctors,
                         inline=self.inline, loop_summary=self.loop_summary, resolver=self.resolver, alias_paths=self.alias_paths)
            sub._depth = getattr(self, "_depth", 0) + 1
            sub.fresh = self.fresh + 1000
            sub._seed = q
            try:
                outcomes = sub.run()
            except PathCap:
                raise
            self.fresh = sub.fresh
            for o in outcomes:
                q2 = q.copy()
                q2.conds = list(o.path.conds)
                q2.unk = list(o.path.unk)
                q2.trace = list(o.path.trace)
                q2.ver = dict(o.path.ver)
                for k, v in o.path.env.items():
                    if k.startswith("self.") or k.startswith("cls.") or k.startswith("$"):
                        q2.env[k] = v
                if o.kind == "raise":
                    self.results.append(Outcome("raise", q2, o.value, o.node))
                else:
                    out.append((q2, o.value))
        return out

    def do_inline(self, p, f, args, node):
        fn = self.inline[f]
        p.env["$calls"] = tuple(p.env.get("$calls", ())) + ((f, tuple(args)),)
        params = [a.arg for a in fn.args.args if a.arg not in ("self", "cls")]
        env = {}
        for k, v in zip(params, args):
            env[k] = v
        sub = Interp(fn, consts=self.consts, maxpaths=self.maxpaths, sym_attrs=self.sym_attrs, init_env=env,
                     sub_bases=self.sub_bases, call_syms=self.call_syms, call_ctors=self.call_ctors)
        sub.fresh = self.fresh + 100
        outs = {}
        for o in sub.run():
            if o.kind == "return":
                outs.setdefault(repr(o.value), o.value)
        if not outs:
            return [(p, Opq(self.key(p, node)))]
        res = []
        for i, v in enumerate(outs.values()):
            q = p.copy() if len(outs) > 1 else p
            if len(outs) > 1:
                q.conds.append(("inline:%s#%d" % (f, i), True))
            res.append((q, v))
        return res

    def binop(self, p, n, l, r):
        if isinstance(n.op, ast.Add):
            def as_items(v):
                if isinstance(v, Ctor) and v.cls == "list":
                    return list(v.args)
                if isinstance(v, Const) and isinstance(v.v, (list, tuple)):
                    return [Const(x) for x in v.v]
                return None
            li, ri = as_items(l), as_items(r)
            if li is not None and ri is not None and (isinstance(l, Ctor) or isinstance(r, Ctor)):
                return Ctor("list", li + ri, {})
        if isinstance(n.op, (ast.Div, ast.FloorDiv)) and self.call_ctors:
            return Ctor("div", [l, r], {}, n)
        if isinstance(l, Const) and isinstance(r, Const) and isinstance(l.v, int) and isinstance(r.v, int) and type(n.op) in ARITH:
            try:
                return Const(ARITH[type(n.op)](l.v, r.v))
            except Exception:
                pass
        if isinstance(l, Const) and isinstance(r, Const) and isinstance(n.op, ast.Mult):
            try:
                return Const(l.v * r.v)
            except Exception:
                pass
        if isinstance(n.op, (ast.Add, ast.Sub)):
            ll, rr = self.aslin(l), self.aslin(r)
            if ll and rr:
                sg = 1 if isinstance(n.op, ast.Add) else -1
                terms = dict(ll.terms)
                for k, v in rr.terms.items():
                    terms[k] = terms.get(k, 0) + sg * v
                return Lin(terms, ll.c + sg * rr.c)
        if isinstance(n.op, ast.LShift) and isinstance(r, Const) and isinstance(r.v, int) and 0 <= r.v < 32:
            ll = self.aslin(l)
            if ll:
                return Lin({k: v * (1 << r.v) for k, v in ll.terms.items()}, ll.c * (1 << r.v))
        if isinstance(n.op, ast.Mult):
            ll, rr = self.aslin(l), self.aslin(r)
            if ll and rr and not rr.terms:
                return Lin({k: v * rr.c for k, v in ll.terms.items()}, ll.c * rr.c)
            if ll and rr and not ll.terms:
                return Lin({k: v * ll.c for k, v in rr.terms.items()}, rr.c * ll.c)
        return Opq("(%r %s %r)" % (l, type(n.op).__name__, r))

    # ---- conditions: list of (path, bool)
    def known(self, p, atom):
        for a, t in p.conds:
            if a == atom:
                return t
        kind = parse_atom(atom)
        if kind[0] == "other":
            return None
        if kind[0] == "in":
            _, cst, x = kind
            for a, t in p.conds:
                k2 = parse_atom(a)
                if k2[0] == "in" and k2[2] == x:
                    if t and cst in k2[1]:
                        return True
                    if (not t) and k2[1] in cst:
                        return False
                elif k2[0] == "eq" and k2[1] == x and t:
                    return cst in k2[2]
            return None
        if kind[0] == "eq":
            _, x, lit = kind
            for a, t in p.conds:
                k2 = parse_atom(a)
                if k2[0] == "eq" and k2[1] == x and t and k2[2] != lit:
                    return False
                if k2[0] == "ne" and k2[1] == x and k2[2] == lit:
                    return not t
                if k2[0] == "in" and k2[2] == x and (not t) and k2[1] in lit:
                    return False
            return None
        if kind[0] == "ne":
            _, x, lit = kind
            for a, t in p.conds:
                k2 = parse_atom(a)
                if k2[0] == "eq" and k2[1] == x:
                    if k2[2] == lit:
                        return not t
                    if t:
                        return True
            return None
        return None

    def unknown_shape(self, p, n):
        """does the truth of condition n hang on a value of unmodelled shape?"""
        for sub in ast.walk(n):
            if isinstance(sub, ast.Name) and "<?!" in repr(p.env.get(sub.id, "")):
                return True
            if isinstance(sub, ast.Attribute) and "<?!" in repr(p.env.get(U(sub), "")):
                return True
            if isinstance(sub, (ast.ListComp, ast.SetComp, ast.DictComp, ast.GeneratorExp, ast.Lambda, ast.JoinedStr, ast.NamedExpr)):
                return True
        for sub in ast.walk(n):
            if isinstance(sub, ast.Call):
                try:
                    vs = self.ev(p, sub)
                except Exception:
                    return True
                if any("<?!" in repr(v) for _, v in vs):
                    return True
        return False

    def cond(self, p, n):
        if isinstance(n, ast.BoolOp):
            is_or = isinstance(n.op, ast.Or)
            res = []
            pending = [p]
            for v in n.values:
                nxt = []
                for q in pending:
                    for q2, t in self.cond(q, v):
                        if t == is_or:
                            res.append((q2, is_or))
                        else:
                            nxt.append(q2)
                pending = nxt
            res += [(q, not is_or) for q in pending]
            return res
        if isinstance(n, ast.UnaryOp) and isinstance(n.op, ast.Not):
            return [(q, not t) for q, t in self.cond(p, n.operand)]
        if isinstance(n, (ast.Name, ast.Attribute, ast.Constant)):
            vs = self.ev(p, n)
            if len(vs) == 1 and isinstance(vs[0][1], Const):
                return [(p, bool(vs[0][1].v))]
            if len(vs) == 1 and isinstance(vs[0][1], Ctor) and vs[0][1].cls == "list":
                return [(p, bool(vs[0][1].args))]
        if isinstance(n, ast.Compare) and len(n.ops) == 1:
            ls = self.ev(p, n.left)
            if len(ls) > 1 or (len(ls) == 1 and len(self.ev(ls[0][0], n.comparators[0])) > 1):
                # an operand with several continuations (an interpreted helper with several returns): compared per continuation
                res = []
                for q, l in ls:
                    for q2, r in self.ev(q, n.comparators[0]):
                        if isinstance(l, Const) and isinstance(r, Const) and type(n.ops[0]) in CMP:
                            try:
                                res.append((q2, bool(CMP[type(n.ops[0])](l.v, r.v))))
                                continue
                            except Exception:
                                pass
                        atom = self.key(q2, n)
                        a, b = q2.copy(), q2.copy()
                        for x_, t_ in ((a, True), (b, False)):
                            x_.conds.append((atom, t_))
                            x_.unk.append(atom)
                        res += [(a, True), (b, False)]
                return res
            if len(ls) == 1:
                rs = self.ev(ls[0][0], n.comparators[0])
                if len(rs) == 1:
                    l, r = ls[0][1], rs[0][1]
                    if isinstance(l, Const) and isinstance(r, Const) and type(n.ops[0]) in CMP:
                        try:
                            return [(p, bool(CMP[type(n.ops[0])](l.v, r.v)))]
                        except Exception:
                            pass
                    # a computed number / constructed object is never None
                    for x, y in ((l, r), (r, l)):
                        # (a Value's .int is an integer in every value class of this repository: never None)
                        int_attr = isinstance(x, Opq) and not x.unk and re.search(r"\.int(@\d+)?$", x.text) is not None and isinstance(y, Const) and y.v is None
                        if int_attr or isinstance(y, Const) and y.v is None and isinstance(x, (Bits, Lin)) or (isinstance(x, Ctor) and x.cls[:1].isupper() and isinstance(y, Const) and y.v is None):
                            if isinstance(n.ops[0], (ast.Is, ast.Eq)):
                                return [(p, False)]
                            if isinstance(n.ops[0], (ast.IsNot, ast.NotEq)):
                                return [(p, True)]
                    if any(isinstance(x, Bits) and not x.opaque for x in (l, r)):
                        q1, q2 = p.copy(), p.copy()
                        atom = self.key(p, n)
                        for q, t in ((q1, True), (q2, False)):
                            q.conds.append((atom, t))
                            q.unk.append(atom)
                        return [(q1, True), (q2, False)]
        if not isinstance(n, (ast.Compare, ast.BoolOp, ast.UnaryOp, ast.Name, ast.Attribute, ast.Constant)):
            vs = self.ev(p, n)
            if len(vs) == 1 and isinstance(vs[0][1], Const):
                return [(vs[0][0], bool(vs[0][1].v))]
            if len(vs) > 1 or (len(vs) == 1 and vs[0][0] is not p):
                # an interpreted helper: one continuation per return of the callee, each with its own path conditions
                out = []
                for q, v in vs:
                    if isinstance(v, Const):
                        out.append((q, bool(v.v)))
                    elif isinstance(v, (Bits, Lin)) or (isinstance(v, Ctor) and v.cls[:1].isupper()):
                        out.append((q, True if not isinstance(v, Bits) or v.mask else None))
                    else:
                        out.append((q, None))
                res = []
                for q, t in out:
                    if t is not None:
                        res.append((q, t))
                        continue
                    atom = self.key(q, n)
                    a, b = q.copy(), q.copy()
                    a.conds.append((atom, True))
                    b.conds.append((atom, False))
                    if self.unknown_shape(q, n):
                        a.unk.append(atom)
                        b.unk.append(atom)
                    res += [(a, True), (b, False)]
                return res
        atom = self.key(p, n)
        k = self.known(p, atom)
        if k is not None:
            return [(p, k)]
        unk = self.unknown_shape(p, n)
        a, b = p.copy(), p.copy()
        a.conds.append((atom, True))
        b.conds.append((atom, False))
        if unk:
            a.unk.append(atom)
            b.unk.append(atom)
        ln = getattr(n, "lineno", 0)
        a.trace.append((ln, True))
        b.trace.append((ln, False))
        out = [(a, True), (b, False)]
        if self.universes:
            k = parse_atom(atom)
            var = k[2] if k[0] == "in" else (k[1] if k[0] in ("eq", "ne") else None)
            if var in self.universes:
                out = [(q, t) for q, t in out if candidates(q.conds, var, self.universes[var])]
        return out

    # ---- statements
    def assign(self, p, target, val):
        t = U(target)
        if isinstance(target, ast.Attribute):
            p.ver[t] = p.ver.get(t, 0) + 1
        elif isinstance(target, ast.Name) and t in p.env and any(re.search(r"(?<![\w.])%s(?![\w@])" % re.escape(t), a_) for a_, _ in p.conds):
            # a local that path conditions speak about is bound again: what was learnt about the old value says nothing about the new one
            p.ver[t] = p.ver.get(t, 0) + 1
        if isinstance(target, (ast.Tuple, ast.List)):
            parts = None
            if isinstance(val, Ctor) and val.cls == "list" and len(val.args) == len(target.elts):
                parts = val.args
            elif isinstance(val, Const) and isinstance(val.v, (list, tuple)) and len(val.v) == len(target.elts):
                parts = [Const(x) for x in val.v]
            for i, e in enumerate(target.elts):
                if parts:
                    p.env[U(e)] = parts[i]
                elif isinstance(val, Ctor):
                    p.env[U(e)] = Ctor("item", [val, Const(i)], {})
                else:
                    p.env[U(e)] = Opq(self.key(p, e) + "'")
            return [p]
        p.env[t] = val
        return [p]

    def bind_const(self, q, target, x):
        if isinstance(target, (ast.Tuple, ast.List)) and isinstance(x, (tuple, list)) and len(x) == len(target.elts) \
                and not any(isinstance(e, ast.Starred) for e in target.elts):
            for e, y in zip(target.elts, x):
                self.bind_const(q, e, y)
        else:
            q.env[U(target)] = Const(x)

    def run_block(self, paths, stmts):
        for s in stmts:
            nxt = []
            for p in paths:
                nxt += self.step(p, s)
            paths = nxt
            if len(paths) + len(self.results) > self.maxpaths:
                raise PathCap("more than %d paths" % self.maxpaths)
        return paths

    def step(self, p, s):
        if isinstance(s, ast.Assign) and len(s.targets) == 1 and isinstance(s.targets[0], ast.Subscript) \
                and U(s.targets[0].value) in self.sub_bases and not isinstance(s.targets[0].slice, ast.Slice):
            out = []
            for q, v in self.ev(p, s.value):
                for q2, idx in self.ev(q, s.targets[0].slice):
                    q2.env["$stores"] = tuple(q2.env.get("$stores", ())) + (("store", idx, v, s),)
                    out.append(q2)
            return out
        if isinstance(s, ast.Assign) and len(s.targets) == 1:
            out = []
            for q, v in self.ev(p, s.value):
                out += self.assign(q, s.targets[0], v)
            return out
        if isinstance(s, ast.AugAssign):
            outs = []
            for q, r in self.ev(p, s.value):
                cur = self.ev(q, s.target)[0][1]
                if isinstance(s.op, ast.BitOr):
                    if isinstance(cur, Bits):
                        b = cur
                    elif isinstance(cur, Const) and isinstance(cur.v, int):
                        b = Bits(cur.v)
                    else:
                        b = Bits(0, (cur,))
                    if isinstance(r, Const) and isinstance(r.v, int):
                        nv = Bits(b.mask | r.v, b.opaque)
                    elif isinstance(r, Bits):
                        nv = Bits(b.mask | r.mask, b.opaque + r.opaque)
                    else:
                        nv = Bits(b.mask, b.opaque + (r,))
                elif isinstance(s.op, (ast.Add, ast.Sub)):
                    l, rr = self.aslin(cur), self.aslin(r)
                    sg = 1 if isinstance(s.op, ast.Add) else -1
                    if l and rr:
                        terms = dict(l.terms)
                        for k, v in rr.terms.items():
                            terms[k] = terms.get(k, 0) + sg * v
                        nv = Lin(terms, l.c + sg * rr.c)
                        if not nv.terms:
                            nv = Const(nv.c)
                    else:
                        nv = Opq("%r%s%r" % (cur, "+" if sg > 0 else "-", r))
                else:
                    nv = Opq(self.key(q, s))
                outs += self.assign(q, s.target, nv)
            return outs
        if isinstance(s, ast.If):
            outs = []
            for q, t in self.cond(p, s.test):
                outs += self.run_block([q], s.body if t else s.orelse)
            return outs
        if isinstance(s, ast.Return):
            if s.value is None:
                self.results.append(Outcome("return", p, Const(None), s))
            else:
                for q, v in self.ev(p, s.value):
                    self.results.append(Outcome("return", q, v, s))
            return []
        if isinstance(s, ast.Raise):
            name = U(s.exc.func) if isinstance(s.exc, ast.Call) else (U(s.exc) if s.exc else "reraise")
            self.results.append(Outcome("raise", p, name, s))
            return []
        if isinstance(s, ast.For) and not (self.loop_summary and isinstance(s.iter, ast.Call) and U(s.iter.func) == "range"):
            its = self.ev(p, s.iter)
            if len(its) == 1 and isinstance(its[0][1], Const):
                try:
                    seq = list(its[0][1].v.items()) if False else list(its[0][1].v)
                except TypeError:
                    seq = None
                if seq is not None and len(seq) <= 24:
                    paths = [its[0][0]]
                    for x in seq:
                        nxt = []
                        for q in paths:
                            self.bind_const(q, s.target, x)
                            nxt += self.run_block([q], s.body)
                        paths = nxt
                        if len(paths) > self.maxpaths:
                            raise PathCap("loop unrolling")
                    return paths
        if isinstance(s, ast.For) and not self.loop_summary:
            # a list of abstract values built in place ([flag, hi, lo]) is iterated element by element
            inner = s.iter.args[0] if isinstance(s.iter, ast.Call) and U(s.iter.func) == "enumerate" and len(s.iter.args) == 1 and not s.iter.keywords else s.iter
            lv = self.ev(p, inner) if isinstance(inner, (ast.Name, ast.List, ast.Tuple, ast.Attribute)) else []
            if len(lv) == 1 and isinstance(lv[0][1], Ctor) and lv[0][1].cls == "list" and len(lv[0][1].args) <= 24:
                paths = [lv[0][0]]
                for i_, x in enumerate(lv[0][1].args):
                    nxt = []
                    for q in paths:
                        if inner is not s.iter:
                            if isinstance(s.target, (ast.Tuple, ast.List)) and len(s.target.elts) == 2:
                                q.env[U(s.target.elts[0])] = Const(i_)
                                q.env[U(s.target.elts[1])] = x
                            else:
                                q.env[U(s.target)] = Ctor("list", [Const(i_), x], {})
                        else:
                            self.assign(q, s.target, x)
                        nxt += self.run_block([q], s.body)
                    paths = nxt
                return paths
        if isinstance(s, ast.For) and self.loop_summary:
            return self.summarise_loop(p, s)
        if isinstance(s, ast.For):
            q = p.copy()
            q.env[U(s.target)] = Opq(U(s.target))
            q.conds.append(("loop:%d" % s.lineno, True))
            after = self.run_block([q], s.body)
            z = p.copy()
            z.conds.append(("loop:%d" % s.lineno, False))
            return [z] + after
        if isinstance(s, ast.While):
            q = p.copy()
            q.conds.append(("loop:%d" % s.lineno, True))
            after = self.run_block([q], s.body)
            z = p.copy()
            z.conds.append(("loop:%d" % s.lineno, False))
            return [z] + after
        if isinstance(s, ast.Try):
            # body on the normal path; handlers are analysed as alternative continuations from the try entry
            outs = self.run_block([p.copy()], s.body)
            outs = self.run_block(outs, s.orelse) if s.orelse else outs
            for h in s.handlers:
                hp = p.copy()
                hp.conds.append(("except:%d" % h.lineno, True))
                outs += self.run_block([hp], h.body)
            if s.finalbody:
                outs = self.run_block(outs, s.finalbody)
            return outs
        if isinstance(s, ast.Expr) and isinstance(s.value, ast.Call) and U(s.value.func) == "setattr" and len(s.value.args) == 3 and not s.value.keywords:
            nv = self.ev(p, s.value.args[1])
            if len(nv) == 1 and isinstance(nv[0][1], Const) and isinstance(nv[0][1].v, str) and nv[0][1].v.isidentifier():
                tgt = ast.copy_location(ast.Attribute(value=s.value.args[0], attr=nv[0][1].v, ctx=ast.Store()), s)
                out = []
                for q, v in self.ev(nv[0][0], s.value.args[2]):
                    out += self.assign(q, tgt, v)
                return out
        if isinstance(s, ast.Expr):
            if "expr" in self.hooks:
                r = self.hooks["expr"](self, p, s)
                if r is not None:
                    return r
            return [p]
        return [p]

    def trip_count(self, p, it):
        """(lo, hi) bounds of the number of iterations; hi None = unbounded"""
        if isinstance(it, ast.Call) and U(it.func) == "range" and it.args and not it.keywords:
            vals = []
            for a in it.args:
                v = self.ev(p, a)
                if len(v) != 1 or not (isinstance(v[0][1], Const) and isinstance(v[0][1].v, int)):
                    if len(it.args) == 1:
                        return ("sym", U(a)), ("sym", U(a))
                    return 0, None
                vals.append(v[0][1].v)
            if len(vals) == 1:
                n = max(vals[0], 0)
            elif len(vals) == 2:
                n = max(vals[1] - vals[0], 0)
            else:
                return 0, None
            return n, n
        lo, hi = 0, None
        n = it
        while True:
            if isinstance(n, ast.Call) and isinstance(n.func, ast.Attribute) and n.func.attr in ("upper", "lower", "strip") and not n.args:
                if n.func.attr == "strip":
                    lo = 0
                n = n.func.value
            elif isinstance(n, ast.Call) and isinstance(n.func, ast.Attribute) and n.func.attr in ("ljust", "rjust", "center") and n.args:
                k = self.ev(p, n.args[0])
                inner_lo, inner_hi = self._strlen(p, n.func.value)
                if len(k) == 1 and isinstance(k[0][1], Const) and isinstance(k[0][1].v, int):
                    kk = k[0][1].v
                    return max(inner_lo, kk), (None if inner_hi is None else max(inner_hi, kk))
                return lo, hi
            elif isinstance(n, ast.Subscript) and isinstance(n.slice, ast.Slice) and n.slice.lower is None and n.slice.step is None and n.slice.upper is not None:
                k = self.ev(p, n.slice.upper)
                if len(k) == 1 and isinstance(k[0][1], Const) and isinstance(k[0][1].v, int) and k[0][1].v >= 0:
                    kk = k[0][1].v
                    ilo, ihi = self.trip_count(p, n.value)
                    if isinstance(ilo, tuple):
                        return 0, kk
                    return min(ilo, kk), kk if ihi is None else min(ihi, kk)
                return 0, None
            else:
                return lo, hi

    def _strlen(self, p, n):
        r = self.trip_count(p, n)
        if isinstance(r[0], tuple):
            return 0, None
        return r

    def summarise_loop(self, p, s):
        lo, hi = self.trip_count(p, s.iter)
        q = p.copy()
        tv = U(s.target)
        q.env[tv] = Opq("@iter:" + tv)
        q.env["$stores"] = ()
        outs = self.run_block([q], s.body)
        results = []
        seen = set()
        for o in outs:
            new = p.copy()
            deltas = {}
            for var, after in o.env.items():
                if var.startswith("$") or var == tv:
                    continue
                before = p.env.get(var)
                if before is None:
                    new.env[var] = Opq("%s@loop%d" % (var, s.lineno))
                    continue
                if repr(before) == repr(after):
                    continue
                lb, la = self.aslin(before), self.aslin(after)
                if lb is not None and la is not None:
                    terms = dict(la.terms)
                    for k, v in lb.terms.items():
                        terms[k] = terms.get(k, 0) - v
                    d = Lin(terms, la.c - lb.c)
                    if not d.terms:
                        deltas[var] = d.c
                        if lo == hi and isinstance(lo, int):
                            nv = Lin(dict(lb.terms), lb.c + lo * d.c)
                        elif isinstance(lo, tuple):
                            t2 = dict(lb.terms)
                            t2[lo[1]] = t2.get(lo[1], 0) + d.c
                            nv = Lin(t2, lb.c)
                        else:
                            t2 = dict(lb.terms)
                            t2["N@loop%d" % s.lineno] = d.c
                            nv = Lin(t2, lb.c)
                        new.env[var] = nv if nv.terms else Const(nv.c)
                        continue
                new.env[var] = Opq("%s@loop%d" % (var, s.lineno))
            body_stores = tuple(o.env.get("$stores", ()))
            if body_stores:
                new.env["$stores"] = tuple(p.env.get("$stores", ())) + (("loop", lo, hi, body_stores, deltas, s),)
            k = (repr(sorted((a, repr(b)) for a, b in new.env.items() if not a.startswith("$"))), repr(body_stores))
            if k in seen:
                continue
            seen.add(k)
            results.append(new)
        return results or [p]

    def run(self):
        p = Path()
        seed = getattr(self, "_seed", None)
        if seed is not None:
            p.conds = list(seed.conds)
            p.unk = list(seed.unk)
            p.trace = list(seed.trace)
            p.ver = dict(seed.ver)
        p.env.update(self.init_env)
        body = self.fn.body
        rest = self.run_block([p], body)
        for q in rest:
            self.results.append(Outcome("fall", q, Const(None), self.fn))
        if self.strict_unknown and getattr(self, "_depth", 0) == 0:
            bad = next((o for o in self.results if o.path.unk), None)
            if bad is not None:
                raise PathCap("a condition could not be evaluated and is not a free input: `%s`" % strip_ver(bad.path.unk[0])[:80])
        return self.results
