"""Independent transcription of the MC6809 programming model (Motorola MC6809 datasheet / programming manual):
opcode map generated from its column structure, operand byte counts, indexed post-byte table, PSH/PUL bit
assignment, TFR/EXG register codes.  Nothing here is derived from the repository under analysis."""


def opcode_map():
    t = {}  # mnemonic -> {mode: (opcode, total_size)}

    def add(m, mode, op, sz):
        t.setdefault(m, {})[mode] = (op, sz)

    # inherent, page 1
    for m, op in dict(NOP=0x12, SYNC=0x13, DAA=0x19, SEX=0x1D, RTS=0x39, ABX=0x3A, RTI=0x3B, MUL=0x3D, SWI=0x3F).items():
        add(m, 'inh', op, 1)
    add('SWI2', 'inh', 0x103F, 2)
    add('SWI3', 'inh', 0x113F, 2)
    # read-modify-write family: low nibble fixed; A=0x4x B=0x5x (inh), dir=0x0x, ind=0x6x, ext=0x7x
    rmw = dict(NEG=0x0, COM=0x3, LSR=0x4, ROR=0x6, ASR=0x7, ASL=0x8, LSL=0x8, ROL=0x9, DEC=0xA, INC=0xC, TST=0xD, CLR=0xF)
    for m, lo in rmw.items():
        add(m + 'A', 'inh', 0x40 | lo, 1)
        add(m + 'B', 'inh', 0x50 | lo, 1)
        add(m, 'dir', 0x00 | lo, 2)
        add(m, 'ind', 0x60 | lo, 2)
        add(m, 'ext', 0x70 | lo, 3)
    add('JMP', 'dir', 0x0E, 2)
    add('JMP', 'ind', 0x6E, 2)
    add('JMP', 'ext', 0x7E, 3)
    # 8-bit accumulator/memory family: A: 0x80 imm,0x90 dir,0xA0 ind,0xB0 ext ; B: 0xC0..0xF0
    acc = dict(SUB=0x0, CMP=0x1, SBC=0x2, AND=0x4, BIT=0x5, LD=0x6, ST=0x7, EOR=0x8, ADC=0x9, OR=0xA, ADD=0xB)
    for m, lo in acc.items():
        for reg, base in (('A', 0x80), ('B', 0xC0)):
            if m != 'ST':
                add(m + reg, 'imm', base | lo, 2)
            add(m + reg, 'dir', base + 0x10 | lo, 2)
            add(m + reg, 'ind', base + 0x20 | lo, 2)
            add(m + reg, 'ext', base + 0x30 | lo, 3)

    # 16-bit family
    def w16(m, immop, store=False, prefix=0):
        p = prefix << 8
        pl = 1 if prefix else 0
        if not store:
            add(m, 'imm', p | immop, 3 + pl)
        add(m, 'dir', p | (immop + 0x10), 2 + pl)
        add(m, 'ind', p | (immop + 0x20), 2 + pl)
        add(m, 'ext', p | (immop + 0x30), 3 + pl)

    w16('SUBD', 0x83)
    w16('CMPX', 0x8C)
    w16('LDX', 0x8E)
    w16('STX', 0x8F, store=True)
    w16('ADDD', 0xC3)
    w16('LDD', 0xCC)
    w16('STD', 0xCD, store=True)
    w16('LDU', 0xCE)
    w16('STU', 0xCF, store=True)
    w16('CMPD', 0x83, prefix=0x10)
    w16('CMPY', 0x8C, prefix=0x10)
    w16('LDY', 0x8E, prefix=0x10)
    w16('STY', 0x8F, store=True, prefix=0x10)
    w16('LDS', 0xCE, prefix=0x10)
    w16('STS', 0xCF, store=True, prefix=0x10)
    w16('CMPU', 0x83, prefix=0x11)
    w16('CMPS', 0x8C, prefix=0x11)
    add('JSR', 'dir', 0x9D, 2)
    add('JSR', 'ind', 0xAD, 2)
    add('JSR', 'ext', 0xBD, 3)
    for m, op in dict(LEAX=0x30, LEAY=0x31, LEAS=0x32, LEAU=0x33).items():
        add(m, 'ind', op, 2)
    for m, op in dict(ORCC=0x1A, ANDCC=0x1C, CWAI=0x3C, EXG=0x1E, TFR=0x1F, PSHS=0x34, PULS=0x35, PSHU=0x36, PULU=0x37).items():
        add(m, 'imm', op, 2)
    br = dict(BRA=0x20, BRN=0x21, BHI=0x22, BLS=0x23, BCC=0x24, BHS=0x24, BCS=0x25, BLO=0x25, BNE=0x26, BEQ=0x27,
              BVC=0x28, BVS=0x29, BPL=0x2A, BMI=0x2B, BGE=0x2C, BLT=0x2D, BGT=0x2E, BLE=0x2F)
    for m, op in br.items():
        add(m, 'rel', op, 2)
        if m == 'BRA':
            add('LBRA', 'rel', 0x16, 3)
        else:
            add('L' + m, 'rel', 0x1000 | op, 4)
    add('BSR', 'rel', 0x8D, 2)
    add('LBSR', 'rel', 0x17, 3)
    return t


MODES = ('inh', 'imm', 'dir', 'ind', 'ext', 'rel')

# instructions whose immediate operand is 16 bits wide
IMM16 = {'SUBD', 'CMPX', 'LDX', 'ADDD', 'LDD', 'LDU', 'CMPD', 'CMPY', 'LDY', 'LDS', 'CMPU', 'CMPS'}
LEA = {'LEAX', 'LEAY', 'LEAS', 'LEAU'}
SPECIAL = {'EXG', 'TFR', 'PSHS', 'PSHU', 'PULS', 'PULU'}


def short_branches():
    return {m for m, d in opcode_map().items() if 'rel' in d and d['rel'][1] == 2}


def long_branches():
    return {m for m, d in opcode_map().items() if 'rel' in d and d['rel'][1] > 2}


def oplen(op):
    return 1 if op < 0x100 else 2


def operand_bytes(mnemonic, mode):
    """bytes following the opcode (for ind: the post-byte only)"""
    if mode == 'inh':
        return 0
    if mode == 'imm':
        return 2 if mnemonic in IMM16 else 1
    if mode == 'dir':
        return 1
    if mode == 'ext':
        return 2
    if mode == 'ind':
        return 1
    if mode == 'rel':
        return 1 if mnemonic in short_branches() else 2
    raise KeyError(mode)


# ---- indexed addressing post-byte -------------------------------------------------------------
INDEX_REG_BITS = {'X': 0x00, 'Y': 0x20, 'U': 0x40, 'S': 0x60}

# form -> (post-byte without register field, extra bytes, indirect allowed)
INDEXED_FORMS = {
    ',R':    (0x84, 0, True),
    ',R+':   (0x80, 0, False),
    ',R++':  (0x81, 0, True),
    ',-R':   (0x82, 0, False),
    ',--R':  (0x83, 0, True),
    'B,R':   (0x85, 0, True),
    'A,R':   (0x86, 0, True),
    'D,R':   (0x8B, 0, True),
    'n5,R':  (None, 0, False),     # 0RRnnnnn, two's complement 5-bit
    'n8,R':  (0x88, 1, True),
    'n16,R': (0x89, 2, True),
    'n8,PCR':  (0x8C, 1, True),
    'n16,PCR': (0x8D, 2, True),
    '[n]':   (0x9F, 2, True),      # extended indirect (only indirect)
}
INDIRECT_BIT = 0x10

# ---- PSH/PUL --------------------------------------------------------------------------------
PSHPUL_BITS = {'CC': 0x01, 'A': 0x02, 'B': 0x04, 'D': 0x06, 'DP': 0x08, 'X': 0x10, 'Y': 0x20, 'PC': 0x80}
PSHPUL_OTHER_STACK_BIT = 0x40   # U for PSHS/PULS, S for PSHU/PULU

# ---- TFR/EXG --------------------------------------------------------------------------------
TFR_CODES = {'D': 0x0, 'X': 0x1, 'Y': 0x2, 'U': 0x3, 'S': 0x4, 'PC': 0x5, 'A': 0x8, 'B': 0x9, 'CC': 0xA, 'DP': 0xB}
TFR_16 = {'D', 'X', 'Y', 'U', 'S', 'PC'}


def tfr_legal_postbytes():
    out = set()
    for a, ca in TFR_CODES.items():
        for b, cb in TFR_CODES.items():
            if (a in TFR_16) == (b in TFR_16):
                out.add((ca << 4) | cb)
    return out
