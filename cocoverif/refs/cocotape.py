"""CoCo cassette format (Color BASIC unravelled / tape format documentation), transcribed independently."""
SYNC = (0x55, 0x3C)
BLOCK_NAMEFILE = 0x00
BLOCK_DATA = 0x01
BLOCK_EOF = 0xFF
TRAILER = 0x55
LEADER_BYTE = 0x55
NAMEFILE_LEN = 15
# name-file payload: (field, width)
NAMEFILE_FIELDS = [("name", 8), ("file_type", 1), ("data_type", 1), ("gap_flag", 1), ("load", 2), ("exec", 2)]
MAX_DATA = 255
