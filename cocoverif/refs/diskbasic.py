"""Disk BASIC (RS-DOS) geometry, transcribed independently of the repository."""
TRACKS = 35
SECTORS_PER_TRACK = 18
BYTES_PER_SECTOR = 256
TRACK_LEN = SECTORS_PER_TRACK * BYTES_PER_SECTOR          # 4608
IMAGE_SIZE = TRACKS * TRACK_LEN                           # 161280
GRANULE_SECTORS = 9
GRANULE_LEN = GRANULE_SECTORS * BYTES_PER_SECTOR          # 2304
GRANULES = (TRACKS - 1) * 2                               # 68
DIR_TRACK = 17
FAT_OFFSET = DIR_TRACK * TRACK_LEN + 1 * BYTES_PER_SECTOR   # sector 2
DIR_OFFSET = DIR_TRACK * TRACK_LEN + 2 * BYTES_PER_SECTOR   # sector 3
DIR_ENTRIES = 72
DIR_ENTRY_LEN = 32
# directory entry: (field, width)
DIR_FIELDS = [("name", 8), ("ext", 3), ("type", 1), ("ascii", 1), ("first_granule", 1), ("last_sector_bytes", 2), ("reserved", 16)]
FAT_FREE = 0xFF
FAT_LAST_BASE = 0xC0
FAT_LAST_MASK = 0xC0
FAT_SECTOR_MASK = 0x1F      # low bits of a last-granule entry hold the sector count (1..9)
FIRST_GRANULE_AFTER_DIR = 34    # granules >= 34 lie after the directory track


def granule_offset(g):
    return g * GRANULE_LEN + (TRACK_LEN if g >= FIRST_GRANULE_AFTER_DIR else 0)
