"""AST-level inlining of small helpers, so that a check extracted into a helper method (or a pass split out of a long
function) is analysed exactly like the unsplit code.  Calls are inlined when they stand alone as a statement
(`self.h(a)`), are assigned (`x = self.h(a)`), returned (`return self.h(a)`) or accumulated (`x += self.h(a)`), the callee is
a method of the same class family or a module-level function of the repository, is not recursive, and - for the value
forms - every return of the callee is in tail position."""
import ast
import copy

from .model import U, body_without_doc

MAX_STMTS = 60


def _callee(repo, fn, call):
    f = call.func
    if isinstance(f, ast.Attribute) and isinstance(f.value, ast.Name) and f.value.id in ("self", "cls") and fn.cls is not None:
        m = repo.lookup(fn.cls, f.attr)
        if m is None:
            for cn in repo.subclasses(fn.cls.name, strict=True):
                m = repo.classes[cn].methods.get(f.attr)
                if m:
                    break
        return m, True
    if isinstance(f, ast.Attribute) and isinstance(f.value, ast.Name) and f.value.id in repo.classes:
        m = repo.lookup(repo.classes[f.value.id], f.attr)
        if m is not None and (m.is_static or m.is_classmethod):
            return m, True
        return None, False
    if isinstance(f, ast.Name):
        g = fn.module.funcs.get(f.id)
        if g is not None:
            return g, False
        for mod, name, asname in fn.module.imports:
            if (asname or name) == f.id and name:
                rel = mod.replace(".", "/") + ".py"
                if rel in repo.modules and name in repo.modules[rel].funcs:
                    return repo.modules[rel].funcs[name], False
    return None, False


def _tail_returns_only(stmts):
    """every Return is the last statement of its block chain (so `return e` can become `target = e`)"""
    for i, st in enumerate(stmts):
        last = i == len(stmts) - 1
        if isinstance(st, ast.Return):
            if not last:
                return False
        elif isinstance(st, ast.If):
            has_ret = any(isinstance(x, ast.Return) for x in ast.walk(st))
            if has_ret and not last:
                # returns inside a non-final if: only allowed when the if body ends in return/raise and has no else (guard clause)
                if st.orelse or not isinstance(st.body[-1], (ast.Return, ast.Raise)) or not _tail_returns_only(st.body):
                    return False
            elif has_ret and not (_tail_returns_only(st.body) and _tail_returns_only(st.orelse)):
                return False
        elif isinstance(st, (ast.For, ast.While, ast.Try, ast.With)):
            if any(isinstance(x, ast.Return) for x in ast.walk(st)):
                return False
    return True


class _Subst(ast.NodeTransformer):
    def __init__(self, mapping, rename):
        self.mapping = mapping
        self.rename = rename

    def visit_Name(self, n):
        if n.id in self.mapping and isinstance(n.ctx, ast.Load):
            return copy.deepcopy(self.mapping[n.id])
        if n.id in self.rename:
            return ast.copy_location(ast.Name(id=self.rename[n.id], ctx=n.ctx), n)
        return n


def _rewrite_returns(stmts, make):
    """replace `return e` by make(e); guard clauses `if c: return e` followed by more code become if/else"""
    out = []
    for i, st in enumerate(stmts):
        if isinstance(st, ast.Return):
            out += make(st.value)
            return out
        if isinstance(st, ast.If):
            has_ret = any(isinstance(x, ast.Return) for x in ast.walk(st))
            if has_ret and i < len(stmts) - 1 and not st.orelse and isinstance(st.body[-1], ast.Return):
                new = ast.If(test=st.test, body=_rewrite_returns(st.body, make) or [ast.Pass()], orelse=_rewrite_returns(stmts[i + 1:], make))
                out.append(ast.copy_location(new, st))
                return out
            if has_ret:
                new = ast.If(test=st.test, body=_rewrite_returns(st.body, make) or [ast.Pass()], orelse=_rewrite_returns(st.orelse, make))
                out.append(ast.copy_location(new, st))
                continue
        out.append(st)
    return out


def flatten(repo, fn, depth=2, only=None, exprs=False):
    """copy of fn.node with eligible helper calls inlined (see module docstring); exprs=True also reads one-expression helpers (`return <expr>`) in place
    where they are called inside a larger expression (an index, an operand of a comparison)"""
    counter = [0]

    def expand_body(body, owner, d, stack):
        out = []
        for st in body:
            out += expand_stmt(st, owner, d, stack)
        return out

    def try_inline(call, owner, d, stack, form, target=None, op=None, st=None):
        if d <= 0 or not isinstance(call, ast.Call) or call.keywords and any(k.arg is None for k in call.keywords):
            return None
        callee, bound = _callee(repo, owner, call)
        if callee is None or callee.q in stack or (only is not None and callee.name not in only):
            return None
        cbody = body_without_doc(callee.node)
        if sum(1 for _ in ast.walk(callee.node) if isinstance(_, ast.stmt)) > MAX_STMTS:
            return None
        if any(isinstance(x, (ast.Yield, ast.YieldFrom, ast.Lambda)) for x in ast.walk(callee.node)):
            return None
        if callee.node.args.vararg is not None or callee.node.args.kwarg is not None or callee.node.args.kwonlyargs:
            return None         # *args / **kwargs / keyword-only parameters are not substituted: such a helper is left as a call
        params = [a.arg for a in callee.node.args.args]
        cls_subst = None
        if params and params[0] in ("self", "cls") and bound:
            if params[0] == "cls" and any(isinstance(x, ast.Name) and x.id == "cls" for x in ast.walk(callee.node)):
                # a class method that uses `cls`: inlined only when the class is named at the call site (Class.method(...)); `cls` then stands for that class
                recv = call.func.value if isinstance(call.func, ast.Attribute) else None
                if isinstance(recv, ast.Name) and recv.id in repo.classes:
                    cls_subst = recv.id
                elif not (isinstance(recv, ast.Name) and recv.id == "cls" and owner.is_classmethod):
                    return None
            params = params[1:]
        defaults = callee.node.args.defaults
        dmap = dict(zip(params[len(params) - len(defaults):], defaults)) if defaults else {}
        mapping = {}
        for pname, a in zip(params, call.args):
            mapping[pname] = a
        for k in call.keywords:
            if k.arg in params:
                mapping[k.arg] = k.value
        for pname in params:
            if pname not in mapping:
                if pname in dmap:
                    mapping[pname] = dmap[pname]
                else:
                    return None
        # parameters that the callee rebinds cannot be substituted by expressions
        stores = {x.id for x in ast.walk(callee.node) if isinstance(x, ast.Name) and isinstance(x.ctx, ast.Store)}
        counter[0] += 1
        tag = "__%s%d" % (callee.name, counter[0])
        rename = {}
        pre = []
        for pname in list(mapping):
            if pname in stores or not isinstance(mapping[pname], (ast.Name, ast.Constant, ast.Attribute)):
                rename[pname] = pname + tag
                pre.append(ast.Assign(targets=[ast.Name(id=pname + tag, ctx=ast.Store())], value=copy.deepcopy(mapping[pname]), lineno=call.lineno))
                del mapping[pname]
        for x in stores:
            if x not in rename and x not in params:
                rename[x] = x + tag
        if form != "expr" and not _tail_returns_only(cbody):
            return None
        if form == "expr" and any(isinstance(x, ast.Return) and x.value is not None for x in ast.walk(callee.node)) and not _tail_returns_only(cbody):
            return None
        if cls_subst is not None:
            mapping = dict(mapping)
            mapping["cls"] = ast.Name(id=cls_subst, ctx=ast.Load())
        body = [_Subst(mapping, rename).visit(copy.deepcopy(b)) for b in cbody]

        def make(e):
            if form == "expr" or e is None and form == "expr":
                return [ast.Expr(value=e)] if e is not None and not isinstance(e, (ast.Name, ast.Constant, ast.Attribute)) else []
            e = e if e is not None else ast.Constant(value=None)
            if form == "assign":
                return [ast.Assign(targets=[copy.deepcopy(target)], value=e, lineno=call.lineno)]
            if form == "aug":
                return [ast.AugAssign(target=copy.deepcopy(target), op=op, value=e, lineno=call.lineno)]
            if form == "return":
                return [ast.Return(value=e, lineno=call.lineno)]
            return []
        body = _rewrite_returns(body, make)
        body = pre + body
        for b in body:
            for x in ast.walk(b):
                if not hasattr(x, "lineno"):
                    x.lineno = call.lineno
                    x.col_offset = 0
        ast.fix_missing_locations(ast.Module(body=body, type_ignores=[]))
        return expand_body(body, callee if callee.cls is not None or True else owner, d - 1, stack | {callee.q})

    def expr_helper(call, owner, d, stack):
        """`self.h(a)` / `Class.h(a)` / `h(a)` standing inside a larger expression, where h is `return <expression>` and nothing else: the expression, with the
        arguments in place of the parameters; None when the call is anything else"""
        if d <= 0 or any(k.arg is None for k in call.keywords) or any(isinstance(a, ast.Starred) for a in call.args):
            return None
        callee, bound = _callee(repo, owner, call)
        if callee is None or callee.q in stack or (only is not None and callee.name not in only):
            return None
        cbody = body_without_doc(callee.node)
        if len(cbody) != 1 or not isinstance(cbody[0], ast.Return) or cbody[0].value is None:
            return None
        a_ = callee.node.args
        if a_.vararg is not None or a_.kwarg is not None or a_.kwonlyargs or getattr(callee, "is_property", False):
            return None
        expr = cbody[0].value
        if any(isinstance(x, (ast.Yield, ast.YieldFrom, ast.Lambda, ast.NamedExpr, ast.ListComp, ast.SetComp, ast.DictComp, ast.GeneratorExp, ast.Await)) for x in ast.walk(expr)):
            return None
        params = [x.arg for x in a_.args]
        if params and params[0] in ("self", "cls") and bound:
            if params[0] == "cls" and any(isinstance(x, ast.Name) and x.id == "cls" for x in ast.walk(expr)):
                return None
            recv = call.func.value if isinstance(call.func, ast.Attribute) else None
            if params[0] == "self" and not (isinstance(recv, ast.Name) and recv.id == "self"):
                return None
            params = params[1:]
        defaults = a_.defaults
        dmap = dict(zip(params[len(params) - len(defaults):], defaults)) if defaults else {}
        mapping = dict(zip(params, call.args))
        if len(call.args) > len(params):
            return None
        for k in call.keywords:
            if k.arg not in params or k.arg in mapping:
                return None
            mapping[k.arg] = k.value
        for pname in params:
            if pname not in mapping:
                if pname not in dmap:
                    return None
                mapping[pname] = dmap[pname]
        uses = {}
        for x in ast.walk(expr):
            if isinstance(x, ast.Name) and x.id in mapping:
                uses[x.id] = uses.get(x.id, 0) + 1
        for pname, arg in mapping.items():
            simple = isinstance(arg, (ast.Name, ast.Constant)) or (isinstance(arg, ast.Attribute) and isinstance(arg.value, ast.Name))
            if not simple and (uses.get(pname, 0) != 1 or any(isinstance(y, ast.Call) for y in ast.walk(arg))):
                return None        # an argument that is computed is put in place only when it is read exactly once and calls nothing
        new = _Subst(mapping, {}).visit(copy.deepcopy(expr))
        return inline_in_expr(new, callee, d - 1, stack | {callee.q})

    def inline_in_expr(e, owner, d, stack):
        class T(ast.NodeTransformer):
            def visit_Call(self, n):
                self.generic_visit(n)
                r = expr_helper(n, owner, d, stack)
                return ast.copy_location(r, n) if r is not None else n

            def visit_Lambda(self, n):
                return n
        return T().visit(e)

    def inline_exprs(st, owner, d, stack):
        """a copy of the statement with expression helpers read in place, in its own expressions (not in nested blocks)"""
        st = copy.copy(st)
        if isinstance(st, (ast.FunctionDef, ast.AsyncFunctionDef, ast.ClassDef)):
            return st
        for field, value in ast.iter_fields(st):
            if field in ("body", "orelse", "finalbody", "handlers", "cases"):
                continue
            if isinstance(value, ast.expr):
                setattr(st, field, inline_in_expr(copy.deepcopy(value), owner, d, stack))
            elif isinstance(value, list) and value and isinstance(value[0], ast.expr):
                setattr(st, field, [inline_in_expr(copy.deepcopy(v), owner, d, stack) for v in value])
            elif isinstance(value, list) and value and isinstance(value[0], ast.withitem):
                setattr(st, field, [ast.withitem(context_expr=inline_in_expr(copy.deepcopy(v.context_expr), owner, d, stack), optional_vars=v.optional_vars) for v in value])
        return st

    def expand_stmt(st, owner, d, stack):
        if isinstance(st, ast.Expr) and isinstance(st.value, ast.Call):
            r = try_inline(st.value, owner, d, stack, "expr")
            if r is not None:
                return r or [ast.copy_location(ast.Pass(), st)]
        if isinstance(st, ast.Assign) and len(st.targets) == 1 and isinstance(st.value, ast.Call) and isinstance(st.targets[0], (ast.Name, ast.Attribute)):
            r = try_inline(st.value, owner, d, stack, "assign", target=st.targets[0])
            if r is not None:
                return r
        if isinstance(st, ast.AugAssign) and isinstance(st.value, ast.Call):
            r = try_inline(st.value, owner, d, stack, "aug", target=st.target, op=st.op)
            if r is not None:
                return r
        if isinstance(st, ast.Return) and isinstance(st.value, ast.Call):
            r = try_inline(st.value, owner, d, stack, "return")
            if r is not None:
                return r
        st = inline_exprs(st, owner, d, stack) if exprs else copy.copy(st)
        for field in ("body", "orelse", "finalbody"):
            b = getattr(st, field, None)
            if isinstance(b, list) and b and isinstance(b[0], ast.stmt):
                setattr(st, field, expand_body(b, owner, d, stack))
        if isinstance(st, ast.Try):
            st.handlers = [copy.copy(h) for h in st.handlers]
            for h in st.handlers:
                h.body = expand_body(h.body, owner, d, stack)
        return [st]

    node = copy.copy(fn.node)
    node.body = expand_body(list(fn.node.body), fn, depth, frozenset({fn.q}))
    ast.fix_missing_locations(node)
    return node
