"""Property -> rules.  Each property's check runs the listed rules; the texts go into the evidence."""
from .rules import tab, enc, cas, dsk, wid, rel, lay, det, vf, esc

RULESETS = {}
RULESETS.update(tab.RULES)
RULESETS.update(enc.RULES)
RULESETS.update(cas.RULES)
RULESETS.update(dsk.RULES)
RULESETS.update(wid.RULES)
RULESETS.update(rel.RULES)
RULESETS.update(lay.RULES)
RULESETS.update(det.RULES)
RULESETS.update(vf.RULES)
RULESETS.update(esc.RULES)

PROPS = {}


def prop(pid, rules, explanation, not_decided, assumptions=()):
    PROPS[pid] = {"rules": rules, "explanation": explanation, "not_decided": not_decided,
                  "assumptions": list(assumptions) + BASE_ASSUMPTIONS}


BASE_ASSUMPTIONS = [
    "CPython's ast (and re._parser) parse the sources as the interpreter would run them",
    "Python semantics of the modelled fragment: assignment, |= / +=, if/elif/else, conditional expressions, for over range/slices, return, raise, try/except",
    "the reference tables under cocoverif/refs (MC6809 datasheet, CoCo tape format, Disk BASIC geometry) are transcribed correctly",
]


ASM_ASSUME = ["operand strings reach the operand classes through Operand.create_from_str unchanged (the classification cascade itself is only checked structurally)"]

prop("C01", ["TAB-1", "TAB-3", "TAB-4", "ENC-1", "ENC-2", "ENC-5", "ENC-7", "WID-1", "WID-3", "WID-8", "WID-5", "LAY-5", "WID-9", "TXT-1~parse_line:operand-case"],
     "every cell and flag of INSTRUCTIONS equals the MC6809 datasheet map; each operand class reads its own table column and rejects instructions lacking the mode; "
     "on every return path of both indexed encoders the post-byte, the size increment and the width of the offset bytes equal the datasheet form that the path's "
     "conditions describe (register field, 5/8/16-bit two's complement offsets, accumulator offsets, auto inc/dec, PCR, [n], indirect bit); PSH/PUL masks and TFR/EXG "
     "post-bytes equal the datasheet for every register (pair) and illegal ones are rejected; literal radix, width predicates and two's-complement rendering have the reference bounds; "
     "bytes are emitted as opcode, post-byte, operand.",
     "that every grammar-valid operand string is classified into the right operand class, and value-level correctness for all 2^16 operand values beyond the width/sign facts.",
     ASM_ASSUME)
prop("C02", ["TAB-2", "TAB-1~flag:.*is_16_bit", "LAY-0", "LAY-1", "LAY-3", "LAY-5", "ENC-2", "ENC-3", "WID-1", "REL-3", "DIR-1~^(?!.*:elements$)", "EXP-1", "WID-9", "REL-5", "ENC-7~undefined-symbol", "INC-1~fresh-objects"],
     "table sizes equal opcode length plus operand bytes; per return path of every translate() the bytes emitted equal the size reported and max_size >= size; the passes of "
     "translate_statements run in the order expansion, collection, resolution, translation, sizing, addressing, fix-up, back-patch, each over all statements; the address pass is a single "
     "forward accumulation of code_pkg.size; every store into the symbol table is dominated by the redefinition check and undefined symbols raise; listing and image concatenate the same three fields.",
     "numeric equality of listing addresses and image offsets for concrete programs (it follows from the rules only where the width findings are repaired).", ASM_ASSUME)
prop("C03", ["REL-1", "REL-3", "REL-5", "ENC-1", "ENC-3", "TAB-1", "TAB-2", "LAY-1~translate_statements:(fix-up-index|sizing-index)", "ENC-2"],
     "affine identity: the value emitted for every branch arm equals A[target] - A[this+1] modulo the field width, with the summed slices non-degenerate on the arm's guard; short branches are "
     "rejected exactly outside -128..+127; PC-relative sizing: each arm sets (size increment, max_size, post-byte choice, width hint) consistently, 8-bit is chosen only under an upper estimate "
     "that sums max_size over a window covering the displacement including the instruction itself, thresholds 127/128; label+n operands take their index through the address-expression predicate "
     "at all three sites; the PCR offset is target - own address - own size rendered at the chosen width; label,PCR offers post-bytes 8C/8D (9C/9D).",
     "numeric correctness at every distance and for every combination of mutually dependent unsized statements (only margins and identities).", ASM_ASSUME)
prop("C04", ["EXP-1", "LAY-1", "LAY-3", "WID-3", "WID-6", "ENC-6", "ENC-7", "ESC-1", "REL-3", "REL-5", "WID-8", "DIR-4", "WID-1~fix_addresses"],
     "each operator arm of ExpressionValue.resolve applies its own operator to (left, right) in that order and both operands are looked up independently; symbol collection precedes resolution "
     "over all statements (definition order irrelevant); undefined symbols raise; width predicates and two's-complement modulus follow the field width; statement-level handlers turn arithmetic errors "
     "(division by zero, out-of-range results) into a TranslationError.",
     "the arithmetic value of an expression for concrete operands and reduction modulo 65536; the address-expression path (calculate_address_offset) carries recorded findings.", ASM_ASSUME)
prop("C05", ["DIR-1", "WID-3", "WID-8", "WID-1", "TAB-1", "TXT-1~^(?!parse_line:(label-spelling|operand-whole))", "ENC-7", "TXT-2", "WID-9", "LAY-1~Statement.set_address:emits", "LAY-5~get_binary_array:(evaluated|additional)"],
     "every pseudo row either has an emitting arm (FCB, FDB, FCC, RMB) with the directive's width/size facts (element widths 2/4 hex digits, single values hint 2/4 size 1/2, RMB n -> n zero bytes, "
     "self-sized lists and strings) or reaches the empty CodePackage; list separators; string delimiters must match; FCC's closing delimiter is the first occurrence after the opening one; "
     "two's-complement rendering at the directive's width.",
     "byte-for-byte content for arbitrary lists and strings; range rejection (recorded finding: renderings are not range-checked).", ASM_ASSUME)
prop("C06", ["CAS-1~:(name|name-source|name-filter|source|field\\d+\\(\\w+\\)|fields|data|continuation|length|pairing|address-bytes)$", "CAS-3", "CAS-4", "CAS-5", "CAS-6", "VF-8", "WID-10"],
     "the reader consumes exactly the frames the writer produces: header signature, each header field read at the offset the writer stores it and delivered to the matching CoCoFile field, "
     "name length, where block search resumes, data blocks stepped over by exactly 4 + len + 2 with payload copied from offset 4, EOF frame length; writers never modify the data they are given.",
     "equality of data for all contents and lengths; tolerance of arbitrary foreign tapes.")
prop("C07", ["DSK-1", "DSK-2", "DSK-3", "DSK-4", "DSK-5", "DSK-12", "DSK-13", "VF-8", "CAS-3", "DET-2~^(?!Program\\.|Statement\\.|assembler:)", "DSK-8", "DSK-7~(granule_in_use|first-free)", "DSK-6~GRANULE_FILL_ORDER", "VF-6~list_files:size-gate"],
     "geometry constants and the granule->offset map for all 68 granules; directory entry layout of writer and reader against the Disk BASIC layout with bounded field writes; preamble/postamble "
     "read/write siblings agree on flags, offsets and lengths and on which file kind gets which; FAT links, terminator C0+sectors, reader masks; stream length computed identically by the three "
     "length functions (with and without trailer), sector and granule counts consistent for every length.",
     "equality of contents for all lengths, arbitrary foreign images; granule-bounded placement of the trailer (recorded finding DSK-5 is not re-derived statically).")
prop("C08", ["DSK-1", "DSK-2~^(?!list_files)", "DSK-4~^(?!calculate_file_length|read_data|list_files)", "DSK-5", "DSK-6", "DSK-7", "DSK-12", "DSK-13", "DSK-8~^(?!add_file:allocation:(fit|refusal))", "DSK-3~^(?!list_files:table-lookup)", "VF-1~:errors$", "DET-2~^(?!Program\\.|Statement\\.|assembler:)"],
     "image size and track-17 offsets; FAT encoding written and read (links, last-granule marker with 1-9 sectors, free marker FF only); blanking confined to FAT bytes 68-255; allocation only "
     "from granules whose FAT byte is FF, marked before the next search; fill order a permutation of 0..67; implied length (sectors, last-sector bytes) equals the stream length by construction.",
     "chain disjointness and length arithmetic for concrete file sequences.")
prop("C09", ["VF-1", "VF-4", "VF-6", "VF-8", "CAS-5", "DSK-5", "DSK-7", "DSK-6", "CAS-4", "CAS-3", "DET-2~^(?!Program\\.|Statement\\.|assembler:)", "DSK-12", "DSK-13", "VF-5", "DSK-8~^(?!add_file:allocation:)", "CLI-4~:(kind|open|save|end):", "VF-9", "DSK-4", "DSK-2~list_files:name-text", "DET-3~^VirtualFile", "DSK-3~list_files:table-lookup"],
     "append = list the existing image, append the new file at the end, rebuild the whole list in order into a fresh container; cassette writers only append to the buffer; disk allocation only takes "
     "free granules and free directory slots; a fresh DiskFile owns its own buffer (no shared class-level image); sniffing order disk, cassette, binary with matching kinds.",
     "the property over histories of interleaved add/save/re-open; kind recognition by content (recorded finding VF-6).")
prop("C10", ["VF-1~^save_virtual_file", "VF-2", "VF-3", "VF-4", "VF-6", "VF-8", "CLI-1", "CLI-3", "VF-5~^(?!add_coco_file)", "CLI-4~:(kind|open|save|end):", "CLI-5~:(kind|sequence|append):", "VF-9", "CAS-5~^read_(file|blocks)", "DSK-5~list_files:(scan|skips-unreadable)", "DSK-4~^read_data:"],
     "every path to a host write in save_virtual_file takes the false edge of `file_exists and not append_mode`, whose true edge only raises; the only host write is open(name, 'wb') in "
     "SourceFile.write_binary_contents, reached only through write_file from save_virtual_file and writing the whole buffer; file_exists is set exactly under os.path.exists; a kind mismatch raises; "
     "every CLI save site goes construct -> open -> add* -> save(append_mode=args.append) with the container kind of its switch; handlers report the error.",
     "nothing further of the control-flow part; content sniffing of arbitrary bytes is a recorded finding.")
prop("C11", ["CLI-1", "VF-1", "VF-3", "CAS-3", "CAS-1", "CAS-5", "DSK-2", "DSK-3", "DSK-5", "DSK-12", "DSK-13", "LAY-1", "DET-2~^(?!Program\\.|Statement\\.)", "WID-10", "VF-5", "DSK-8~^(?!add_file:allocation:)", "CLI-5", "VF-9", "DSK-1~seek_granule", "DSK-6~GRANULE_FILL_ORDER", "TAB-1~flag:.*(is_origin|is_name)$"],
     "the single CoCoFile built by assembler.main takes name = NAM or --name, load = exec = origin, data = get_binary_array() of the Program that was assembled, type 02, data type 00; each switch "
     "builds the container of its kind and adds that very object; cassette/disk blocks are dominated by the no-name guard; BinaryFile appends the data only; containers do not consume the data "
     "(the same object is written to several containers).",
     "that listing the produced image returns the program (C06/C07); END operand as entry address.")
prop("C12", ["WID-1", "WID-3", "WID-8", "WID-5", "WID-6", "LAY-5", "ENC-4", "ENC-5", "ENC-7", "TAB-1", "TAB-2", "TAB-3", "TAB-4", "REL-1", "WID-9", "EXP-2", "REL-3", "TXT-1~parse_line:operand-whole", "ENC-2"],
     "modes the instruction lacks are rejected by every operand class; table cells exist only where the CPU has the mode; register recognition: every return path of the indexed encoders is realised "
     "by a grammar-valid operand only (probe spellings outside the grammar must raise); PSH/PUL/TFR/EXG reject unknown, own-stack and mixed-size registers; parse-time numeric limits; the width of "
     "`additional` at every sink against the mode's width.",
     "acceptance/rejection of arbitrary operand strings beyond the probe set and the classification cascade.", ASM_ASSUME)
prop("C13", ["TERM-1", "ESC-1", "ESC-2", "CLI-1", "LAY-0", "TXT-2", "INC-1~(read-errors|codec|cycle|trail(?!-identity))", "EXP-1~SymbolValue.resolve", "WID-5"],
     "the sizing loop terminates because sizing fixes the size on every path; call cycles reachable from process are bounded (include trail checked, the others triaged); the explicit-raise escape "
     "fixpoint over the resolved call graph leaves only ParseError/TranslationError out of Program.process; every pass is wrapped by a handler that converts any exception into a diagnostic naming "
     "the statement; parse-phase first/last-character accesses are dominated by emptiness checks; the CLI handlers exit non-zero before any save.",
     "termination/robustness on all texts beyond these structural arguments (implicit exceptions inside the parse phase other than the indexed-access pattern).", ASM_ASSUME)
prop("C14", ["CAS-1~^(?!.*:(name-source|name-filter)$).*", "CAS-4", "CAS-3", "WID-10", "VF-9~write_binary_contents"],
     "on every path of every block writer: sync 55 3C, type 00/01/FF, length byte equal to the payload count and <= 255, payload fields in format order, checksum byte = (type + length + payload) mod 256 "
     "established by pairing every byte written with a checksum term, trailer 55; data payload byte i = data[i], continuation at the number of bytes written; file order leader, name-file, leader, "
     "data, EOF; only appends.",
     "nothing input-dependent: this property is decided completely under the stated assumptions.", ["data bytes are 0..255 and name characters are single-byte"])
prop("C15", ["DSK-6", "DSK-7", "DSK-12", "DSK-13", "DSK-4~^(?!read_data|list_files)", "VF-1", "DET-2~^(?!Program\\.|Statement\\.|assembler:)", "DET-3~^(?!assembler:)", "CLI-3", "VF-5", "DSK-8~(:allocation|:fat|:length|:directory|:data|:sequence|allocation-count|size-guard|length-kind|\\[empty)", "VF-2", "VF-4~open_virtual_file:kind-mismatch", "CLI-4~:(save|end):", "DSK-2~write_dir_entry:(nul|name-characters|position)"],
     "the fill order offers all 68 granules once; allocation only of free granules, exhaustion raises; directory scan covers at least 68 slots and a full directory raises; granule count = "
     "floor(stream/2304)+1 for every stream length; the image is rebuilt in memory before the host file is touched.",
     "exact granule counts for concrete sequences of additions.")
prop("C16", ["CLI-3", "VF-1", "VF-3", "VF-8", "DET-3~^(?!assembler:)", "CAS-3", "CAS-5", "DSK-2", "DSK-3", "DSK-12", "DSK-13", "DSK-4", "VF-5", "DSK-8", "CLI-4", "VF-9", "VF-6", "DSK-5", "VF-4~^get_coco_files", "CAS-1~(append_name:bytes:name|enum-conversion)", "WID-10"],
     "conversion loops add every listed file itself, in listing order, filtered only by --files, and save once; both sides of the --files comparison carry the same case normalisation; --to_bin "
     "refuses more than one file before any add/save; reader/writer layouts of both containers agree; stream-length arithmetic for all file kinds.",
     "equality of the converted file set for concrete images.")
prop("C17", ["DET-1", "DET-2", "DET-3", "DET-4", "DET-5", "DET-6"],
     "no function stores into module-level bindings or mutates module-/class-level mutable objects (directly, through an alias, or through an instance attribute bound to them without a copy); "
     "shared default objects are never mutated; the source-line list is only read; no iteration over sets, no hash/id/time/random/environment reads in the core; no memoisation. Each rule carries "
     "an embedded bad/good canary pair evaluated on every run.",
     "nothing further under the assumption of insertion-ordered dicts.", ["dict insertion order (Python >= 3.7)"])
prop("C18", ["TXT-1", "EXP-1", "LAY-1", "WID-3", "WID-8", "DIR-1~^(?!.*:elements$)", "REL-1", "REL-5", "ENC-7", "TXT-2", "LAY-3", "LAY-5~get_binary_array", "ENC-1~(pcr-test|register-source)"],
     "the mnemonic is upper-cased before lookup; the line pattern splits label/mnemonic/operands for any amount of white space; accumulator offsets are recognised by whole-string comparison "
     "(no substring tests on operand text); addresses are prefix-determined (single forward pass); one-byte width only for values <= 255.",
     "the metamorphic relations themselves (relocation, renaming, reformatting) for concrete programs.", ASM_ASSUME)
prop("C19", ["INC-1", "LAY-0", "LAY-1~translate_statements:(phases|order)$", "TERM-1~process_mnemonics", "TXT-1~parse_line:operand-whole", "ESC-2~^SourceFile"],
     "process_mnemonics iterates its input in order, keeps every ordinary statement, splices the recursive parse+expansion of the included file at the INCLUDE's position, opens the operand as "
     "written through the assembly reader, expansion precedes symbol collection; missing files and inclusion cycles raise a TranslationError.",
     "image equality with the spliced program for concrete programs.")


# clauses added with the rules that came after the first build (constructor / rendering folds, configuration evaluation of the glue code)
_MORE = {
    "C01": " The NumericValue constructor is folded for every literal kind x width hint x addressing prefix (value and sign, a prefix is never overridden by the spelling, "
           "a width the instruction asked for is kept, out-of-range literals and symbol-like words are rejected); hex/hex_len/high_byte/low_byte/get_negative are folded on boundary values; "
           "the prefix handling of Value.create_from_str is folded for < > # and no prefix; PSH/PUL lists with overlapping and repeated registers.",
    "C12": " The NumericValue constructor and its rendering methods are folded on their boundary cases (see C01); short-branch range (REL-1).",
    "C05": " Literal parsing and rendering folded (WID-8, WID-9); list elements are numeric literals, not unresolved symbols; the string attempt sees the operand before a prefix is stripped; "
           "every field of a line the pattern accepts is text.",
    "C04": " Out-of-range literals are rejected under every width hint and prefix (WID-8); a divisor is never patched to avoid division by zero.",
    "C18": " Symbol-like words are never read as numbers (WID-8); the fix-up pass hands each statement its own position (not a position looked up by value); the accumulator test of "
           "resolve_symbols does not consult the symbol table.",
    "C13": " Every field of a line accepted by the line pattern is text (no None reaching the operand constructors).",
    "C19": " The handler around the read catches OSError; the inclusion trail is a collection of names; read_assembly_contents reads the whole file.",
    "C07": " DiskFile.add_file evaluated for each file kind: header/trailer carry the file's length and addresses, granules found are recorded, directory entry, data and FAT are written "
           "from this file's values; the name/extension bytes come from the file's own fields.",
    "C08": " DiskFile.add_file evaluated for each file kind (DSK-8); the directory slot written is the one the free-slot search returned; a new image is 161280 bytes of FF; granules 0..67 "
           "are all accepted.",
    "C09": " save_virtual_file evaluated per container kind (fresh container, add_files(whole list), its buffer to the source file, write); add_coco_file records the file; open loads the "
           "stored files; file_util conversions evaluated per switch x --files x --append; the directory scan and the cassette listing visit every file; SourceFile host I/O.",
    "C10": " The save pipeline, both command-line front ends and SourceFile's host I/O are evaluated per configuration (VF-5, CLI-4, CLI-5, VF-9): opened unconditionally before adding, saved once "
           "with the --append flag; the kind-mismatch refusal is decided by its truth table over (requested kind, kind found).",
    "C11": " assembler.main evaluated for every output switch x NAM x --name x --append (CLI-5): the source named is read and assembled, the file carries name/origin/image/type, the container of "
           "the switch's kind is opened, given that file and saved; save pipeline (VF-5), host write (VF-9) and DiskFile.add_file (DSK-8) evaluated per kind.",
    "C14": " The bytes of the 16-bit header fields come from high_byte()/low_byte(), folded on boundary values (WID-9).",
    "C15": " DiskFile.add_file evaluated per file kind (DSK-8): allocation stops at exactly the number needed, the search covers the whole fill order; file_util saves once after all adds.",
    "C16": " file_util.main evaluated for every switch x --files selection x --append (CLI-4): exactly the selected files of the source listing, once each, in listing order; save pipeline, "
           "DiskFile.add_file and SourceFile host I/O evaluated per kind.",
}
for _pid, _t in _MORE.items():
    PROPS[_pid]["explanation"] += _t
