"""Property -> rules.  Each property's check runs the listed rules; the texts go into the evidence."""
from .rules import tab, enc, cas, dsk, wid, rel, lay, det, vf

RULESETS = {}
RULESETS.update(tab.RULES)
RULESETS.update(enc.RULES)
RULESETS.update(cas.RULES)
RULESETS.update(dsk.RULES)
RULESETS.update(wid.RULES)
RULESETS.update(rel.RULES)
RULESETS.update(lay.RULES)
RULESETS.update(det.RULES)
RULESETS.update(vf.RULES)

PROPS = {}


def prop(pid, rules, explanation, not_decided, assumptions=()):
    PROPS[pid] = {"rules": rules, "explanation": explanation, "not_decided": not_decided,
                  "assumptions": list(assumptions) + BASE_ASSUMPTIONS}


BASE_ASSUMPTIONS = [
    "CPython's ast (and re._parser) parse the sources as the interpreter would run them",
    "Python semantics of the modelled fragment: assignment, |= / +=, if/elif/else, conditional expressions, for over range/slices, return, raise, try/except",
    "the reference tables under cocoverif/refs (MC6809 datasheet, CoCo tape format, Disk BASIC geometry) are transcribed correctly",
]

prop("C01", ["TAB-1", "TAB-3", "TAB-4", "ENC-1", "ENC-2", "ENC-3", "ENC-4", "ENC-6"], "x", "y")
NOT_APPLICABLE = {}

prop("C14", ["CAS-1", "CAS-4"], "x", "y")
prop("C06", ["CAS-1", "CAS-5", "CAS-6", "CAS-3"], "x", "y")
prop("C07", ["DSK-1", "DSK-2", "DSK-3", "DSK-4", "DSK-12"], "x", "y")
prop("C08", ["DSK-1", "DSK-2", "DSK-4", "DSK-6", "DSK-7", "DSK-12"], "x", "y")
prop("C15", ["DSK-6", "DSK-7", "DSK-12"], "x", "y")
prop("C12", ["WID-1", "WID-3", "WID-5", "LAY-5", "ENC-4", "TAB-3"], "x", "y")
prop("C03", ["REL-1", "REL-3", "REL-5"], "x", "y")
prop("C02", ["TAB-2", "LAY-1", "LAY-3", "LAY-5", "ENC-2", "ENC-3"], "x", "y")
prop("C04", ["EXP-1", "LAY-1"], "x", "y")
prop("C05", ["DIR-1"], "x", "y")
prop("C19", ["INC-1"], "x", "y")
prop("C18", ["TXT-1"], "x", "y")
prop("C17", ["DET-1", "DET-2", "DET-3", "DET-4", "DET-5", "DET-6"], "x", "y")
prop("C10", ["VF-1", "VF-2", "VF-3", "VF-4"], "x", "y")
prop("C11", ["CLI-1", "VF-1", "VF-3", "CAS-3"], "x", "y")
prop("C16", ["CLI-3", "VF-1", "CAS-3", "CAS-5", "DSK-2"], "x", "y")
prop("C09", ["VF-1", "VF-4", "DSK-7", "CAS-4", "DET-2"], "x", "y")
