"""Shared analysis context: parsed repository, folded constants, instruction table, caches."""
import ast

from .model import Repo, AnalysisError, U
from .consteval import module_env, fold, NotConst, Struct

MODES = ("inh", "imm", "dir", "ind", "ext", "rel")
FLAGS = ("is_pseudo", "is_pseudo_define", "is_string_define", "is_special", "is_include", "is_short_branch",
         "is_long_branch", "is_origin", "is_name", "is_16_bit", "is_lea", "is_multi_byte", "is_multi_word")

OPERAND_CLASS_MODE = {
    "InherentOperand": "inh", "ImmediateOperand": "imm", "DirectOperand": "dir", "ExtendedOperand": "ext",
    "ExtendedIndexedOperand": "ind", "IndexedOperand": "ind", "RelativeOperand": "rel", "SpecialOperand": "imm",
}


class Row:
    def __init__(self, mnemonic, modes, flags, node, index):
        self.mnemonic = mnemonic
        self.modes = modes      # mode -> (opcode or None, size)
        self.flags = flags
        self.node = node
        self.index = index


class Ctx:
    def __init__(self, root=None, tier="quick"):
        self.repo = Repo(root)
        self.tier = tier
        self.env = module_env(self.repo)
        self.cache = {}
        self.stats = {"files": len(self.repo.modules),
                      "functions": sum(1 for _ in self.repo.all_funcs()),
                      "classes": len(self.repo.classes)}

    def memo(self, key, fn):
        if key not in self.cache:
            self.cache[key] = fn()
        return self.cache[key]

    def self_env(self, clsname):
        """class-level constants as a method of `clsname` sees them: self.NAME / cls.NAME / Class.NAME, nearest definition first"""
        def build():
            out = {}
            for cn in self.repo.ancestors(clsname):
                c = self.repo.classes.get(cn)
                if c is None:
                    continue
                for name in c.assigns:
                    k = "%s.%s" % (cn, name)
                    if k in self.env:
                        for pre in ("self", "cls", clsname):
                            out.setdefault("%s.%s" % (pre, name), self.env[k])
            return out
        return self.memo(("self_env", clsname), build)

    # ---- instruction table -----------------------------------------------------------------
    def instruction_module(self):
        for m in self.repo.modules.values():
            if "INSTRUCTIONS" in m.assigns:
                return m
        raise AnalysisError("anchor INSTRUCTIONS table not found")

    def _defaults(self, clsname):
        c = self.repo.cls(clsname)
        d = {}
        for k, v in c.assigns.items():
            try:
                d[k] = fold(v, self.env, ctors=("Mode", "Instruction"))
            except NotConst:
                d[k] = None
        return d

    def instructions(self):
        def build():
            m = self.instruction_module()
            node = m.assigns["INSTRUCTIONS"]
            if not isinstance(node, ast.List):
                raise AnalysisError("INSTRUCTIONS is not a list literal")
            mode_def = self._defaults("Mode")
            ins_def = self._defaults("Instruction")
            mode_fields = list(self.repo.cls("Mode").assigns)
            ins_fields = list(self.repo.cls("Instruction").assigns)
            rows = []
            unfolded = []
            for idx, e in enumerate(node.elts):
                try:
                    s = fold(e, self.env, ctors=("Mode", "Instruction"))
                except NotConst as ex:
                    unfolded.append((idx, U(e)[:60], str(ex)))
                    continue
                if not isinstance(s, Struct) or s.cls != "Instruction":
                    unfolded.append((idx, U(e)[:60], "not an Instruction(...)"))
                    continue
                kw = dict(ins_def)
                for i, a in enumerate(s.args):
                    kw[ins_fields[i]] = a
                kw.update(s.kw)
                mode = kw.get("mode")
                mk = dict(mode_def)
                if isinstance(mode, Struct):
                    for i, a in enumerate(mode.args):
                        mk[mode_fields[i]] = a
                    mk.update(mode.kw)
                modes = {md: (mk.get(md), mk.get(md + "_sz")) for md in MODES}
                flags = {f: bool(kw.get(f)) for f in FLAGS}
                rows.append(Row(kw.get("mnemonic"), modes, flags, e, idx))
            return rows, unfolded, m
        return self.memo("instructions", build)

    def effective_rows(self):
        """first row per mnemonic (parse_line uses next(...) over the list) -> dict"""
        rows, _, _ = self.instructions()
        out = {}
        dups = []
        for r in rows:
            if r.mnemonic in out:
                dups.append(r)
            else:
                out[r.mnemonic] = r
        return out, dups
