"""E8: evaluation of a method for ONE concrete configuration (file kind, container kind, command-line switches).

Not execution of repository code: the statements are interpreted over descriptions.  Constants fold; a constructor call of a known class gives
an Obj (attribute stores are kept on it); a call of a method of the same class that is not a declared worker is interpreted in turn (bounded
depth); every other call gives a Desc - a text describing it ("self.find_empty_granule()") - and is recorded as an event.  `notes` lists
whatever could not be interpreted; a conclusion drawn from the ABSENCE of an event is only sound when notes is empty."""
import ast

from .model import U, body_without_doc
from .consteval import fold, NotConst, STR_METHODS


class Desc(str):
    """text describing a value the evaluator has no model of (as opposed to a str constant of the program)"""
    def __repr__(self):
        return str(self)


class Obj:
    def __init__(self, cls, label=None):
        self.cls = cls
        self.attrs = {}
        self.label = label

    def __repr__(self):
        return self.label or "<%s object>" % self.cls


class Ref(Obj):
    """a mutable container created empty under a local name: described by that name; the things appended are kept in .items"""
    def __init__(self, name):
        Obj.__init__(self, name)
        self.items = []

    def __repr__(self):
        return self.cls


class Seq(Obj):
    """a sequence known only by its length (and where it starts in the sequence it was sliced from)"""
    def __init__(self, length, start=0, name="data"):
        Obj.__init__(self, "Seq")
        self.length, self.start, self.name = length, start, name

    def __repr__(self):
        return "<%s[%d:%d]>" % (self.name, self.start, self.start + self.length)


class ClsRef:
    def __init__(self, name):
        self.name = name

    def __repr__(self):
        return self.name


class LambdaVal:
    """a lambda together with the environment it was written in (it is evaluated there when it is called)"""
    def __init__(self, node, env):
        self.node, self.env = node, env

    def __repr__(self):
        return "<lambda>"


class _Raise(Exception):
    def __init__(self, text):
        self.text = text


_MISSING = object()


def truth(v):
    """truth value of an evaluated value (Desc has none: callers test for it first)"""
    if isinstance(v, Seq):
        return v.length > 0
    if isinstance(v, Ref):
        return bool(v.items)
    if isinstance(v, Obj):
        return True
    return bool(v)


def show(v):
    if isinstance(v, (Obj, Desc, ClsRef, LambdaVal)):
        return repr(v)
    if isinstance(v, (list, tuple)) and any(isinstance(x, (Obj, Desc)) for x in v):
        return "[%s]" % ", ".join(show(x) for x in v)
    return repr(v)


def class_level_functions(repo):
    """{'Class.name': FunctionDef} of every static method and class method: `Class.name(...)` is interpreted (factories, helpers)"""
    out = {}
    for cn, c in repo.classes.items():
        for an in repo.ancestors(cn):            # nearest definition first; inherited factories are reachable through the subclass name
            a = repo.classes.get(an)
            if a is None:
                continue
            for mn, m in a.methods.items():
                if m.is_static or m.is_classmethod:
                    out.setdefault("%s.%s" % (cn, mn), m.node)
    return out


def run_concrete(stmts, env, events, notes, depth=0, workers=(), resolver=None, hooks=None, functions=None):
    """events: ('new', cls, [args], obj) / ('call', receiver text, method, [arg texts], [arg values], {keyword values}, receiver value).
    Returns 'raise:<name>', 'return', 'exit', 'break', 'continue' or None; the value of a return statement is left in env['$return'].
    resolver(name) -> ast.FunctionDef of a method of the object under evaluation (or None): such calls are interpreted, not described.
    hooks: {(receiver text, method): value or callable(args)} - what a described call evaluates to (e.g. the listing of the source image).
    functions: {name: ast.FunctionDef} module-level functions that are interpreted when called by bare name."""
    hooks = hooks or {}

    def _note(text):
        notes.append(text)
        events.append(("note", text))      # so that a reader of the trace can tell what had been evaluated completely up to a given event

    def plain_env():
        return {k: v for k, v in env.items() if not isinstance(v, (Obj, Desc))}

    def call_method(fdef, args, kwargs, cls=None, closure=False):
        if depth > 4:
            raise NotConst("call depth")
        params = [a.arg for a in fdef.args.args if a.arg not in ("self", "cls")]
        if closure:
            sub = dict(env)         # a function defined inside the one being evaluated reads the enclosing locals
            sub.pop("$return", None)
        else:
            sub = {k: v for k, v in env.items() if not isinstance(k, str) or "." in k or k[:1].isupper() or isinstance(v, ClsRef) or k.isupper() or k.startswith("$func:")}
        if cls is not None:
            sub["cls"] = cls
        defaults = fdef.args.defaults
        for p_, d_ in zip(params[len(params) - len(defaults):], defaults):
            try:
                sub[p_] = fold(d_, sub)
            except NotConst:
                sub[p_] = Desc(U(d_))
        for p_, a in zip(params, args):
            sub[p_] = a
        for k, v in kwargs.items():
            sub[k] = v
        is_gen = any(isinstance(x, (ast.Yield, ast.YieldFrom)) for x in ast.walk(fdef))
        if is_gen:
            sub["$yield"] = []
        r = run_concrete(body_without_doc(fdef), sub, events, notes, depth + 1, workers, resolver, hooks, functions)
        for k, v in sub.items():
            if isinstance(k, str) and k.startswith("self."):
                env[k] = v
        if r and r.startswith("raise"):
            raise _Raise(r)
        if r == "exit":
            raise _Raise("exit")
        if is_gen:
            return list(sub["$yield"])          # a generator function: what it yields, in order (it is consumed by a for loop at the call site)
        return sub.get("$return")

    def values(e):
        avals = []
        for a in e.args:
            try:
                avals.append(val(a))
            except NotConst:
                avals.append(Desc(U(a)))
        kvals = {}
        for k in e.keywords:
            if k.arg:
                try:
                    kvals[k.arg] = val(k.value)
                except NotConst:
                    kvals[k.arg] = Desc(U(k.value))
        return avals, kvals

    def val(e):
        """constant, Obj, ClsRef or a Desc for an expression"""
        if isinstance(e, ast.Call):
            try:
                return fold(e, plain_env())
            except NotConst:
                pass
            f = e.func
            if isinstance(f, ast.Name) and isinstance(env.get(f.id), LambdaVal):
                lam = env[f.id]
                avals, kvals = values(e)
                denv = lam.env
                saved_ = {a_.arg: denv.get(a_.arg, _MISSING) for a_ in lam.node.args.args}
                for a_, v_ in zip(lam.node.args.args, avals):
                    denv[a_.arg] = v_
                r_ = run_concrete([ast.Return(value=lam.node.body)], denv, events, notes, depth + 1, workers, resolver, hooks, functions)
                out_ = denv.pop("$return", None)
                for k_, v_ in saved_.items():
                    if v_ is _MISSING:
                        denv.pop(k_, None)
                    else:
                        denv[k_] = v_
                if r_ and r_.startswith("raise"):
                    raise _Raise(r_)
                return out_
            if isinstance(f, ast.Name) and f.id in env and not isinstance(env[f.id], ClsRef):
                raise NotConst("call of %s" % f.id)
            if isinstance(f, ast.Name) and isinstance(env.get(f.id), ClsRef):
                o = Obj(env[f.id].name)
                o.attrs.update(getattr(env[f.id], "defaults", {}))
                o.attrs.update(hooks.get(("new", o.cls), {}))
                avals, kvals = values(e)
                for fname_, aval_ in zip(getattr(env[f.id], "fields", []), avals):
                    o.attrs[fname_] = aval_
                args = [show(a) for a in avals] + ["%s=%s" % (k, show(v)) for k, v in kvals.items()]
                o.attrs.update(kvals)
                o.args = avals
                events.append(("new", o.cls, args, o))
                return o
            if isinstance(f, ast.Attribute):
                r = val(f.value)
                if isinstance(r, str) and not isinstance(r, Desc) and f.attr in STR_METHODS:
                    avals, kvals = values(e)
                    if not kvals and not any(isinstance(a, (Desc, Obj)) for a in avals):
                        try:
                            return getattr(r, f.attr)(*avals)
                        except Exception as ex:
                            raise NotConst(str(ex))
                recv = repr(r) if isinstance(r, (Obj, Desc)) else U(f.value)
                if isinstance(r, ClsRef) and functions and "%s.%s" % (r.name, f.attr) in functions and f.attr not in workers:
                    avals, kvals = values(e)
                    return call_method(functions["%s.%s" % (r.name, f.attr)], avals, kvals, cls=r)
                if recv in ("self", "cls") and resolver is not None and f.attr not in workers:
                    fdef = resolver(f.attr)
                    if fdef is not None:
                        avals, kvals = values(e)
                        return call_method(fdef, avals, kvals)
                    _note("call of %s.%s not expanded" % (recv, f.attr))
                avals, kvals = values(e)
                args = [show(a) for a in avals] + ["%s=%s" % (k, show(v)) for k, v in kvals.items()]
                events.append(("call", recv, f.attr, args, avals, kvals, r))
                if recv == "sys" and f.attr == "exit":
                    raise _Raise("exit")
                if isinstance(r, Ref) and f.attr in ("append", "add") and avals:
                    r.items.append(avals[0])
                    return None
                if isinstance(r, Ref) and f.attr == "extend" and avals and isinstance(avals[0], (list, tuple)):
                    r.items.extend(avals[0])
                    return None
                if (recv, f.attr) in hooks:
                    h = hooks[(recv, f.attr)]
                    return h(avals) if callable(h) else h
                if isinstance(r, Obj) and ("*", f.attr) in hooks:
                    h = hooks[("*", f.attr)]
                    return h(r, avals) if callable(h) else h
                if isinstance(r, Obj) and ("*", "*") in hooks:
                    # dynamic dispatch supplied by the rule: (object, method name, argument values) -> value
                    return hooks[("*", "*")](r, f.attr, avals)
                if isinstance(r, ClsRef):
                    # a factory / helper called on a class the evaluator models, and not interpreted: what it builds is not in the trace
                    _note("call of %s.%s not expanded" % (r.name, f.attr))
                return Desc("%s.%s(%s)" % (recv, f.attr, ", ".join(args)))
            if isinstance(f, ast.Name) and ("$func:" + f.id) in env and f.id not in workers:
                avals, kvals = values(e)
                return call_method(env["$func:" + f.id], avals, kvals, closure=True)
            if isinstance(f, ast.Name) and functions and f.id in functions and f.id not in workers:
                avals, kvals = values(e)
                return call_method(functions[f.id], avals, kvals)
            if isinstance(f, ast.Name):
                # a plain function / constructor the evaluator has no model of: described, not interpreted
                avals, kvals = values(e)
                if f.id == "getattr" and len(avals) in (2, 3) and isinstance(avals[1], str) and not isinstance(avals[1], Desc):
                    base_, nm_ = avals[0], avals[1]
                    if isinstance(base_, Obj):
                        if nm_ in base_.attrs:
                            return base_.attrs[nm_]
                        return avals[2] if len(avals) == 3 else Desc("%r.%s" % (base_, nm_))
                    if isinstance(base_, Desc):
                        key_ = "%s.%s" % (base_, nm_)
                        if key_ in env:
                            return env[key_]
                        return avals[2] if len(avals) == 3 else Desc(key_)
                if f.id == "len" and len(avals) == 1 and isinstance(avals[0], Seq):
                    return avals[0].length
                if f.id == "bool" and len(avals) == 1 and not kvals and not isinstance(avals[0], Desc):
                    return truth(avals[0])
                if f.id in ("divmod", "min", "max", "abs", "int", "range", "sum", "round", "bool") and not kvals and avals and all(
                        isinstance(a, (int, float, bool)) and not isinstance(a, Desc) for a in avals):
                    try:
                        import builtins as _b
                        r_ = getattr(_b, f.id)(*avals)
                        return list(r_) if f.id == "range" else r_
                    except Exception as ex:
                        raise NotConst(str(ex))
                if f.id == "len" and len(avals) == 1 and isinstance(avals[0], Ref):
                    return Desc("len(%r)" % avals[0])
                if f.id == "enumerate" and avals and isinstance(avals[0], (list, tuple)):
                    st_ = avals[1] if len(avals) > 1 else kvals.get("start", 0)
                    if isinstance(st_, int):
                        return list(enumerate(avals[0], st_))
                if f.id in ("list", "tuple") and len(avals) == 1 and isinstance(avals[0], (list, tuple)):
                    return list(avals[0])
                if f.id in ("all", "any") and len(avals) == 1 and isinstance(avals[0], (list, tuple)) and not any(isinstance(x, Desc) for x in avals[0]):
                    truths = [(bool(x.items) if isinstance(x, Ref) else True) if isinstance(x, Obj) else bool(x) for x in avals[0]]
                    return all(truths) if f.id == "all" else any(truths)
                args = [show(a) for a in avals] + ["%s=%s" % (k, show(v)) for k, v in kvals.items()]
                return Desc("%s(%s)" % (f.id, ", ".join(args)))
        if isinstance(e, ast.Lambda):
            return LambdaVal(e, env)
        if isinstance(e, ast.Name) and isinstance(env.get(e.id), (Obj, ClsRef, Desc, list, tuple, LambdaVal)):
            return env[e.id]
        if isinstance(e, ast.Attribute):
            if U(e) in env:
                return env[U(e)]
            try:
                base = val(e.value)
            except NotConst:
                base = None
            if isinstance(base, Obj):
                if e.attr in base.attrs:
                    return base.attrs[e.attr]
                return Desc("%r.%s" % (base, e.attr))
            if isinstance(base, Desc):
                name = "%s.%s" % (base, e.attr)
                return env.get(name, Desc(name))
        if isinstance(e, ast.Subscript) and not isinstance(e.slice, ast.Slice):
            try:
                base = val(e.value)
            except NotConst:
                base = None
            if isinstance(base, (list, tuple)):
                try:
                    i = val(e.slice)
                    if isinstance(i, int):
                        return base[i]
                except (NotConst, IndexError):
                    pass
            if isinstance(base, (Obj, Desc)):
                try:
                    sl = show(val(e.slice))
                except NotConst:
                    sl = U(e.slice)
                return Desc("%r[%s]" % (base, sl))
        if isinstance(e, ast.Subscript) and isinstance(e.slice, ast.Slice) and e.slice.step is None:
            try:
                base = val(e.value)
            except NotConst:
                base = None
            if isinstance(base, Seq):
                lo = val(e.slice.lower) if e.slice.lower is not None else 0
                hi = val(e.slice.upper) if e.slice.upper is not None else base.length
                if isinstance(lo, int) and isinstance(hi, int) and not isinstance(lo, bool) and not isinstance(hi, bool):
                    lo = max(0, min(base.length, lo if lo >= 0 else base.length + lo))
                    hi = max(0, min(base.length, hi if hi >= 0 else base.length + hi))
                    return Seq(max(0, hi - lo), base.start + lo, base.name)
                raise NotConst("slice bounds")
        if isinstance(e, (ast.Tuple, ast.List)):
            out = [val(x) for x in e.elts]
            return tuple(out) if isinstance(e, ast.Tuple) else out
        if isinstance(e, (ast.ListComp, ast.GeneratorExp)) and e.generators and not any(g.is_async for g in e.generators):
            out = []
            saved = dict(env)

            def gen(k):
                if k == len(e.generators):
                    out.append(val(e.elt))
                    return
                g = e.generators[k]
                seq = val(g.iter)
                if not isinstance(seq, (list, tuple)):
                    raise NotConst("iteration over %s" % U(g.iter)[:40])
                for x in seq:
                    assign(g.target, x)
                    keep = True
                    for cnd in g.ifs:
                        t = val(cnd)
                        if isinstance(t, Desc):
                            raise NotConst("filter %s" % U(cnd))
                        keep = keep and truth(t)
                    if keep:
                        gen(k + 1)
            try:
                gen(0)
            finally:
                env.clear()
                env.update(saved)
            return out
        if isinstance(e, ast.IfExp):
            t = val(e.test)
            if isinstance(t, Desc):
                raise NotConst("test %s" % U(e.test))
            return val(e.body) if truth(t) else val(e.orelse)
        if isinstance(e, ast.UnaryOp) and isinstance(e.op, ast.Not):
            t = val(e.operand)
            if isinstance(t, Desc):
                raise NotConst(t)
            return not truth(t)
        if isinstance(e, ast.BoolOp):
            r = None
            for x in e.values:
                r = val(x)
                if isinstance(r, Desc):
                    raise NotConst(r)
                tr_ = truth(r)
                if isinstance(e.op, ast.And) and not tr_:
                    return r
                if isinstance(e.op, ast.Or) and tr_:
                    return r
            return r
        if isinstance(e, ast.BinOp) and isinstance(e.op, (ast.Add, ast.Sub, ast.Mult, ast.FloorDiv, ast.Mod)) and any(
                isinstance(x, ast.Call) for x in ast.walk(e)):
            # arithmetic over the results of calls the evaluator answers itself (len of a modelled sequence, a hooked worker): operand by operand
            try:
                l_, r_ = val(e.left), val(e.right)
            except NotConst:
                l_ = r_ = None
            if type(l_) is int and type(r_) is int and not (isinstance(e.op, (ast.FloorDiv, ast.Mod)) and r_ == 0):
                import operator as _ob
                return {ast.Add: _ob.add, ast.Sub: _ob.sub, ast.Mult: _ob.mul, ast.FloorDiv: _ob.floordiv, ast.Mod: _ob.mod}[type(e.op)](l_, r_)
        if isinstance(e, ast.Compare) and len(e.ops) == 1:
            l_, r_ = val(e.left), val(e.comparators[0])
            op = e.ops[0]
            if isinstance(op, (ast.Is, ast.IsNot)) and r_ is None:
                if isinstance(l_, Desc):
                    raise NotConst(l_)
                return (l_ is None) == isinstance(op, ast.Is)
            if isinstance(l_, (Desc, Obj)) or isinstance(r_, (Desc, Obj)):
                if isinstance(op, (ast.In, ast.NotIn)) and isinstance(r_, (list, tuple)) and not isinstance(l_, Desc):
                    return (l_ in r_) == isinstance(op, ast.In)
                raise NotConst("comparison %s" % U(e))
            import operator as _o
            table = {ast.Eq: _o.eq, ast.NotEq: _o.ne, ast.Lt: _o.lt, ast.LtE: _o.le, ast.Gt: _o.gt, ast.GtE: _o.ge,
                     ast.In: lambda a, b: a in b, ast.NotIn: lambda a, b: a not in b, ast.Is: _o.is_, ast.IsNot: _o.is_not}
            try:
                return table[type(op)](l_, r_)
            except TypeError as ex:
                if isinstance(op, (ast.In, ast.NotIn)) and r_ is None:
                    raise _Raise("raise:TypeError")
                raise NotConst(str(ex))
        try:
            return fold(e, plain_env())
        except NotConst:
            if isinstance(e, (ast.Attribute, ast.Name)):
                return Desc(U(e))
            raise

    def desc(e):
        try:
            return show(val(e))
        except NotConst:
            return U(e)

    def assign(t, v):
        if isinstance(t, ast.Name):
            env[t.id] = v
        elif isinstance(t, ast.Attribute):
            try:
                base = val(t.value)
            except NotConst:
                base = None
            if isinstance(base, Obj):
                base.attrs[t.attr] = v
            else:
                env[U(t)] = v
        elif isinstance(t, (ast.Tuple, ast.List)) and isinstance(v, (tuple, list)) and len(v) == len(t.elts):
            for e_, x in zip(t.elts, v):
                assign(e_, x)
        elif isinstance(t, (ast.Tuple, ast.List)):
            for i_, e_ in enumerate(t.elts):
                assign(e_, Desc("%s[%d]" % (show(v), i_)))
        else:
            pass    # a store into a subscript: of no interest here

    def truth_of(tv, node):
        if isinstance(tv, Desc):
            raise NotConst(tv)
        return truth(tv)

    def sub(block):
        return run_concrete(block, env, events, notes, depth + 1, workers, resolver, hooks, functions)

    try:
        for st in stmts:
            if isinstance(st, ast.Expr) and isinstance(st.value, ast.Constant) or isinstance(st, ast.Pass):
                continue
            if isinstance(st, ast.Expr) and isinstance(st.value, ast.Yield) and "$yield" in env:
                try:
                    env["$yield"].append(val(st.value.value) if st.value.value is not None else None)
                except NotConst:
                    env["$yield"].append(Desc(U(st.value.value)))
                continue
            if isinstance(st, ast.Expr):
                try:
                    val(st.value)
                except NotConst:
                    _note("expression %s" % U(st)[:50])
                continue
            if isinstance(st, ast.Assign) and len(st.targets) == 1:
                try:
                    v = val(st.value)
                except NotConst:
                    v = Desc(U(st.value))
                    if isinstance(st.value, ast.Call):
                        _note("call %s not evaluable" % U(st.value)[:40])
                t = st.targets[0]
                if isinstance(t, ast.Name) and ((isinstance(st.value, (ast.List, ast.Set)) and not st.value.elts) or (isinstance(st.value, ast.Dict) and not st.value.keys)):
                    v = Ref(t.id)
                assign(t, v)
                continue
            if isinstance(st, ast.If):
                try:
                    tv = truth_of(val(st.test), st.test)
                except NotConst:
                    if st.body and isinstance(st.body[-1], ast.Raise) and not st.orelse:
                        # an error guard on a value the evaluator only has a description of: the path described is the one where it does not fire
                        events.append(("guard", U(st.test)[:80]))
                        continue
                    _note("test %s" % U(st.test)[:60])
                    for blk in (st.body, st.orelse):
                        sub(blk)
                    continue
                r = sub(st.body if tv else st.orelse)
                if r:
                    return r
                continue
            if isinstance(st, ast.For):
                try:
                    seq = val(st.iter)
                    if isinstance(seq, (Desc, Obj)):
                        raise NotConst("iteration")
                    seq = list(seq)
                except (NotConst, TypeError):
                    # the body is interpreted once with an opaque element
                    assign(st.target, Desc("element of %s" % U(st.iter)[:30]))
                    r = sub(st.body)
                    if r and r not in ("break", "continue"):
                        return r
                    continue
                for x in seq:
                    assign(st.target, x)
                    r = sub(st.body)
                    if r == "break":
                        break
                    if r and r != "continue":
                        return r
                continue
            if isinstance(st, ast.While):
                # inside a generator (whose values the caller consumes) a test that evaluates - and is not a bare constant such as `while True` - drives a
                # real loop, bounded; otherwise the body is interpreted once
                # (the calls it makes are what matters to the trace) - and when such a summarised loop produces values (a generator), that is noted so that
                # nothing is concluded from them
                try:
                    t0 = val(st.test)
                except NotConst:
                    t0 = Desc("?")
                if "$yield" in env and not isinstance(st.test, ast.Constant) and not isinstance(t0, (Desc, Obj)):
                    n_it, res_ = 0, None
                    while truth(t0):
                        n_it += 1
                        if n_it > 5000:
                            _note("while loop not finished after 5000 iterations: %s" % U(st.test)[:40])
                            break
                        r = sub(st.body)
                        if r == "break":
                            break
                        if r and r != "continue":
                            res_ = r
                            break
                        try:
                            t0 = val(st.test)
                        except NotConst:
                            t0 = Desc("?")
                        if isinstance(t0, (Desc, Obj)):
                            _note("while test not evaluable after %d iteration(s): %s" % (n_it, U(st.test)[:40]))
                            break
                    else:
                        if st.orelse:
                            res_ = sub(st.orelse)
                    if res_:
                        return res_
                    continue
                if "$yield" in env and any(isinstance(x, (ast.Yield, ast.YieldFrom)) for b_ in st.body for x in ast.walk(b_)):
                    _note("while loop of a generator summarised: %s" % U(st.test)[:40])
                r = sub(st.body)
                if r and r not in ("break", "continue"):
                    return r
                continue
            if isinstance(st, ast.AugAssign):
                try:
                    v = val(st.value)
                except NotConst:
                    v = Desc(U(st.value))
                cur = env.get(U(st.target), Desc(U(st.target)))
                from .consteval import BIN as _BIN
                if isinstance(cur, (int, float, str, list, tuple)) and not isinstance(cur, Desc) and isinstance(v, (int, float, str, list, tuple)) and not isinstance(v, Desc) \
                        and type(st.op) in _BIN:
                    try:
                        env[U(st.target)] = _BIN[type(st.op)](cur, v)
                        continue
                    except Exception:
                        pass
                env[U(st.target)] = Desc("%s %s %s" % (show(cur), type(st.op).__name__, show(v)))
                continue
            if isinstance(st, ast.Raise):
                return "raise:%s" % (U(st.exc.func) if isinstance(st.exc, ast.Call) else U(st.exc) if st.exc else "")
            if isinstance(st, ast.Return):
                if st.value is not None:
                    try:
                        env["$return"] = val(st.value)
                    except NotConst:
                        env["$return"] = Desc(U(st.value))
                else:
                    env["$return"] = None
                return "return"
            if isinstance(st, ast.Break):
                return "break"
            if isinstance(st, ast.Continue):
                return "continue"
            if isinstance(st, ast.Try) and not st.finalbody:
                r = sub(st.body)
                if r and r.startswith("raise"):
                    name = r.split(":", 1)[1]
                    handler = None
                    for h in st.handlers:
                        hn = [U(x).split(".")[-1] for x in (h.type.elts if isinstance(h.type, ast.Tuple) else [h.type])] if h.type is not None else ["BaseException"]
                        if name.split(".")[-1] in hn or "Exception" in hn or "BaseException" in hn:
                            handler = h
                            break
                    if handler is None:
                        return r
                    events.append(("handled", name, U(handler.type) if handler.type is not None else "bare"))
                    if handler.name:
                        env[handler.name] = Desc("the %s raised" % name)
                    r = sub(handler.body)
                    if r:
                        return r
                    continue
                if r:
                    return r
                if st.orelse:
                    r = sub(st.orelse)
                    if r:
                        return r
                continue
            if isinstance(st, ast.ClassDef):
                cr = ClsRef(st.name)
                cr.fields = [x.target.id for x in st.body if isinstance(x, ast.AnnAssign) and isinstance(x.target, ast.Name)]
                cr.defaults = {}
                for x in st.body:
                    if isinstance(x, ast.AnnAssign) and isinstance(x.target, ast.Name) and x.value is not None:
                        try:
                            cr.defaults[x.target.id] = val(x.value)
                        except NotConst:
                            cr.defaults[x.target.id] = Desc(U(x.value))
                env[st.name] = cr
                continue
            if isinstance(st, ast.FunctionDef):
                env["$func:" + st.name] = st        # a local function: interpreted when it is called, with the enclosing locals in view
                continue
            if isinstance(st, (ast.Import, ast.ImportFrom, ast.AsyncFunctionDef)):
                continue
            if isinstance(st, ast.With):
                for item in st.items:
                    try:
                        v = val(item.context_expr)
                    except NotConst:
                        v = Desc(U(item.context_expr))
                    if isinstance(item.context_expr, ast.Call) and U(item.context_expr.func) == "open":
                        avals, kvals = values(item.context_expr)
                        o = Obj("file", label="<file %s mode %s>" % (show(avals[0]) if avals else "?", show(avals[1]) if len(avals) > 1 else show(kvals.get("mode", "r"))))
                        o.args = avals
                        o.attrs.update(kvals)
                        events.append(("new", "file", [show(a) for a in avals], o))
                        v = o
                    if item.optional_vars is not None:
                        assign(item.optional_vars, v)
                r = sub(st.body)
                if r:
                    return r
                continue
            _note("statement %s" % type(st).__name__)
            for blk in ("body", "orelse", "finalbody"):
                if isinstance(getattr(st, blk, None), list):
                    sub(getattr(st, blk))
            for h in getattr(st, "handlers", []):
                sub(h.body)
    except _Raise as r:
        return r.text
    return None
