"""E4: statement-level control-flow graph with labelled edges; reachability-avoiding queries
(must-pass-through / guard-before-use / must-assign)."""
import ast

from .model import U


class CFG:
    def __init__(self, fn_node):
        self.nodes = []     # (id, kind, astnode)
        self.succ = {}      # id -> [(id, label)]
        self.entry = self.new("entry", None)
        self.exit = self.new("exit", None)
        self.raise_exit = self.new("raise-exit", None)
        last = self.build(fn_node.body, [(self.entry, None)], None, None)
        for p, l in last:
            self.edge(p, self.exit, l)

    def new(self, kind, node):
        i = len(self.nodes)
        self.nodes.append((i, kind, node))
        self.succ[i] = []
        return i

    def edge(self, a, b, label=None):
        self.succ[a].append((b, label))

    def build(self, stmts, preds, brk, cont):
        for st in stmts:
            if isinstance(st, ast.If):
                t = self.new("test", st.test)
                for p, l in preds:
                    self.edge(p, t, l)
                a = self.build(st.body, [(t, True)], brk, cont)
                b = self.build(st.orelse, [(t, False)], brk, cont) if st.orelse else [(t, False)]
                preds = a + b
            elif isinstance(st, (ast.While, ast.For)):
                t = self.new("loop", st)
                for p, l in preds:
                    self.edge(p, t, l)
                brks = []
                body_out = self.build(st.body, [(t, True)], brks, t)
                for p, l in body_out:
                    self.edge(p, t, l)
                infinite = isinstance(st, ast.While) and isinstance(st.test, ast.Constant) and st.test.value is True
                after = [] if infinite else [(t, False)]
                if st.orelse:
                    after = self.build(st.orelse, after, brk, cont)
                preds = after + brks
            elif isinstance(st, ast.Return):
                n = self.new("return", st)
                for p, l in preds:
                    self.edge(p, n, l)
                self.edge(n, self.exit)
                preds = []
            elif isinstance(st, ast.Raise) or (isinstance(st, ast.Expr) and isinstance(st.value, ast.Call) and U(st.value.func) in ("sys.exit", "exit", "os._exit", "quit")):
                n = self.new("raise", st)
                for p, l in preds:
                    self.edge(p, n, l)
                self.edge(n, self.raise_exit)
                preds = []
            elif isinstance(st, ast.Break):
                if brk is not None:
                    brk.extend(preds)
                preds = []
            elif isinstance(st, ast.Continue):
                for p, l in preds:
                    self.edge(p, cont, l)
                preds = []
            elif isinstance(st, ast.Try):
                start = len(self.nodes)
                body_out = self.build(st.body, preds, brk, cont)
                body_nodes = list(range(start, len(self.nodes)))
                outs = self.build(st.orelse, body_out, brk, cont) if st.orelse else list(body_out)
                for h in st.handlers:
                    hn = self.new("handler", h)
                    for p, l in preds:
                        self.edge(p, hn, "exc")
                    for bn in body_nodes:
                        self.edge(bn, hn, "exc")
                    outs += self.build(h.body, [(hn, None)], brk, cont)
                preds = self.build(st.finalbody, outs, brk, cont) if st.finalbody else outs
            elif isinstance(st, ast.With):
                n = self.new("stmt", st)
                for p, l in preds:
                    self.edge(p, n, l)
                preds = self.build(st.body, [(n, None)], brk, cont)
            else:
                n = self.new("stmt", st)
                for p, l in preds:
                    self.edge(p, n, l)
                preds = [(n, None)]
        return preds

    def reachable(self, start=None, avoid_edges=(), avoid_nodes=()):
        start = self.entry if start is None else start
        avoid_edges = set(avoid_edges)
        avoid_nodes = set(avoid_nodes)
        seen = {start}
        stack = [start]
        while stack:
            a = stack.pop()
            for b, l in self.succ[a]:
                if (a, l) in avoid_edges or b in avoid_nodes or b in seen:
                    continue
                seen.add(b)
                stack.append(b)
        return seen

    def find(self, pred):
        return [i for i, k, n in self.nodes if n is not None and pred(k, n)]

    def only_raises_after(self, node_id, label):
        """every path from edge (node, label) ends in raise_exit without reaching exit"""
        firsts = [b for b, l in self.succ[node_id] if l == label]
        seen = set(firsts)
        stack = list(firsts)
        while stack:
            a = stack.pop()
            if a == self.exit:
                return False
            for b, l in self.succ[a]:
                if b not in seen:
                    seen.add(b)
                    stack.append(b)
        return bool(firsts)
