"""Verdict protocol: rule instances, known findings, evidence, exit codes (DESIGN.md section 3)."""
import json
import os
import re
import time

from .model import AnalysisError

VERIF = os.path.dirname(os.path.dirname(os.path.abspath(__file__)))
KNOWN_FILE = os.path.join(VERIF, "KNOWN_FINDINGS.txt")
EVIDENCE_DIR = os.path.join(VERIF, "evidence")

PASS, FINDING, UNDECIDED = "PASS", "FINDING", "UNDECIDED"


class Inst:
    """One rule instance (obligation) and its verdict."""
    __slots__ = ("rule", "site", "verdict", "fact", "text", "where", "nontrivial", "extra")

    def __init__(self, rule, site, verdict, fact="", text="", where="", nontrivial=True, extra=None):
        self.rule = rule
        self.site = site
        self.verdict = verdict
        self.fact = fact
        self.text = text
        self.where = where
        self.nontrivial = nontrivial
        self.extra = extra or {}

    @property
    def key(self):
        return "%s|%s|%s" % (self.rule, self.site, self.fact)

    def as_dict(self):
        d = {"rule": self.rule, "site": self.site, "verdict": self.verdict, "fact": self.fact, "where": self.where}
        if self.text:
            d["text"] = self.text
        if self.extra:
            d["extra"] = self.extra
        return d


class Collector:
    """Passed to every rule; rules call ok/finding/undecided."""
    def __init__(self, rule):
        self.rule = rule
        self.insts = []
        self.notes = []

    def ok(self, site, fact="", where="", nontrivial=True, **extra):
        self.insts.append(Inst(self.rule, site, PASS, fact, "", where, nontrivial, extra))

    def finding(self, site, fact, text, where="", **extra):
        if "<?!" in fact or "<?!" in text:
            # the fact rests on a value the interpreter could not model (absint marks those): nothing is established
            self.undecided(site, "value-not-modelled", fact[:120], where, **extra)
            return
        self.insts.append(Inst(self.rule, site, FINDING, fact, text, where, True, extra))

    def undecided(self, site, fact, text="", where="", **extra):
        self.insts.append(Inst(self.rule, site, UNDECIDED, fact, text, where, True, extra))

    def check(self, cond, site, fact_ok, fact_bad, text, where="", **extra):
        if cond:
            self.ok(site, fact_ok, where, **extra)
        else:
            self.finding(site, fact_bad, text, where, **extra)

    def floor(self, what, n, minimum):
        """extraction floor: fewer sites than confirmed by hand means the rule no longer sees the code it was written for.
        That is not evidence of a violation: the instance is UNDECIDED (printed, exit code unaffected); a vanished entry point
        (class or method named by the property's anchors) is an AnalysisError raised by the lookup itself."""
        if n < minimum:
            self.undecided("extraction:%s" % what, "extracted %d, confirmed by hand %d" % (n, minimum),
                           "the rule recognises fewer %s than on the tree it was written for: the code has another shape, nothing is concluded" % what)

    def shape(self, cond, site, fact_ok, what, where="", **extra):
        """a recognised shape discharges the obligation; an unrecognised one decides nothing"""
        if cond:
            self.ok(site, fact_ok, where, **extra)
        else:
            self.undecided(site, "shape-not-recognised", what, where, **extra)

    def note(self, s):
        self.notes.append(s)


def load_known():
    """-> {(property, key): text} for open findings; fixed entries are documentation only."""
    known = {}
    if not os.path.exists(KNOWN_FILE):
        return known
    for line in open(KNOWN_FILE, encoding="utf-8"):
        line = line.rstrip("\n")
        m = re.match(r"^finding:\s+property=(C\d+)\s+key=(.*?)\s+::\s*(.*)$", line)
        if m:
            known[(m.group(1), m.group(2))] = m.group(3)
    return known


def conclude(prop_id, spec, insts, notes, tier, t0, stats, replay_filter=None, no_evidence=False):
    """Print verdict lines, write evidence, return exit code."""
    known = load_known()
    seed = int(os.environ.get("VERIF_SEED", "0") or 0)
    findings = [i for i in insts if i.verdict == FINDING]
    undec = [i for i in insts if i.verdict == UNDECIDED]
    passed = [i for i in insts if i.verdict == PASS]
    violations = []
    known_hits = []
    seen_keys = set()
    for f in findings:
        if f.key in seen_keys:
            continue
        seen_keys.add(f.key)
        if (prop_id, f.key) in known:
            known_hits.append(f)
        else:
            violations.append(f)
    if no_evidence:
        for f in known_hits:
            print("KNOWN-FINDING: property=%s %s" % (prop_id, f.key))
        for v in violations:
            print("FINDING: %s at %s :: %s" % (v.key, v.where, v.text))
            print("VIOLATION property=%s replay=-" % prop_id)
        return 1 if violations else 0
    os.makedirs(os.path.join(EVIDENCE_DIR, "replay"), exist_ok=True)
    # stale replay files of this property are removed so that a replay path always belongs to this run
    for fn in os.listdir(os.path.join(EVIDENCE_DIR, "replay")):
        if fn.startswith(prop_id + "-"):
            try:
                os.remove(os.path.join(EVIDENCE_DIR, "replay", fn))
            except OSError:
                pass
    for f in known_hits:
        print("KNOWN-FINDING: property=%s %s :: %s" % (prop_id, f.key, known[(prop_id, f.key)]))
    for u in undec:
        print("UNDECIDED: property=%s %s :: %s [%s]" % (prop_id, u.key, u.text, u.where))
    for n, v in enumerate(violations):
        path = os.path.join(EVIDENCE_DIR, "replay", "%s-%d.json" % (prop_id, n))
        with open(path, "w") as fh:
            json.dump({"property": prop_id, "tier": tier, **v.as_dict(), "key": v.key,
                       "how_to_replay": "./check %s --replay %s" % (prop_id, path)}, fh, indent=1)
        print("FINDING: %s at %s :: %s" % (v.key, v.where, v.text))
        print("VIOLATION property=%s replay=%s" % (prop_id, path))
    stale = [k for (p, k) in known if p == prop_id and k not in seen_keys]
    for k in stale:
        print("NOTE: known finding no longer reported (fixed or unreachable): property=%s %s" % (prop_id, k))

    distinct = len({(i.rule, i.site) for i in insts if i.nontrivial})
    by_rule = {}
    for i in insts:
        r = by_rule.setdefault(i.rule, {"instances": 0, "pass": 0, "finding": 0, "undecided": 0})
        r["instances"] += 1
        r[{"PASS": "pass", "FINDING": "finding", "UNDECIDED": "undecided"}[i.verdict]] += 1
    samples = []
    per_rule_sample = {}
    for i in insts:
        if per_rule_sample.get(i.rule, 0) < 2:
            per_rule_sample[i.rule] = per_rule_sample.get(i.rule, 0) + 1
            samples.append(i.as_dict())
    for f in findings[:10]:
        samples.append(f.as_dict())
    evidence = {
        "property_id": prop_id,
        "tier": tier,
        "seed": seed,
        "level": "other",
        "coverage": {
            "explanation": spec["explanation"],
            "not_decided": spec.get("not_decided", ""),
            "rule": "every rule instance (obligation) is one site of one rule: a table cell, a return path, a call site, "
                    "a store, a loop, a handler; an instance is non-trivial when its verdict depended on at least one fact "
                    "extracted from the repository source; distinct = distinct (rule, site) pairs",
            "obligations": len(insts),
            "discharged": len(passed),
            "known_findings": len(known_hits),
            "new_findings": len(violations),
            "undecided": len(undec),
            "evaluations": max(len(insts), 1),
            "distinct_nontrivial": distinct,
            "rules": by_rule,
            "analysed": stats,
            "notes": notes[:40],
            "samples": samples[:40],
            "exhaustive": False,
            "checker_cmd": "./check %s --tier %s" % (prop_id, tier),
            "trusted_base": ["CPython ast / re._parser", "reference tables under cocoverif/refs", "receiver family table (callgraph.FAMILY)"],
        },
        "assumptions": spec.get("assumptions", []),
        "wall_s": round(time.time() - t0, 3),
        "violations": len(violations),
    }
    os.makedirs(EVIDENCE_DIR, exist_ok=True)
    with open(os.path.join(EVIDENCE_DIR, "%s.json" % prop_id), "w") as fh:
        json.dump(evidence, fh, indent=1, default=str)
    print("%s %s: %d obligations, %d discharged, %d known findings, %d undecided, %d new findings, %.2fs"
          % (prop_id, tier, len(insts), len(passed), len(known_hits), len(undec), len(violations), time.time() - t0))
    return 1 if violations else 0
