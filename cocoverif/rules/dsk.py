"""DSK rules: Disk BASIC geometry, directory/FAT layout agreement, allocation, stream-length arithmetic."""
import ast
import re

from ..model import U, body_without_doc, AnalysisError
from ..consteval import try_fold, fold, NotConst
from ..absint import Interp, Ctor, Lin, Const, Opq, PathCap
from ..refs import diskbasic as D

CLS = "DiskFile"


def _consts(ctx):
    return {k.split(".", 1)[1]: v for k, v in ctx.env.items() if k.startswith("DiskConstants.")}


def _loc(ctx, name, node=None):
    f = ctx.repo.method(CLS, name)
    return ctx.repo.loc(f, node or f.node)


def dsk1(ctx, c):
    """DSK-1 geometry constants and seek_granule."""
    repo = ctx.repo
    K = _consts(ctx)
    mod = repo.cls("DiskConstants").module.rel
    want = {"FAT_OFFSET": D.FAT_OFFSET, "DIR_OFFSET": D.DIR_OFFSET, "HALF_TRACK_LEN": D.GRANULE_LEN, "SECTORS_PER_TRACK": D.SECTORS_PER_TRACK,
            "BYTES_PER_SECTOR": D.BYTES_PER_SECTOR, "TOTAL_GRANULES": D.GRANULES, "IMAGE_SIZE": D.IMAGE_SIZE}
    n = 0
    for k, v in want.items():
        if k not in K:
            c.undecided("DiskConstants.%s" % k, "constant-not-found", "", mod)
            continue
        n += 1
        used = any(re.search(r"\bDiskConstants\.%s\b" % k, m_.src) for m_ in repo.modules.values())
        if not used:
            c.ok("DiskConstants.%s" % k, "not referenced anywhere: its value has no effect", mod, nontrivial=False)
            continue
        c.check(K[k] == v, "DiskConstants.%s" % k, str(v), "%s (Disk BASIC: %d)" % (K[k], v), "DiskConstants.%s is %s, the Disk BASIC geometry gives %d" % (k, K[k], v), mod)
    c.floor("geometry constants", n, 5)
    # seek_granule: piecewise affine; evaluate for every granule
    fn = repo.method(CLS, "seek_granule")
    where = repo.loc(fn, fn.node)
    it = Interp(fn.node, consts=ctx.env)
    res = [o for o in it.run() if o.kind == "return"]
    param = [p for p in fn.params if p not in ("self", "cls")][0]

    def eval_path(o, g):
        for a, t in o.path.conds:
            m = re.fullmatch(r"%s (>|>=|<|<=|==|!=) (\w+)" % re.escape(param), a)
            if not m:
                return None
            try:
                k = int(m.group(2), 0)
            except ValueError:
                k = ctx.env.get(m.group(2))
                if not isinstance(k, int):
                    return None
            r = {">": g > k, ">=": g >= k, "<": g < k, "<=": g <= k, "==": g == k, "!=": g != k}[m.group(1)]
            if r != t:
                return False
        return True

    bad = None
    undec = False
    for g in range(D.GRANULES):
        vals = set()
        for o in res:
            ok = eval_path(o, g)
            if ok is None:
                undec = True
                break
            if ok:
                v = o.value
                if isinstance(v, Const):
                    vals.add(v.v)
                elif isinstance(v, Lin) and set(v.terms) <= {param}:
                    vals.add(v.terms.get(param, 0) * g + v.c)
                else:
                    undec = True
        if undec:
            break
        if vals != {D.granule_offset(g)}:
            bad = (g, sorted(vals), D.granule_offset(g))
            break
    if undec:
        c.undecided("seek_granule", "not-piecewise-affine", "", where)
    elif bad:
        c.finding("seek_granule", "granule %d -> %s (geometry %d)" % bad, "seek_granule(%d) gives %s, granule %d starts at byte %d (granules >= 34 lie after the directory track)" % (bad[0], bad[1], bad[0], bad[2]), where)
    else:
        c.ok("seek_granule", "offset correct for granules 0..67", where)


def dsk6(ctx, c):
    """DSK-6 fill order is a permutation of 0..67; the default order is what a new DiskFile uses."""
    K = _consts(ctx)
    mod = ctx.repo.cls("DiskConstants").module.rel
    order = K.get("GRANULE_FILL_ORDER")
    if not isinstance(order, list):
        c.undecided("GRANULE_FILL_ORDER", "not-a-constant-list", "", mod)
        return
    missing = sorted(set(range(D.GRANULES)) - set(order))
    dup = sorted({x for x in order if order.count(x) > 1})
    extra = sorted(x for x in set(order) if not (isinstance(x, int) and 0 <= x < D.GRANULES))
    c.check(not missing and not dup and not extra and len(order) == D.GRANULES, "GRANULE_FILL_ORDER", "permutation of 0..67",
            "len=%d missing=%s duplicated=%s out-of-range=%s" % (len(order), missing, dup, extra),
            "GRANULE_FILL_ORDER must offer each of the 68 granules exactly once: missing %s, duplicated %s, out of range %s" % (missing, dup, extra), mod)
    # the two granules of a track are offered lower half first, one after the other (Disk BASIC's order): a file that needs both halves of a track then lies in ascending
    # physical order, which is what write_to_granules relies on when the 5-byte trailer runs over the end of a granule into the bytes that follow it
    if not missing and not dup and not extra and len(order) == D.GRANULES:
        rev = [(2 * t_, 2 * t_ + 1) for t_ in range(D.GRANULES // 2) if order.index(2 * t_) > order.index(2 * t_ + 1)]
        c.check(not rev, "GRANULE_FILL_ORDER:track-halves", "first half of every track before its second half",
                "the second half is offered before the first for granule pairs %s" % rev[:4],
                "GRANULE_FILL_ORDER lists %s before %s (%d such pairs): a file that takes both is chained upper half first, and the trailer that write_to_granules lets run past the end of "
                "the last granule lands in the physically following granule - one that belongs to the same file's beginning or to another file" % (rev[0][1] if rev else "", rev[0][0] if rev else "", len(rev)), mod)
    # find_empty_granule iterates the instance's fill order and returns only granules that are not in use
    fn = ctx.repo.method(CLS, "find_empty_granule")
    where = ctx.repo.loc(fn, fn.node)
    loops = [n for n in ast.walk(fn.node) if isinstance(n, ast.For)]
    ok = False
    for lp in loops:
        if "fill_order" in U(lp.iter):
            for n in ast.walk(lp):
                if isinstance(n, ast.If) and isinstance(n.test, ast.UnaryOp) and isinstance(n.test.op, ast.Not) and "granule_in_use" in U(n.test) \
                        and n.body and isinstance(n.body[0], ast.Return) and U(n.body[0].value) == U(lp.target) \
                        and U(n.test.operand.args[0]) == U(lp.target):
                    ok = True
    # indexed form: for i in range(a, b): g = self.granule_fill_order[i] - the range must cover all 68 positions
    partial = None
    for lp in loops:
        if isinstance(lp.iter, ast.Call) and U(lp.iter.func) == "range" and re.search(r"fill_order\[%s\]" % re.escape(U(lp.target)), U(lp)):
            vals = [try_fold(a_, ctx.env) for a_ in lp.iter.args]
            if all(isinstance(v, int) for v in vals) and len(vals) in (1, 2):
                lo, hi = (0, vals[0]) if len(vals) == 1 else vals
                if lo > 0 or hi < D.GRANULES:
                    partial = "positions %d..%d" % (lo, hi - 1)
                else:
                    gv = next((U(a_.targets[0]) for a_ in ast.walk(lp) if isinstance(a_, ast.Assign) and re.search(r"fill_order\[%s\]$" % re.escape(U(lp.target)), U(a_.value))), None)
                    if gv and re.search(r"if not self\.granule_in_use\(%s\):\s+return %s\b" % (re.escape(gv), re.escape(gv)), U(lp)):
                        ok = True
        if isinstance(lp.iter, ast.Subscript) and "fill_order" in U(lp.iter.value) and isinstance(lp.iter.slice, ast.Slice):
            hi = try_fold(lp.iter.slice.upper, ctx.env) if lp.iter.slice.upper is not None else D.GRANULES
            lo = try_fold(lp.iter.slice.lower, ctx.env) if lp.iter.slice.lower is not None else 0
            if isinstance(hi, int) and isinstance(lo, int) and (lo > 0 or 0 <= hi < D.GRANULES):
                partial = "positions %d..%d" % (lo, hi - 1)
    # decided by folding the search on model allocation tables: the first granule of the fill order whose FAT byte is FF, an error when there is none
    from ..consteval import Raised as _Rfg
    fg_bad, fg_folded = None, True
    if isinstance(order, list) and len(order) == D.GRANULES:
        for free in (set(), {5}, {67}, {0, 40}, set(range(D.GRANULES)), {order[-1]}, {order[0], order[-1]}):
            buf_ = _SparseBuf()
            for g_ in range(D.GRANULES):
                buf_[D.FAT_OFFSET + g_] = 0xFF if g_ in free else 0xC1
            env0 = dict(ctx.env)
            env0.update({"self.buffer": buf_, "self.granule_fill_order": list(order)})
            want_ = next((g_ for g_ in order if g_ in free), None)
            try:
                got_ = _fold_disk_method(ctx, "find_empty_granule", env0, (), {})
            except _Rfg as e_:
                got_ = ("raises", e_.name)
            except (NotConst, Exception):
                fg_folded = False
                break
            if want_ is None and not (isinstance(got_, tuple) and got_[0] == "raises"):
                fg_bad = fg_bad or ("with no granule free the search answers %r instead of failing" % (got_,))
            elif want_ is not None and got_ != want_:
                fg_bad = fg_bad or ("with granules %s free the search answers %r (first free in fill order: %d)" % (sorted(free)[:5], got_, want_))
    else:
        fg_folded = False
    if fg_folded:
        if fg_bad:
            c.finding("find_empty_granule", fg_bad[:110], "find_empty_granule folded on model allocation tables: %s" % fg_bad, where)
        else:
            c.ok("find_empty_granule", "first free granule of the fill order, an error when none is free (7 model tables)", where)
            c.ok("find_empty_granule:exhaustion", "raises when nothing is free", where)
        return
    if partial:
        c.finding("find_empty_granule", "searches only %s of the fill order" % partial,
                  "find_empty_granule looks at %s of the 68-entry fill order: a free granule outside that window is never handed out and the disk reports full early" % partial, where)
        ok = None
    t_fe = U(fn.node)
    if ok is False and re.search(r"next\(\(?\(?(\w+) for \1 in self\.granule_fill_order if not self\.granule_in_use\(\1\)\)?", t_fe):
        ok = True
    if ok:
        c.ok("find_empty_granule", "returns the first granule of the fill order that is not in use", where)
    elif ok is False:
        rets = [U(n.value) for n in ast.walk(fn.node) if isinstance(n, ast.Return) and n.value is not None]
        if any("granule_in_use" in U(n) for n in ast.walk(fn.node)):
            c.undecided("find_empty_granule", "allocation-loop-shape-unknown", str(rets), where)
        elif any(isinstance(x, ast.Call) and U(x.func).startswith("self.") for x in ast.walk(fn.node)):
            c.undecided("find_empty_granule", "search-delegated-to-a-helper", str(rets)[:80], where)
        else:
            c.finding("find_empty_granule", "returns a granule without testing that it is free",
                      "find_empty_granule hands out a granule without a dominating `not granule_in_use(g)` test", where)
    last = body_without_doc(fn.node)[-1]
    if isinstance(last, ast.Raise):
        c.ok("find_empty_granule:exhaustion", "raises when nothing is free", where)
    elif any(isinstance(x, ast.Call) and U(x.func).startswith("self.") and not U(x.func).endswith("granule_in_use") for x in ast.walk(fn.node)):
        c.undecided("find_empty_granule:exhaustion", "search-delegated-to-a-helper", "", where)
    elif not any(isinstance(x, ast.Raise) and "fill_order" not in U(x) and "68" not in U(x) for x in ast.walk(fn.node)):
        c.finding("find_empty_granule:exhaustion", "no raise for an exhausted disk",
                  "find_empty_granule must fail with an error when no granule is free (the caller would otherwise use its return value as a granule)", where)
    else:
        c.undecided("find_empty_granule:exhaustion", "shape-not-recognised", "", where)


def _returned_tests(fn_node):
    return [n.value for n in ast.walk(fn_node) if isinstance(n, ast.Return) and n.value is not None]


def dsk7(ctx, c):
    """DSK-7 a granule is free iff its FAT byte is the free marker; allocation marks before the next search; slot search."""
    repo = ctx.repo
    K = _consts(ctx)
    fn = repo.method(CLS, "granule_in_use")
    where = repo.loc(fn, fn.node)
    from ..inline import flatten as _flatten7
    rets = _returned_tests(_flatten7(repo, fn, depth=2, exprs=True))        # an index computed by a one-expression helper is read in place
    verdict = None
    for r in rets:
        if isinstance(r, ast.Compare) and len(r.ops) == 1 and "FAT_OFFSET" in U(r.left) and "self.buffer" in U(r.left):
            op = r.ops[0]
            rhs = try_fold(r.comparators[0], ctx.env)
            if isinstance(op, ast.NotEq) and rhs == D.FAT_FREE:
                verdict = True
            elif isinstance(op, ast.NotIn) and isinstance(rhs, (list, tuple, set)):
                free_vals = sorted(rhs)
                verdict = ("treats FAT bytes %s as free" % ["%#04x" % v for v in free_vals]) if sorted(free_vals) != [D.FAT_FREE] else True
            elif isinstance(op, ast.Eq):
                verdict = "in use only when the FAT byte equals %s" % (rhs,)
            elif isinstance(op, ast.NotEq):
                verdict = "free marker %s (Disk BASIC: 0xFF)" % (rhs,)
    if verdict is True:
        c.ok("granule_in_use", "in use iff FAT byte != 0xFF", where)
    elif verdict is None:
        c.undecided("granule_in_use", "test-shape-unknown", str([U(r) for r in rets]), where)
    else:
        c.finding("granule_in_use", verdict, "granule_in_use %s; every FAT byte other than FF (00-43 = link to that granule, C0-C9 = last granule) marks a granule that is part of a file, "
                  "so e.g. a granule whose successor is granule 0 would be handed out again" % verdict, where)
    # the argument check accepts exactly the granules that exist
    from ..consteval import fold_body as _fb, Raised as _Raised, NotConst as _NC2
    gp = [p_ for p_ in fn.params if p_ != "self"][0]
    guards = [st for st in body_without_doc(fn.node) if isinstance(st, ast.If) and st.body and isinstance(st.body[-1], ast.Raise)]
    if guards:
        wrong = []
        try:
            for g_, legal in ((0, True), (1, True), (33, True), (66, True), (67, True), (68, False), (-1, False), (255, False)):
                e_ = dict(ctx.env)
                e_[gp] = g_
                try:
                    _fb(guards, e_)
                    raised = False
                except _Raised:
                    raised = True
                if raised == legal:
                    wrong.append((g_, raised))
            if wrong:
                c.finding("granule_in_use:range", "granule %d is %s" % (wrong[0][0], "rejected" if wrong[0][1] else "accepted"),
                          "granule_in_use %s granule number %d; the disk has granules 0..67, all of which must be usable and nothing else" % ("rejects" if wrong[0][1] else "accepts", wrong[0][0]), where)
            else:
                c.ok("granule_in_use:range", "accepts 0..67, rejects everything else", where)
        except _NC2 as e:
            c.undecided("granule_in_use:range", "guard-not-foldable", str(e), where)
    # a new image is all FF: every granule free, every directory slot never used
    init = repo.method(CLS, "__init__")
    fills = [n for n in ast.walk(init.node) if isinstance(n, ast.Assign) and U(n.targets[0]) == "self.buffer" and isinstance(n.value, ast.BinOp) and isinstance(n.value.op, ast.Mult)]
    for n in fills:
        lst, cnt = (n.value.left, n.value.right) if isinstance(n.value.left, ast.List) else (n.value.right, n.value.left)
        fv = try_fold(lst.elts[0], ctx.env) if isinstance(lst, ast.List) and len(lst.elts) == 1 else None
        cv = try_fold(cnt, ctx.env)
        if fv is None or cv is None:
            c.undecided("DiskFile.__init__:blank", "fill-not-foldable", U(n.value), repo.loc(init, n))
        else:
            c.check(fv == D.FAT_FREE and cv == D.IMAGE_SIZE, "DiskFile.__init__:blank", "a new image is %d bytes of FF" % D.IMAGE_SIZE, "a new image is %d bytes of %#04x" % (cv, fv),
                    "a new DiskFile starts as %d bytes of %02X; a blank disk is %d bytes of FF (FF in the FAT = free granule, FF in the directory = never used)" % (cv, fv & 0xFF, D.IMAGE_SIZE),
                    repo.loc(init, n))
    # index of the FAT byte: FAT_OFFSET + granule
    for r in rets:
        if isinstance(r, ast.Compare):
            sub = r.left
            if isinstance(sub, ast.Subscript):
                it = Interp(ast.parse("def f(self, g):\n    return 0").body[0], consts=ctx.env)
                from ..absint import Path
                p = Path()
                param = [x for x in fn.params if x != "self"][0]
                vals = it.ev(p, sub.slice)
                v = vals[0][1] if len(vals) == 1 else None
                good = isinstance(v, Lin) and v.terms == {param: 1} and v.c == D.FAT_OFFSET
                c.check(good, "granule_in_use:index", "FAT byte at FAT_OFFSET + granule", "FAT byte index %s" % (v,),
                        "granule_in_use looks at buffer[%s], the FAT entry of granule g is at %d + g" % (U(sub.slice), D.FAT_OFFSET), where)
    # allocation loop in add_file
    af = repo.method(CLS, "add_file")
    wa = repo.loc(af, af.node)
    from ..inline import flatten as _flatten
    af_flat = _flatten(repo, af, depth=2, exprs=True, only={m_ for m_ in repo.cls(CLS).methods if m_ not in ("write_to_granules", "write_dir_entry", "write_to_fat", "find_empty_granule", "find_empty_directory_entry",
                                                                                                    "calculate_granules_needed", "calculate_last_sector_bytes_used", "calculate_last_granules_sectors_used")})
    found = False
    for n in ast.walk(af_flat):
        if isinstance(n, ast.While):
            calls = [U(x.func) for x in ast.walk(n) if isinstance(x, ast.Call)]
            if "self.find_empty_granule" in calls:
                found = True
                gvar = None
                marked = None
                order = []
                for st in n.body:
                    if isinstance(st, ast.Assign) and isinstance(st.value, ast.Call) and U(st.value.func) == "self.find_empty_granule":
                        gvar = U(st.targets[0])
                        order.append("alloc")
                    if isinstance(st, ast.Assign) and isinstance(st.targets[0], ast.Subscript) and U(st.targets[0].value) == "self.buffer" and gvar and gvar in U(st.targets[0].slice):
                        idx = U(st.targets[0].slice)
                        mval = try_fold(st.value, ctx.env)
                        marked = (idx, mval)
                        order.append("mark")
                if marked is None and gvar is None:
                    # the granule is not bound to a local of its own (appended directly, marked through list[-1] ...): DSK-8 folds add_file on model disks and
                    # reports a loop that hands out one granule twice
                    c.undecided("add_file:allocation", "allocation-loop-shape-not-recognised", "decided by DSK-8 add_file:allocation:fit", wa)
                elif marked is None:
                    c.finding("add_file:allocation", "allocated granule not marked before the next search",
                              "add_file allocates granules in a loop without marking each one in the FAT, so find_empty_granule returns the same granule again", wa)
                else:
                    idx_ok = re.fullmatch(r"DiskConstants\.FAT_OFFSET \+ %s|%s \+ DiskConstants\.FAT_OFFSET" % (re.escape(gvar), re.escape(gvar)), marked[0]) is not None
                    mv = marked[1]
                    val_ok = isinstance(mv, int) and mv != D.FAT_FREE and 0 <= mv <= 255
                    c.check(idx_ok and val_ok, "add_file:allocation", "marked in the FAT before the next search",
                            "mark buffer[%s] = %s" % (marked[0], mv), "add_file marks buffer[%s] = %s; the mark must be the granule's FAT byte and differ from the free marker FF" % (marked[0], mv), wa)
                # loop bound: granules_needed
                c.shape("granules_needed" in U(n.test) or "calculate_granules_needed" in U(n.test), "add_file:allocation-count", "allocates granules_needed granules", "loop test %s" % U(n.test), wa)
    if not found:
        # allocation without the per-granule loop: the list handed to the writer must be proven to hold granules_needed entries
        wcall = next((n for n in ast.walk(af.node) if isinstance(n, ast.Call) and U(n.func).endswith(".write_to_granules") and len(n.args) >= 2), None)
        lst = U(wcall.args[1]) if wcall is not None else None
        scope = [af]
        src = None
        for n in ast.walk(af.node):
            if isinstance(n, ast.Assign) and lst and U(n.targets[0]) == lst:
                src = n.value
        if isinstance(src, ast.Call) and U(src.func).startswith("self.") and repo.lookup(repo.cls(CLS), U(src.func)[5:]):
            scope.append(repo.lookup(repo.cls(CLS), U(src.func)[5:]))
        guard = False
        sliced = False
        for f_ in scope:
            for n in ast.walk(f_.node):
                if isinstance(n, ast.Subscript) and isinstance(n.slice, ast.Slice) and n.slice.lower is None and n.slice.upper is not None and "needed" in U(n.slice.upper):
                    sliced = True
                if isinstance(n, ast.If) and n.body and isinstance(n.body[-1], ast.Raise) and isinstance(n.test, ast.Compare) and "len(" in U(n.test) and "needed" in U(n.test):
                    guard = True
        if sliced and not guard:
            c.finding("add_file:allocation", "takes the first n free granules without checking that n were free",
                      "add_file allocates by slicing the list of free granules to granules_needed entries and only fails when none is free: with fewer free granules than needed the file is "
                      "stored truncated and no error is raised", wa)
        elif sliced and guard:
            c.ok("add_file:allocation", "slice of the free list, guarded by a length comparison", wa)
        else:
            c.undecided("add_file:allocation", "allocation-shape-unknown", "", wa)
    # directory slot search and the full-directory error
    fe = repo.method(CLS, "find_empty_directory_entry")
    we = repo.loc(fe, fe.node)
    loops = [n for n in ast.walk(fe.node) if isinstance(n, ast.For)]
    rng = None
    for lp in loops:
        if isinstance(lp.iter, ast.Call) and U(lp.iter.func) == "range":
            vals = [try_fold(a, ctx.env) for a in lp.iter.args]
            if all(isinstance(v, int) for v in vals):
                rng = (vals[0], vals[1]) if len(vals) == 2 else (0, vals[0])
    if rng is None:
        c.undecided("find_empty_directory_entry", "range-not-found", "", we)
    else:
        if rng[0] == 0 and D.GRANULES <= rng[1] <= D.DIR_ENTRIES:
            c.ok("find_empty_directory_entry", "scans slots 0..%d (>= 68 needed, <= 72 exist)" % (rng[1] - 1), we)
            if rng[1] < D.DIR_ENTRIES:
                c.note("directory scan covers %d of 72 slots; with 68 granules no image written by the tool can need more than 68" % rng[1])
        else:
            c.finding("find_empty_directory_entry", "scans slots %d..%d" % (rng[0], rng[1] - 1),
                      "find_empty_directory_entry scans slots %d..%d; it must start at 0, cover at least 68 slots (one per granule) and stay within the 72 that exist" % (rng[0], rng[1] - 1), we)
    # the search folded on model directories: the answer is the FIRST slot not in use (killed slots in the middle are reused), -1 only when none is free
    from ..consteval import Raised as _Rfe
    fe_bad, fe_und = None, None
    scanned = rng[1] if rng else D.DIR_ENTRIES - 1
    for used in (set(), {0, 1, 2}, {0, 1, 5}, {1}, {69, 70}, {0, 70}, set(range(2, 72)), set(range(72))):
        want_ = next((n_ for n_ in range(0, scanned) if n_ not in used), -1)
        try:
            got_ = _fold_disk_method(ctx, "find_empty_directory_entry", dict(ctx.env), (), {"directory_entry_in_use": (lambda n_, _u=used: n_ in _u)})
        except _Rfe as e_:
            got_ = "raises %s" % e_.name
        except (NotConst, Exception) as e_:
            fe_und = str(e_)[:80]
            break
        if got_ != want_:
            fe_bad = fe_bad or (sorted(used)[:6], len(used), got_, want_)
    if fe_und:
        c.undecided("find_empty_directory_entry:first-free", "not-foldable", fe_und, we)
    elif fe_bad:
        c.finding("find_empty_directory_entry:first-free", "with slots %s%s in use the search answers %s" % (fe_bad[0], "..." if fe_bad[1] > 6 else "", fe_bad[2]),
                  "find_empty_directory_entry, folded on a directory whose slots %s%s are in use, answers %s; the first slot not in use is %s - a directory with killed entries in "
                  "the middle is reported full (or a live entry is overwritten)" % (fe_bad[0], "..." if fe_bad[1] > 6 else "", fe_bad[2], fe_bad[3]), we)
    else:
        c.ok("find_empty_directory_entry:first-free", "first slot not in use on 8 model directories", we)
    # add_file raises when -1
    raised = False
    for n in ast.walk(af_flat):
        if isinstance(n, ast.If) and "-1" in U(n.test) and n.body and isinstance(n.body[-1], ast.Raise):
            raised = True
    slot_calls = [x for x in ast.walk(af_flat) if isinstance(x, ast.Call) and U(x.func).endswith("find_empty_directory_entry")]
    if raised:
        c.ok("add_file:directory-full", "raises when no slot is free", wa)
    elif slot_calls and not any(isinstance(x, ast.Raise) for x in ast.walk(af_flat)):
        c.finding("add_file:directory-full", "no raise on a full directory", "add_file does not fail when find_empty_directory_entry reports no free slot", wa)
    else:
        c.undecided("add_file:directory-full", "shape-not-recognised", "", wa)
    # the slot written is the one the free-slot search returned, nothing else: any alternative source can name an entry in use,
    # whose file then disappears from the directory while its granules stay allocated
    for n in ast.walk(af_flat):
        if isinstance(n, ast.Assign) and any(x in slot_calls for x in ast.walk(n.value)):
            if n.value in slot_calls:
                c.ok("add_file:directory-slot", "the slot is the result of the free-slot search", repo.loc(af, n))
            elif any(isinstance(x, (ast.GeneratorExp, ast.ListComp, ast.IfExp, ast.BoolOp)) for x in ast.walk(n.value)):
                c.finding("add_file:directory-slot", "the slot can come from somewhere other than the free-slot search",
                          "add_file takes the directory slot from `%s`: a slot that is in use can be chosen, the file stored there vanishes from the directory "
                          "and its granules stay marked in the FAT" % U(n.value)[:90], repo.loc(af, n))
            else:
                c.undecided("add_file:directory-slot", "slot-source-not-recognised", U(n.value)[:80], repo.loc(af, n))
    # every definition of the slot variable that reaches write_dir_entry is the free-slot search
    wd_calls = [x for x in ast.walk(af_flat) if isinstance(x, ast.Call) and U(x.func).endswith(".write_dir_entry") and x.args and isinstance(x.args[0], ast.Name)]
    if wd_calls:
        sv = wd_calls[0].args[0].id
        defs = [n for n in ast.walk(af_flat) if isinstance(n, ast.Assign) and U(n.targets[0]) == sv]
        def from_search(value, depth=0):
            if any(x in slot_calls for x in ast.walk(value)) or isinstance(value, ast.Constant):
                return True
            if isinstance(value, ast.Name) and depth < 4:
                ds = [n for n in ast.walk(af_flat) if isinstance(n, ast.Assign) and U(n.targets[0]) == value.id]
                return bool(ds) and all(from_search(d.value, depth + 1) for d in ds)
            return False
        other = [n for n in defs if not from_search(n.value)]
        if other:
            c.finding("add_file:directory-slot", "the slot can come from somewhere other than the free-slot search",
                      "add_file also takes the directory slot from `%s`: a slot that is in use can be chosen, the file stored there vanishes from the directory "
                      "and its granules stay marked in the FAT" % U(other[0].value)[:90], repo.loc(af, other[0]))
    # directory_entry_in_use: 0x00 and 0xFF free
    du = repo.method(CLS, "directory_entry_in_use")
    for r in _returned_tests(du.node):
        if isinstance(r, ast.Compare) and isinstance(r.ops[0], ast.NotIn):
            vals = try_fold(r.comparators[0], ctx.env)
            c.check(sorted(vals or []) == [0x00, 0xFF], "directory_entry_in_use", "free iff first byte is 00 or FF", "free markers %s" % (vals,),
                    "directory_entry_in_use treats first bytes %s as free; Disk BASIC uses 00 (deleted) and FF (never used)" % (vals,), repo.loc(du, du.node))
            idx = U(r.left)
            if isinstance(r.left, ast.Name):
                for a_ in ast.walk(du.node):
                    if isinstance(a_, ast.Assign) and U(a_.targets[0]) == r.left.id:
                        idx = U(a_.value)
            for cn, cv in ctx.env.items():
                if isinstance(cv, int) and "." in cn and cn in idx:
                    idx = idx.replace(cn, str(cv))
            m = re.search(r"\((\d+) \* \w+\)|\(\w+ \* (\d+)\)|(\d+) \* \w+|\w+ \* (\d+)", idx)
            stride = int(next(g for g in m.groups() if g)) if m else None
            if stride is None:
                c.undecided("directory_entry_in_use:index", "index-not-recognised", idx, repo.loc(du, du.node))
            else:
                c.check(stride == D.DIR_ENTRY_LEN and ("DIR_OFFSET" in idx or str(D.DIR_OFFSET) in idx), "directory_entry_in_use:index", "DIR_OFFSET + 32 * n", "index %s" % idx,
                        "directory_entry_in_use looks at buffer[%s]; entry n starts at DIR_OFFSET + 32 n" % idx, repo.loc(du, du.node))


def _stores_of(ctx, name, init_env=None, **kw):
    fn = ctx.repo.method(CLS, name)
    it = Interp(fn.node, consts=ctx.env, sub_bases=("self.buffer",), loop_summary=True, init_env=init_env or {}, **kw)
    return fn, it.run()


def _flatten_stores(stores):
    """-> list of (offset Lin, count_lo, count_hi, value AV, node)"""
    out = []
    for st in stores:
        if st[0] == "store":
            out.append((st[1], 1, 1, st[2], st[3]))
        else:
            _, lo, hi, body, deltas, node = st
            for b in body:
                if b[0] == "store":
                    out.append((b[1], lo, hi, b[2], node))
    return out


def dsk2(ctx, c):
    """DSK-2 directory entry: writer layout = Disk BASIC layout = reader layout; every field write is bounded."""
    repo = ctx.repo
    fn, res = _stores_of(ctx, "write_dir_entry")
    where = repo.loc(fn, fn.node)
    # a NUL in the name (cassette names are sometimes NUL padded) is stored as a blank: a first byte of 00 marks the entry as deleted, so the
    # file would vanish from the directory while its granules stay allocated
    from ..inline import flatten as _flw
    wflat = _flw(repo, fn, depth=2)
    wtxt = U(wflat)
    # decided by folding the per-character expression where there is one
    from ..consteval import fold as _fch, NotConst as _Nch
    char_done = False
    for lp_ in [n for n in ast.walk(wflat) if isinstance(n, ast.For) and isinstance(n.target, ast.Name) and re.search(r"\.name\b", U(n.iter))]:
        stores_ = [x for x in lp_.body if isinstance(x, ast.Assign) and isinstance(x.targets[0], ast.Subscript) and U(x.targets[0].value) == "self.buffer"]
        if len(stores_) != 1:
            continue
        try:
            tbl_ = {ch: _fch(stores_[0].value, dict(ctx.env, **{lp_.target.id: ch})) for ch in ("A", "z", "\0", ".", "/", ":", "-", "_", " ", "1")}
        except _Nch:
            continue
        char_done = True
        changed = sorted(ch for ch, v_ in tbl_.items() if ch != "\0" and v_ != ord(ch))
        if tbl_["\0"] in (0x00, 0xFF):
            c.finding("write_dir_entry:nul", "the characters of the name are stored as they are, NUL included",
                      "write_dir_entry stores a NUL of the name as %#04x: a name that begins with NUL gives an entry whose first byte marks it as free - the file is not listed, the next "
                      "file reuses the slot, the granules leak" % tbl_["\0"], where)
        else:
            c.ok("write_dir_entry:nul", "a NUL in the name is stored as a blank", where)
        if changed:
            c.finding("write_dir_entry:name-characters", "the characters %s of a name are stored as something else" % " ".join(repr(x) for x in changed),
                      "write_dir_entry replaces %s in a file name (%s): list_files drops blanks from the stored name, so the file comes back under another name than it was added with "
                      "and --files no longer selects it" % (", ".join(repr(x) for x in changed), ", ".join("%r -> %#04x" % (x, tbl_[x]) for x in changed)), where)
        else:
            c.ok("write_dir_entry:name-characters", "every character but NUL is stored as itself", where)
        break
    if not char_done and "ord(" in wtxt and (".name" in wtxt):
        maps_nul = re.search(r"!= 0\b|== 0\b|!= 0x00|\bor ord\(' '\)|\bor 32\b|\bor 0x20\b|replace\('\\x00'|replace\(\"\\x00\"|NUL|!= '\\x00'|== '\\x00'", wtxt) is not None
        if maps_nul:
            c.ok("write_dir_entry:nul", "a NUL in the name is stored as a blank", where)
        else:
            c.finding("write_dir_entry:nul", "the characters of the name are stored as they are, NUL included",
                      "write_dir_entry stores ord(letter) for every character of the name: a name that begins with NUL gives an entry whose first byte is 00, which "
                      "directory_entry_in_use and list_files read as a deleted entry - the file is not listed, the next file reuses the slot, the granules leak", where)
    # the reader takes every name the writer stores: write_dir_entry stores any character, so an entry refused for the TEXT of its name is an image of the
    # tool's own making that it no longer recognises as a disk (get_coco_files reads the refusal as "not a disk")
    lfr = repo.method(CLS, "list_files")
    from ..inline import flatten as _flr
    lfr_flat = _flr(repo, lfr, depth=2, only={m_ for m_ in repo.cls(CLS).methods if m_ not in ("read_data", "seek_granule", "read_sequence", "calculate_file_length")})
    STRPRED = ("isalnum", "isalpha", "isprintable", "isascii", "isupper", "islower", "isidentifier", "isdigit", "isspace", "istitle", "isnumeric", "isdecimal")
    text_guard = []
    for n in ast.walk(lfr_flat):
        if isinstance(n, ast.If) and n.body and isinstance(n.body[-1], ast.Raise):
            preds = [x for x in ast.walk(n.test) if isinstance(x, ast.Call) and isinstance(x.func, ast.Attribute) and x.func.attr in STRPRED]
            rx = [x for x in ast.walk(n.test) if isinstance(x, ast.Call) and U(x.func).startswith("re.")]
            if preds or rx:
                text_guard.append(n)
    if text_guard:
        c.finding("list_files:name-text", "an entry is refused for the text of a field (%s)" % U(text_guard[0].test)[:50],
                  "list_files raises when `%s`: write_dir_entry stores whatever name it is given, so a disk written by the tool with such a name is refused, and get_coco_files "
                  "then takes the image for something other than a disk" % U(text_guard[0].test)[:70], repo.loc(lfr, text_guard[0]))
    else:
        c.ok("list_files:name-text", "no entry is refused for the characters of its name", repo.loc(lfr, lfr.node))
    # write_dir_entry folded for sample names: bytes 0..10 of the entry are the name and extension, upper-cased, blank padded / cut, with NUL stored as a blank.
    # (the fold may stop at a later statement it cannot evaluate; the eleven bytes are judged only when all of them were stored before that point)
    wparams = [p_ for p_ in fn.params if p_ != "self"]
    if len(wparams) >= 4:
        pf_ = wparams[1]
        nm_bad, nm_und = None, None
        for name_, ext_ in (("HELLO", "BIN"), ("hello", "bas"), ("LONGFILENAME", "TEXT"), ("", ""), ("\x00AB", "BIN"), ("\x00\x00\x00\x00\x00\x00\x00\x00", "\x00\x00\x00"), ("A B", "B"), ("NAME.1", "X")):
            buf_ = _SparseBuf()
            slot_ = 3
            env0 = dict(ctx.env)
            env0.update({"self.buffer": buf_, "%s.name" % pf_: name_, "%s.extension" % pf_: ext_, "%s.type.int" % pf_: 2, "%s.data_type.int" % pf_: 0})
            try:
                _fold_disk_method(ctx, "write_dir_entry", env0, (slot_, "<file>", 5, 17), {})
            except Exception:
                pass
            base_ = D.DIR_OFFSET + D.DIR_ENTRY_LEN * slot_
            if not all((base_ + i_) in buf_ for i_ in range(11)):
                nm_und = nm_und or "the eleven name bytes were not all stored for %r" % name_
                continue
            got_ = [buf_[base_ + i_] for i_ in range(11)]
            want_ = [0x20 if ch_ == "\x00" else ord(ch_) for ch_ in (name_.ljust(8)[:8] + ext_.ljust(3)[:3]).upper()]
            if got_ != want_:
                nm_bad = nm_bad or (name_, ext_, got_, want_)
        # ... and at the place of the slot: entry n starts at DIR_OFFSET + 32 n for every n the writer hands out
        pos_bad = None
        for slot_ in (0, 7, 8, 9, 20, 70):
            buf_ = _SparseBuf()
            env0 = dict(ctx.env)
            env0.update({"self.buffer": buf_, "%s.name" % pf_: "HELLO", "%s.extension" % pf_: "BIN", "%s.type.int" % pf_: 2, "%s.data_type.int" % pf_: 0})
            try:
                _fold_disk_method(ctx, "write_dir_entry", env0, (slot_, "<file>", 5, 17), {})
            except Exception:
                pass
            keys_ = sorted(k_ for k_ in buf_ if isinstance(k_, int))
            base_ = D.DIR_OFFSET + D.DIR_ENTRY_LEN * slot_
            if keys_ and len(keys_) >= 11 and keys_[0] != base_:
                pos_bad = pos_bad or (slot_, keys_[0], base_)
        if pos_bad:
            c.finding("write_dir_entry:position", "entry %d is written at offset %d (it starts at %d)" % pos_bad,
                      "write_dir_entry, folded for directory slot %d, stores the entry from buffer offset %d on; slot n of the directory starts at DIR_OFFSET + 32 n = %d, so the entry lands "
                      "on top of another slot and the file is not where the reader looks for it" % pos_bad, where)
        else:
            c.ok("write_dir_entry:position", "entry n at DIR_OFFSET + 32 n for 6 slots", where)
        if nm_bad:
            c.finding("write_dir_entry:name-bytes", "the name %r / %r is stored as %s" % (nm_bad[0], nm_bad[1], " ".join("%02X" % (x if isinstance(x, int) else 0) for x in nm_bad[2])),
                      "write_dir_entry, folded for the name %r and extension %r, stores %s in the entry's first eleven bytes; the format has %s (upper case, blank padded, and a NUL stored as a "
                      "blank: a first byte of 00 marks the entry as killed, the file would vanish while its granules stay allocated)"
                      % (nm_bad[0], nm_bad[1], nm_bad[2], " ".join("%02X" % x for x in nm_bad[3])), where)
        elif nm_und:
            c.undecided("write_dir_entry:name-bytes", "not-foldable", nm_und, where)
        else:
            c.ok("write_dir_entry:name-bytes", "name and extension bytes folded for 8 sample names", where)
    # the name and extension bytes come from the file's own name and extension, padded / cut / upper-cased and nothing else:
    # a default substituted for an empty one stores a different name than the one asked for
    binds = {}
    for n in ast.walk(fn.node):
        if isinstance(n, ast.Assign) and len(n.targets) == 1 and isinstance(n.targets[0], ast.Name):
            binds.setdefault(n.targets[0].id, []).append(n.value)
    for n in ast.walk(fn.node):
        if isinstance(n, ast.For):
            srcs = [n.iter] + [v for x in ast.walk(n.iter) if isinstance(x, ast.Name) and len(binds.get(x.id, [])) == 1 for v in binds[x.id]]
            for fld in ("name", "extension"):
                if any(re.search(r"\.%s\b" % fld, U(e)) for e in srcs):
                    subst = [b for e in srcs for b in ast.walk(e) if isinstance(b, (ast.BoolOp, ast.IfExp)) and re.search(r"\.%s\b" % fld, U(b))]
                    if subst:
                        c.finding("write_dir_entry:%s:source" % fld, "a substitute is stored when the %s is empty" % fld,
                                  "write_dir_entry takes the %s bytes from `%s`: a file whose %s is empty is stored under an invented one and lists back "
                                  "differently from what was added" % (fld, U(subst[0])[:70], fld), repo.loc(fn, n))
                    else:
                        c.ok("write_dir_entry:%s:source" % fld, "the file's own %s" % fld, repo.loc(fn, n))
    params = [p for p in fn.params if p != "self"]
    if len(params) < 4:
        c.undecided("write_dir_entry", "signature-changed", str(params), where)
        return
    p_entry, p_file, p_gran, p_bytes = params[:4]
    want = [("name", 0, 8), ("ext", 8, 3), ("type", 11, 1), ("ascii", 12, 1), ("first_granule", 13, 1),
            ("last_sector_bytes_hi", 14, 1), ("last_sector_bytes_lo", 15, 1), ("reserved", 16, 16)]
    falls = [o for o in res if o.kind in ("fall", "return")]
    c.floor("write_dir_entry paths", len(falls), 1)
    judged = set()
    for o in falls:
        st = _flatten_stores(o.path.env.get("$stores", ()))
        st.sort(key=lambda x: x[0].c if isinstance(x[0], Lin) else 0)
        got = []
        for off, lo, hi, val, node in st:
            if isinstance(off, Lin) and set(off.terms) == {p_entry} and off.terms[p_entry] != D.DIR_ENTRY_LEN:
                k2 = ("stride", off.terms[p_entry])
                if k2 not in judged:
                    judged.add(k2)
                    c.finding("write_dir_entry:stride", "entry n is written at DIR_OFFSET %+d * n" % off.terms[p_entry],
                              "write_dir_entry places entry n at %d bytes per entry from the start of the directory; directory entries are 32 bytes apart, so every entry but the "
                              "first overlaps or misses its slot" % off.terms[p_entry], repo.loc(fn, node))
                continue
            if not (isinstance(off, Lin) and off.terms == {p_entry: D.DIR_ENTRY_LEN}):
                c.undecided("write_dir_entry:store", "offset-not-entry-relative", repr(off), repo.loc(fn, node))
                continue
            got.append((off.c - D.DIR_OFFSET, lo, hi, val, node))
        for (fname, woff, wlen), g in zip(want, got):
            site = "write_dir_entry:%s" % fname
            rel, lo, hi, val, node = g
            fact_ok = "@%d len %d" % (woff, wlen)
            if hi is None or isinstance(lo, tuple):
                key = (site, "unbounded")
                if key not in judged:
                    judged.add(key)
                    c.finding(site, "unbounded write starting @%d" % rel,
                              "write_dir_entry writes the %s field with no upper bound on its length (field is %d bytes): a longer value shifts every later field of the entry" % (fname, wlen), repo.loc(fn, node))
                continue
            good = rel == woff and lo == hi == wlen
            key = (site, rel, lo, hi)
            if key in judged:
                continue
            judged.add(key)
            c.check(good, site, fact_ok, "@%d len %s..%s (Disk BASIC: @%d len %d)" % (rel, lo, hi, woff, wlen),
                    "write_dir_entry stores the %s field at entry offset %d, length %s..%s; Disk BASIC has it at %d, length %d" % (fname, rel, lo, hi, woff, wlen), repo.loc(fn, node))
            # content
            vt = repr(val)
            content = {"type": r"%s\.type\.int" % re.escape(p_file), "ascii": r"%s\.data_type\.int" % re.escape(p_file), "first_granule": re.escape(p_gran)}.get(fname)
            if content:
                k2 = (site + ":content", vt)
                if k2 not in judged:
                    judged.add(k2)
                    c.check(re.search(content, vt) is not None, site + ":content", "from %s" % content.replace("\\", ""), "stores %s" % vt[:50],
                            "write_dir_entry stores %s in the %s field" % (vt[:60], fname), repo.loc(fn, node))
            if fname.startswith("last_sector_bytes"):
                src = o.path.env.get(vt.strip("<>").split(".")[0])
                half = "high_byte" if fname.endswith("hi") else "low_byte"
                k2 = (site + ":content", vt)
                if k2 not in judged:
                    judged.add(k2)
                    okc = half in vt and (src is None or p_bytes in repr(src))
                    c.check(okc, site + ":content", "%s of the byte count" % half, "stores %s (from %s)" % (vt[:40], repr(src)[:40]),
                            "write_dir_entry stores %s in the %s byte of the last-sector byte count" % (vt[:60], "high" if half == "high_byte" else "low"), repo.loc(fn, node))
            if fname == "reserved" and isinstance(val, Const):
                pass
        if not got:
            k2 = ("count", 0)
            if k2 not in judged:
                judged.add(k2)
                c.undecided("write_dir_entry:fields", "no store into the buffer recognised (fields written through another idiom)", "", where)
        elif len(got) != len(want):
            k2 = ("count", len(got))
            if k2 not in judged:
                judged.add(k2)
                c.finding("write_dir_entry:fields", "%d field stores (Disk BASIC entry has %d)" % (len(got), len(want)),
                          "write_dir_entry performs %d field stores, the 32-byte entry has %d fields" % (len(got), len(want)), where)
    # ---- reader: the per-entry body of list_files
    lf = repo.method(CLS, "list_files")
    wl = repo.loc(lf, lf.node)
    loop = None
    for n in ast.walk(lf.node):
        if isinstance(n, ast.For) and any(isinstance(x, ast.Subscript) and U(x.value) == "self.buffer" for x in ast.walk(n)):
            loop = n
            break
    if loop is None:
        c.undecided("list_files", "entry-loop-not-found", "", wl)
        return
    cnt = None
    if isinstance(loop.iter, ast.Call) and U(loop.iter.func) == "range" and 1 <= len(loop.iter.args) <= 2:
        rv = [try_fold(a_, ctx.env) for a_ in loop.iter.args]
        if all(isinstance(v, int) for v in rv):
            cnt = rv[0] if len(rv) == 1 else rv[1] - rv[0]
    c.check(cnt == D.DIR_ENTRIES, "list_files:entries", "72 entries scanned", "%s entries scanned" % cnt, "list_files scans %s directory entries, the directory has 72" % cnt, wl)
    synth = ast.FunctionDef(name="entry", args=ast.arguments(posonlyargs=[], args=[ast.arg(arg="self")], kwonlyargs=[], kw_defaults=[], defaults=[]),
                            body=loop.body, decorator_list=[], lineno=loop.lineno)
    it = Interp(synth, consts=ctx.env, sub_bases=("self.buffer",), init_env={"pointer": Opq("E")},
                call_ctors=("self.read_sequence", "self.read_word", "self.seek_granule", "self.read_data", "self.calculate_file_length"))
    try:
        outs = it.run()
    except PathCap as e:
        c.undecided("list_files", "path-cap", str(e), wl)
        return
    rwant = {"name": (0, 8), "extension": (8, 3), "type": (11, None), "data_type": (12, None)}
    seen = set()
    nfile = 0
    for o in outs:
        if o.kind != "fall":
            continue
        pv = o.path.env.get("pointer")
        adv = pv.c if isinstance(pv, Lin) and pv.terms == {"E": 1} else None
        k = ("adv", adv)
        if k not in seen:
            seen.add(k)
            all_advs = {(x.path.env.get("pointer").c if isinstance(x.path.env.get("pointer"), Lin) and x.path.env.get("pointer").terms == {"E": 1} else None)
                        for x in outs if x.kind == "fall"}
            unchanged = adv == 0 or (adv is None and repr(pv) == "<E>")
            if unchanged and any(isinstance(a_, int) and a_ > 0 for a_ in all_advs):
                c.finding("list_files:advance", "one path through the loop body leaves the running pointer where it was",
                          "list_files walks the directory with a running pointer, but on one path (a free entry) the pointer is not advanced: every later iteration looks at the same "
                          "entry again, so the files stored behind a deleted or unused entry are never listed", wl)
            elif adv is None or adv == 0:
                # no running pointer (entries addressed as base + 32 * n, judged through the field offsets below)
                c.undecided("list_files:advance", "no-running-pointer", repr(pv), wl)
            else:
              c.check(adv == D.DIR_ENTRY_LEN, "list_files:advance", "32 per entry", "advances %s per entry" % (repr(pv) if adv is None else adv),
                    "list_files advances %s bytes over a directory entry of 32" % (repr(pv) if adv is None else adv), wl)
        cf = o.path.env.get("coco_file")
        if not (isinstance(cf, Ctor) and cf.cls == "CoCoFile"):
            continue
        nfile += 1
        for kwn, (woff, wlen) in rwant.items():
            v = cf.kw.get(kwn)
            off = ln = None
            txt = repr(v)
            m = re.search(r"call:self\.read_sequence\(Lin\(E\+?(-?\d*)\), Const\((0x[0-9a-f]+)\)", txt)
            if m:
                off = int(m.group(1) or 0)
                ln = int(m.group(2), 16)
            else:
                m = re.search(r"call:self\.read_sequence\(<E>, Const\((0x[0-9a-f]+)\)", txt)
                if m:
                    off, ln = 0, int(m.group(1), 16)
                m2 = re.search(r"sub\(<self\.buffer>, Lin\(E\+(\d+)\)\)", txt)
                if m2 and not m:
                    off = int(m2.group(1))
            k = (kwn, off, ln)
            if k in seen:
                continue
            seen.add(k)
            if off is None:
                c.undecided("list_files:%s" % kwn, "offset-not-extractable", txt[:60], wl)
            else:
                c.check(off == woff and (wlen is None or ln == wlen), "list_files:%s" % kwn, "@%d" % woff, "reads @%s len %s (entry has it @%d%s)" % (off, ln, woff, " len %d" % wlen if wlen else ""),
                        "list_files takes CoCoFile.%s from entry offset %s, Disk BASIC stores it at %d" % (kwn, off, woff), wl)
        # first granule and last-sector bytes
        sg = o.path.env.get("starting_granule")
        bl = o.path.env.get("bytes_in_last_sector")
        for nm, v, woff in (("first_granule", sg, 13), ("last_sector_bytes", bl, 14)):
            txt = repr(v)
            m = re.search(r"Lin\(E\+(\d+)\)", txt)
            off = int(m.group(1)) if m else None
            k = (nm, off)
            if k in seen:
                continue
            seen.add(k)
            if off is None:
                c.undecided("list_files:%s" % nm, "offset-not-extractable", txt[:60], wl)
            else:
                c.check(off == woff, "list_files:%s" % nm, "@%d" % woff, "reads @%d (entry has it @%d)" % (off, woff),
                        "list_files reads the %s from entry offset %d, Disk BASIC stores it at %d" % (nm, off, woff), wl)
    c.floor("list_files paths building a CoCoFile", nfile, 1)


def dsk3(ctx, c):
    """DSK-3 preamble / postamble: write and read siblings agree on flag bytes, offsets, lengths."""
    repo = ctx.repo
    spec = {
        "MLPreamble": {"length": 5, "flag": 0x00, "fields": {"data_length": (1, 2), "load_addr": (3, 4)}},
        "BasicPreamble": {"length": 3, "flag": 0xFF, "fields": {"data_length": (1, 2)}},
        "ASCIIPreamble": {"length": 0, "flag": None, "fields": {}},
        "Postamble": {"length": 5, "flag": 0xFF, "fields": {"exec_addr": (3, 4)}, "zeros": (1, 2)},
    }
    n = 0
    for cls, sp in spec.items():
        C = repo.cls(cls)
        where = C.module.rel
        init = C.methods.get("__init__")
        length = None
        if init:
            for st in ast.walk(init.node):
                if isinstance(st, ast.Assign) and U(st.targets[0]) == "self.length":
                    length = try_fold(st.value, ctx.env)
        c.check(length == sp["length"], "%s.length" % cls, str(sp["length"]), "length=%s (format %d)" % (length, sp["length"]),
                "%s.length is %s, the format has %d bytes" % (cls, length, sp["length"]), where)
        for meth in ("write", "read"):
            f = C.methods.get(meth)
            if f is None:
                c.undecided("%s.%s" % (cls, meth), "method-missing", "", where)
                continue
            n += 1
            w = repo.loc(f, f.node)
            params = [p for p in f.params if p != "self"]
            bufp, ptrp = params[0], params[1]
            from .enc import make_resolver
            from ..inline import flatten as _fl
            it = Interp(_fl(repo, f, depth=2), consts={**ctx.env, **ctx.self_env(cls)}, sub_bases=(bufp,), resolver=make_resolver(repo, f), alias_paths=True,
                        init_env={ptrp: Opq("P"), "self.length": Const(length) if length is not None else Opq("self.length")})
            outs = [o for o in it.run() if o.kind == "return"]
            # return value = P + length
            rv = {repr(o.value) for o in outs}
            want_rv = "Lin(P+%d)" % sp["length"] if sp["length"] else "<P>"
            if any(re.search(r"len\(|<\?!|\(<", x) for x in rv):
                c.undecided("%s.%s:advance" % (cls, meth), "returned-pointer-not-affine", str(sorted(rv))[:100], w)
            else:
              c.check(rv == {want_rv}, "%s.%s:advance" % (cls, meth), "returns pointer + %d" % sp["length"], "returns %s" % sorted(rv),
                    "%s.%s returns %s, it must return the pointer advanced by the %d bytes of the block" % (cls, meth, sorted(rv), sp["length"]), w)
            if meth == "write":
                moved = [x for x in ast.walk(f.node) if isinstance(x, (ast.Assign, ast.AugAssign)) for t_ in (x.targets if isinstance(x, ast.Assign) else [x.target])
                         if isinstance(t_, ast.Name) and t_.id == ptrp]
                stores_after = [x for x in ast.walk(f.node) if isinstance(x, ast.Assign) and isinstance(x.targets[0], ast.Subscript) and U(x.targets[0].value) == bufp
                                and moved and x.lineno > moved[0].lineno]
                if moved and stores_after:
                    c.finding("%s.write:position" % cls, "the block is written somewhere else than at the pointer given (%s)" % U(moved[0])[:40],
                              "%s.write changes its pointer (`%s`) before storing the block: the file is a byte stream over its granule chain, so bytes skipped on the way become part of the "
                              "stream while the lengths recorded in the directory and the FAT do not count them - the trailer is no longer where a reader looks for it" % (cls, U(moved[0])[:60]), w)
                # a slice of the image assigned from something whose length follows the value (the digits of .hex(), a str, a bytes built from them): a list
                # takes the length of what is assigned, so the image shrinks or grows and every later offset moves
                for x in ast.walk(f.node):
                    if isinstance(x, ast.Assign) and isinstance(x.targets[0], ast.Subscript) and isinstance(x.targets[0].slice, ast.Slice) and U(x.targets[0].value) == bufp:
                        rhs = x.value
                        fixed = isinstance(rhs, (ast.List, ast.Tuple)) and not any(isinstance(e_, ast.Starred) for e_ in rhs.elts)
                        by_digits = [y for y in ast.walk(rhs) if isinstance(y, ast.Call) and isinstance(y.func, ast.Attribute) and y.func.attr == "hex" and not y.args and not y.keywords
                                     and U(y.func.value).startswith("self.")]
                        if not fixed and by_digits:
                            c.finding("%s.write:slice-store" % cls, "a slice of the image is assigned `%s`, whose length follows the digits of the value" % U(rhs)[:50],
                                      "%s.write assigns `%s` to %s[%s]: %s renders as many digits as the value's width hint says (2 for an address written as $80, none for a missing ORG), "
                                      "and a list slice takes the length of what is assigned - the 161,280-byte image shrinks and the field loses its high byte"
                                      % (cls, U(rhs)[:70], bufp, U(x.targets[0].slice), U(by_digits[0])), repo.loc(f, x))
                for o in outs:
                    st = {}
                    for s in o.path.env.get("$stores", ()):
                        off = s[1]
                        k = 0 if isinstance(off, Opq) and off.text == "P" else (off.c if isinstance(off, Lin) and off.terms == {"P": 1} else None)
                        st[k] = repr(s[2])
                    if len([k for k in st if k is not None]) != sp["length"] or None in st:
                        c.undecided("%s.write" % cls, "stores-not-recognised", "stores at %s" % sorted(st, key=str), w)
                        continue
                    if sp["flag"] is not None:
                        c.check(st.get(0) == "Const(%#x)" % sp["flag"], "%s.write:flag" % cls, "%#04x" % sp["flag"], "flag byte %s" % st.get(0),
                                "%s.write stores %s as flag byte, the format has %02X" % (cls, st.get(0), sp["flag"]), w)
                    for fld, (hi, lo) in sp["fields"].items():
                        good = st.get(hi) == "<self.%s.high_byte()>" % fld and st.get(lo) == "<self.%s.low_byte()>" % fld
                        local_recv = any(re.fullmatch(r"<[a-z_]\w*\.(high|low)_byte\(\)>", str(st.get(k_)) or "") for k_ in (hi, lo))
                        if not good and (local_recv or not (("high_byte" in str(st.get(hi)) or "low_byte" in str(st.get(hi)) or "Const" in str(st.get(hi)) or "self." in str(st.get(hi))))):
                            c.undecided("%s.write:%s" % (cls, fld), "value-not-recognised", "%s / %s" % (st.get(hi), st.get(lo)), w)
                            continue
                        c.check(good, "%s.write:%s" % (cls, fld), "@%d,%d hi,lo" % (hi, lo), "@%d=%s @%d=%s" % (hi, st.get(hi), lo, st.get(lo)),
                                "%s.write must store %s high byte at +%d and low byte at +%d; it stores %s / %s" % (cls, fld, hi, lo, st.get(hi), st.get(lo)), w)
                    for z in sp.get("zeros", ()):
                        c.check(st.get(z) == "Const(0x0)", "%s.write:zero%d" % (cls, z), "00", "byte %d = %s" % (z, st.get(z)),
                                "%s.write stores %s at +%d, the format has 00" % (cls, st.get(z), z), w)
                    c.check(len([k for k in st if k is not None]) == sp["length"] and None not in st, "%s.write:count" % cls, "%d stores" % sp["length"], "stores at %s" % sorted(st, key=str),
                            "%s.write stores at offsets %s, the block has %d bytes" % (cls, sorted(st, key=str), sp["length"]), w)
            else:
                # reader: flag tests and field reads
                flags = []
                rflat_ = _fl(repo, f, depth=2)
                for nn in ast.walk(rflat_):
                    if isinstance(nn, ast.If) and nn.body and isinstance(nn.body[-1], ast.Raise) and isinstance(nn.test, ast.Compare) and isinstance(nn.test.left, ast.Subscript):
                        idx = U(nn.test.left.slice).replace(ptrp, "").replace(" ", "").lstrip("+") or "0"
                        try:
                            idx = int(idx)
                        except ValueError:
                            idx = None
                        flags.append((idx, type(nn.test.ops[0]).__name__, try_fold(nn.test.comparators[0], {**ctx.env, **ctx.self_env(cls)})))
                opaque_calls = [x for x in ast.walk(rflat_) if isinstance(x, ast.Call) and (U(x.func).startswith(("self.", "cls.")) or (isinstance(x.func, ast.Name) and x.func.id in f.module.funcs))]
                if any(None in fl for fl in flags) or (sp["flag"] is not None and not flags and (opaque_calls or any(isinstance(x, (ast.Raise, ast.For, ast.While)) for x in ast.walk(rflat_)))):
                    c.undecided("%s.read:flags" % cls, "flag-tests-not-recognised", str(flags), w)
                    flags = None
                if flags is not None and sp["flag"] is not None:
                    c.check((0, "NotEq", sp["flag"]) in flags, "%s.read:flag" % cls, "rejects unless byte0 == %#04x" % sp["flag"], "flag tests %s" % flags,
                            "%s.read must reject a block whose first byte is not %02X; tests found: %s" % (cls, sp["flag"], flags), w)
                for z in (sp.get("zeros", ()) if flags is not None else ()):
                    c.check((z, "NotEq", 0) in flags, "%s.read:zero%d" % (cls, z), "rejects unless byte%d == 0" % z, "tests %s" % flags, "%s.read does not check byte %d" % (cls, z), w)
                for fld, (hi, lo) in sp["fields"].items():
                    val = None
                    for o in outs:
                        val = o.path.env.get("self.%s" % fld)
                    txt = repr(val)
                    good = re.search(r"sub\(<%s>, Lin\(P\+%d\)\).*LShift.*Const\(0x8\).*sub\(<%s>, Lin\(P\+%d\)\)" % (bufp, hi, bufp, lo), txt) is not None
                    if val is None:
                        c.undecided("%s.read:%s" % (cls, fld), "field-not-assigned", "", w)
                    elif "sub(" not in txt or re.search(r"Lin\(P\+[A-Za-z]", txt):
                        c.undecided("%s.read:%s" % (cls, fld), "read-expression-not-recognised", txt[:80], w)
                    else:
                        c.check(good, "%s.read:%s" % (cls, fld), "(b[%d] << 8) + b[%d]" % (hi, lo), "reads %s" % txt[:100],
                                "%s.read must build %s from byte +%d (high) and +%d (low); it computes %s" % (cls, fld, hi, lo, txt[:120]), w)
    c.floor("preamble/postamble methods", n, 8)
    # which preamble for which file kind: the writer add_file is evaluated once per kind
    af = repo.method(CLS, "add_file")
    w = repo.loc(af, af.node)
    amble = {"MLPreamble", "ASCIIPreamble", "BasicPreamble"}
    wrong, open_ = [], []
    for kind, want_pre, want_post, env, events, notes, end in _add_file_runs(ctx):
        built = [e[1] for e in events if e[0] == "new" and e[1] in amble]
        if notes or (end or "").startswith("raise"):
            open_.append("%s: %s" % (kind, "; ".join(sorted(set(notes)))[:80] or end))
        elif built != [want_pre]:
            wrong.append("%s file -> %s" % (kind, ",".join(built) or "no header object"))
    if open_:
        c.undecided("add_file:preamble-selection", "selection-not-evaluable", " | ".join(open_)[:200], w)
    else:
        c.check(not wrong, "add_file:preamble-selection", "type 2 -> ML, ASCII flag FF -> none, else BASIC", "selection %s" % "; ".join(wrong),
                "add_file, evaluated per file kind, builds: %s; the format is: file type 2 -> machine-language header, ASCII flag FF -> none, otherwise BASIC header" % "; ".join(wrong), w)
    # a table indexed by a byte read from the image answers KeyError for every value it has no row for: that is not a validation error, so the sniffing in
    # get_coco_files does not fall through to the next reader - re-opening such an image ends in a traceback
    lfm_ = repo.method(CLS, "list_files")
    mod_ = lfm_.module
    for n_ in ast.walk(lfm_.node):
        if isinstance(n_, ast.Subscript) and isinstance(n_.ctx, ast.Load) and isinstance(n_.value, ast.Name) and isinstance(mod_.assigns.get(n_.value.id), ast.Dict) \
                and not isinstance(n_.slice, ast.Constant):
            keys_ = [try_fold(k_, ctx.env) for k_ in mod_.assigns[n_.value.id].keys]
            guarded_ = any(isinstance(t_, ast.Try) and any(x is n_ for b_ in t_.body for x in ast.walk(b_)) and
                           any(h_.type is None or re.search(r"KeyError|LookupError|Exception", U(h_.type)) for h_ in t_.handlers) for t_ in ast.walk(lfm_.node)) \
                or any(isinstance(i_, ast.If) and re.search(r"\b(not )?in %s\b" % re.escape(n_.value.id), U(i_.test)) for i_ in ast.walk(lfm_.node))
            if all(isinstance(k_, int) for k_ in keys_) and len(keys_) < 256 and not guarded_ and re.search(r"\.int\b|buffer\[", U(n_.slice)):
                c.finding("list_files:table-lookup", "%s[%s] has rows for %s only" % (n_.value.id, U(n_.slice)[:30], sorted(keys_)[:6]),
                          "list_files looks `%s` up in the table %s, which has rows for %s: any other value of that byte (file type $03 on a disk written elsewhere, or the bytes of a long "
                          "tape image that is being sniffed) raises KeyError instead of a validation error" % (U(n_.slice)[:40], n_.value.id, sorted(keys_)), repo.loc(lfm_, n_))
    # the reader list_files: the shape `if <type test>: preamble = <Class>(...)`
    for meth in ("list_files",):
        f = repo.method(CLS, meth)
        w = repo.loc(f, f.node)
        sel = []
        for nn in ast.walk(f.node):
            if isinstance(nn, ast.If):
                t = U(nn.test)
                first = nn.body[0] if nn.body else None
                if isinstance(first, ast.Assign) and U(first.targets[0]) == "preamble" and isinstance(first.value, ast.Call):
                    sel.append((t, U(first.value.func)))
                    if nn.orelse and isinstance(nn.orelse[0], ast.Assign) and U(nn.orelse[0].targets[0]) == "preamble" and isinstance(nn.orelse[0].value, ast.Call):
                        sel.append(("else", U(nn.orelse[0].value.func)))
        kinds = [k for _, k in sel]
        good = kinds[:3] == ["MLPreamble", "ASCIIPreamble", "BasicPreamble"] and len(sel) >= 3 and \
            re.search(r"type\.int == (2|0x02)$", sel[0][0]) is not None and re.search(r"data_type\.int == (255|0xFF|0xff)$", sel[1][0]) is not None
        recognised = len(sel) >= 3 and all(k in amble for k in kinds) and all(
            t == "else" or re.fullmatch(r"[\w.]*type\.int == (\d+|0[xX][0-9a-fA-F]+)", t) for t, _ in sel)
        if not sel or not recognised:
            c.undecided("%s:preamble-selection" % meth, "selection-shape-not-recognised", str(sel)[:120], w)
        else:
            c.check(good, "%s:preamble-selection" % meth, "type 2 -> ML, ASCII flag FF -> none, else BASIC", "selection %s" % sel,
                    "%s selects the preamble as %s; the format is: file type 2 -> machine-language header, ASCII flag FF -> none, otherwise BASIC header" % (meth, sel), w)


def dsk4(ctx, c):
    """DSK-4 FAT encoding agreement: links, last-granule marker, masks."""
    repo = ctx.repo
    fn, res = _stores_of(ctx, "write_to_fat")
    where = repo.loc(fn, fn.node)
    params = [p for p in fn.params if p != "self"]
    p_list, p_sect = params[0], params[1]
    # decided by folding the method for four allocation lists: the stores into the buffer are exactly the chain and its terminator
    from ..consteval import fold_body as _fb4, NotConst as _N4, Raised as _R4
    from ..inline import flatten as _fl4
    folded_ok = None
    try:
        body4 = body_without_doc(_fl4(repo, fn, depth=2))
        wrong4 = None
        for lst in ([7], [10, 11], [10, 30, 2, 67], [0, 67, 33], [5, 0, 9], [1, 0], [0]):
            buf = {}
            env4 = dict(ctx.env)
            env4.update({p_list: list(lst), p_sect: 5, "self.buffer": buf})
            for extra in params[2:]:
                env4.setdefault(extra, None)
            _fb4(body4, env4)
            want4 = {D.FAT_OFFSET + a: b for a, b in zip(lst, lst[1:])}
            want4[D.FAT_OFFSET + lst[-1]] = D.FAT_LAST_BASE + 5
            if buf != want4:
                diff = sorted(set(buf.items()) ^ set(want4.items()))[:3]
                wrong4 = (lst, [("FAT[%d]" % (k - D.FAT_OFFSET), "%#04x" % v if isinstance(v, int) else v) for k, v in sorted(buf.items())][:6],
                          [("FAT[%d]" % (k - D.FAT_OFFSET), "%#04x" % v) for k, v in sorted(want4.items())][:6])
                break
        folded_ok = wrong4 is None
        if wrong4:
            c.finding("write_to_fat:chain", "for the granule list %s the FAT stores are %s" % (wrong4[0], wrong4[1]),
                      "write_to_fat, folded for the allocation list %s with 5 sectors in the last granule, stores %s; the chain is %s (each granule's byte = its successor, the last = C0 + sectors)"
                      % wrong4, where)
        else:
            c.ok("write_to_fat:chain", "links and terminator exact for four allocation lists", where)
            c.ok("write_to_fat:terminator", "FAT[last] = C0 + sectors", where)
            c.ok("write_to_fat:links", "FAT[g_i] = g_{i+1} for all but the last", where)
    except (_N4, _R4, KeyError, TypeError, IndexError) as e:
        folded_ok = None
    term = None
    link = None
    for o in (res if folded_ok is None else []):
        for st in o.path.env.get("$stores", ()):
            if st[0] == "store":
                term = (repr(st[1]), repr(st[2]))
            else:
                for b in st[3]:
                    link = (repr(b[1]), repr(b[2]), U(st[5].iter), U(st[5].target))
    if folded_ok is not None:
        pass
    elif term is None:
        c.undecided("write_to_fat:terminator", "store-not-found", "", where)
    else:
        idx_ok = ("%s[-1]" % p_list) in term[0] and str(D.FAT_OFFSET) in term[0].replace("0x%x" % D.FAT_OFFSET, str(D.FAT_OFFSET))
        val_ok = term[1] in ("Lin(%s+%d)" % (p_sect, D.FAT_LAST_BASE),)
        c.check(idx_ok and val_ok, "write_to_fat:terminator", "FAT[last] = C0 + sectors", "FAT[%s] = %s" % term,
                "write_to_fat must store C0 + (sectors used in the last granule) in the last granule's FAT byte; it stores %s at %s" % (term[1], term[0]), where)
    if folded_ok is not None:
        pass
    elif link is None:
        c.undecided("write_to_fat:links", "loop-not-found", "", where)
    else:
        idx, val, it_text, tgt = link
        good_iter = re.fullmatch(r"enumerate\(%s\[:-1\]\)" % re.escape(p_list), it_text) is not None
        names = [x.strip() for x in tgt.strip("()").split(",")]
        good_val = len(names) == 2 and val == "<%s[%s + 1]>" % (p_list, names[0]) and names[1] in idx
        zip_iter = re.fullmatch(r"zip\(%s(\[:-1\])?, %s\[1:\]\)" % (re.escape(p_list), re.escape(p_list)), it_text) is not None
        if zip_iter and len(names) == 2 and val == "<%s>" % names[1] and names[0] in idx:
            good_iter = good_val = True
        elif not good_iter and not zip_iter:
            c.undecided("write_to_fat:links", "loop-shape-not-recognised", it_text, where)
            good_iter = None
        if good_iter is not None:
          c.check(good_iter and good_val, "write_to_fat:links", "FAT[g_i] = g_{i+1} for all but the last", "iter %s: FAT[%s] = %s" % (it_text, idx, val),
                "write_to_fat must link every granule but the last to its successor in the allocation list; loop over %s stores %s at %s" % (it_text, val, idx), where)
    # reader side: calculate_file_length and read_data
    cf = repo.method(CLS, "calculate_file_length")
    wc = repo.loc(cf, cf.node)
    masks = []
    for n in ast.walk(cf.node):
        if isinstance(n, ast.BinOp) and isinstance(n.op, ast.BitAnd):
            masks.append(try_fold(n.right, ctx.env))
    tests = [n.test for n in ast.walk(cf.node) if isinstance(n, ast.If)]
    last_test = None
    for t in tests:
        if isinstance(t, ast.Compare) and isinstance(t.left, ast.BinOp) and isinstance(t.left.op, ast.BitAnd):
            last_test = (try_fold(t.left.right, ctx.env), type(t.ops[0]).__name__, try_fold(t.comparators[0], ctx.env))
    # decide the last-granule test by folding every candidate test of the function over FAT entry values
    from ..consteval import fold as _flt, NotConst as _Nlt
    lt_verdict = None
    for t_ in tests:
        names_ = sorted({x.id for x in ast.walk(t_) if isinstance(x, ast.Name) and x.id not in ctx.env})
        if len(names_) != 1:
            continue
        try:
            tb = {v_: bool(_flt(t_, dict(ctx.env, **{names_[0]: v_}))) for v_ in list(range(0, D.GRANULES)) + list(range(0xC0, 0xCA))}
        except _Nlt:
            continue
        if not tb[0x00] and not tb[0x21] and tb[0xC1] and tb[0xC9]:
            lt_verdict = (U(t_), tb)
        elif tb[0x00] and tb[0x21] and not tb[0xC1] and not tb[0xC9]:
            # the same test written the other way round (`!=` with the branches swapped): judged on its negation
            lt_verdict = ("not (%s)" % U(t_), {k_: not v_ for k_, v_ in tb.items()})
    links_as_last = [v_ for v_ in range(D.GRANULES) if lt_verdict is not None and lt_verdict[1][v_]]
    if links_as_last:
        c.finding("calculate_file_length:last-test", "`%s` holds for the link to granule %d" % (lt_verdict[0], links_as_last[0]),
                  "calculate_file_length recognises the last granule by `%s`, which also holds for the FAT bytes %s: those are links to granules %d..%d, not end markers, so a chain that "
                  "runs through one of them is cut short and the file is listed truncated" % (lt_verdict[0], ", ".join("$%02X" % v_ for v_ in links_as_last[:4]), links_as_last[0], links_as_last[-1]), wc)
    elif lt_verdict is not None:
        c.check(lt_verdict[1][0xC0] and lt_verdict[1][0xC5], "calculate_file_length:last-test", "(e & C0) == C0", "`%s` is false for the entry $C0" % lt_verdict[0],
                "calculate_file_length recognises the last granule by `%s`, which does not hold for $C0 (a last granule with no sector in use, what Disk BASIC leaves for a file "
                "opened and closed without writing): the chain is followed through granule $C0 = 192, which does not exist" % lt_verdict[0], wc)
    elif last_test is None or None in last_test:
        c.undecided("calculate_file_length:last-test", "test-not-recognised", str(last_test), wc)
    else:
        c.check(last_test == (D.FAT_LAST_MASK, "Eq", D.FAT_LAST_BASE), "calculate_file_length:last-test", "(e & C0) == C0", "last-granule test %s" % (last_test,),
                "calculate_file_length recognises the last granule by %s; the marker is (entry & C0) == C0" % (last_test,), wc)
    sect_masks = [m for m in masks if m not in (D.FAT_LAST_MASK,)]
    if not sect_masks or any(m is None for m in sect_masks):
        c.undecided("calculate_file_length:sector-mask", "mask-not-recognised", str(sect_masks), wc)
    else:
      c.check(all(m is not None and (m & 0x0F) == 0x0F and (m & 0xC0) == 0 for m in sect_masks) and sect_masks, "calculate_file_length:sector-mask", "sector count = e & 1F/3F/0F", "sector mask %s" % sect_masks,
            "calculate_file_length extracts the sector count with mask %s; it must keep the low four bits (0-9) and drop the C0 marker" % sect_masks, wc)
    # the copy of the FAT handed to the readers has an entry for every granule
    lfm = repo.method(CLS, "list_files")
    for n_ in ast.walk(lfm.node):
        if isinstance(n_, ast.Assign) and isinstance(n_.value, ast.Subscript) and U(n_.value.value) == "self.buffer" and isinstance(n_.value.slice, ast.Slice) \
                and "FAT_OFFSET" in U(n_.value.slice):
            lo_ = try_fold(n_.value.slice.lower, ctx.env) if n_.value.slice.lower is not None else 0
            hi_ = try_fold(n_.value.slice.upper, ctx.env) if n_.value.slice.upper is not None else None
            if isinstance(lo_, int) and isinstance(hi_, int):
                c.check(lo_ == D.FAT_OFFSET and hi_ - lo_ >= D.GRANULES, "list_files:fat-copy", "the FAT copy covers granules 0..67", "the FAT copy holds %d entries from offset %d" % (hi_ - lo_, lo_),
                        "list_files copies %d FAT entries starting at %d: the table has an entry for each of the 68 granules at %d; looking up a granule beyond the copy raises IndexError "
                        "and the image is then taken for something other than a disk" % (hi_ - lo_, lo_, D.FAT_OFFSET), repo.loc(lfm, n_))
    # length arithmetic: full granule adds HALF_TRACK_LEN; last adds (sectors-1)*256 + bytes
    it = Interp(cf.node, consts=ctx.env)
    txt = U(cf.node)
    good = re.search(r"total_bytes \+= \(\(fat_entry & \w+\) - 1\) \* DiskConstants\.BYTES_PER_SECTOR", txt) and "total_bytes += bytes_in_last_sector" in txt \
        and "total_bytes += DiskConstants.HALF_TRACK_LEN" in txt
    subst = [n for n in ast.walk(cf.node) if isinstance(n, ast.AugAssign) and isinstance(n.value, (ast.BoolOp, ast.IfExp))]
    good = good and re.search(r"total_bytes \+= bytes_in_last_sector\n", txt + "\n")
    if subst:
        c.finding("calculate_file_length:arithmetic", "an addend is replaced when it is zero: %s" % U(subst[0].value)[:60],
                  "calculate_file_length adds `%s`: a recorded count of 0 (a stream that ends on a sector boundary) is replaced by another number, "
                  "so such a file reads back longer than it was written" % U(subst[0].value)[:70], repo.loc(cf, subst[0]))
    elif good:
        c.ok("calculate_file_length:arithmetic", "full granules * 2304 + (sectors - 1) * 256 + last-sector bytes", wc)
    else:
        c.undecided("calculate_file_length:arithmetic", "expression-shape-unknown", "", wc)
    # the same substitution made by a caller: the byte count handed to calculate_file_length is the directory's, 0 included
    cf_params = [p_ for p_ in cf.params if p_ not in ("self", "cls")]
    for f_ in repo.cls(CLS).methods.values():
        for call in [x for x in ast.walk(f_.node) if isinstance(x, ast.Call) and U(x.func).endswith("calculate_file_length")]:
            if len(cf_params) < 3:
                continue
            a_ = call.args[2] if len(call.args) >= 3 else next((k.value for k in call.keywords if k.arg == cf_params[2]), None)
            if a_ is None:
                continue
            srcs = [a_]
            if isinstance(a_, ast.Name):
                srcs += [n_.value for n_ in ast.walk(f_.node) if isinstance(n_, ast.Assign) and any(U(t_) == a_.id for t_ in n_.targets)]
            sub_ = [x for x in srcs if isinstance(x, (ast.BoolOp, ast.IfExp))]
            if sub_:
                c.finding("%s:last-sector-bytes" % f_.name, "the count handed to calculate_file_length is replaced when it is zero: %s" % U(sub_[0])[:50],
                          "%s passes `%s` as the bytes used in the last sector: the writer records 0 for a stream that ends on a sector boundary (with one sector more), "
                          "so replacing 0 makes such a file read back 256 bytes longer than it was written" % (f_.name, U(sub_[0])[:70]), repo.loc(f_, call))
            elif all(isinstance(x, (ast.Attribute, ast.Name)) for x in srcs):
                c.ok("%s:last-sector-bytes" % f_.name, "the directory's count, as recorded", repo.loc(f_, call))
    # read_data: the chain link is the FAT byte itself (granule numbers reach 67 = 0x43)
    rd = repo.method(CLS, "read_data")
    wr = repo.loc(rd, rd.node)
    nxt = None
    for n in ast.walk(rd.node):
        if isinstance(n, ast.Assign) and U(n.targets[0]) == "next_granule":
            nxt = n.value
    if nxt is None:
        for n in ast.walk(rd.node):
            if isinstance(n, ast.Call) and U(n.func) == "self.read_data" and n.args:
                nxt = n.args[0]
    if nxt is None:
        c.undecided("read_data:link", "link-not-found", "", wr)
    else:
        params_rd = [p for p in rd.params if p != "self"]
        if isinstance(nxt, ast.Subscript) and U(nxt) == "%s[%s]" % (params_rd[1], params_rd[0]):
            c.ok("read_data:link", "next = fat[granule]", wr)
        elif isinstance(nxt, ast.BinOp) and isinstance(nxt.op, ast.BitAnd):
            m = try_fold(nxt.right, ctx.env)
            c.check(isinstance(m, int) and (m & 0x7F) == 0x7F, "read_data:link", "next = fat[granule] & %s" % m, "next = %s" % U(nxt),
                    "read_data follows the chain through %s: granule numbers go up to 67 (0x43), the mask %s maps 64-67 onto 0-3" % (U(nxt), hex(m) if isinstance(m, int) else m), wr)
        else:
            c.undecided("read_data:link", "link-shape-unknown", U(nxt), wr)
    # blanking range (DSK-9)
    af = repo.method(CLS, "add_file")
    wa = repo.loc(af, af.node)
    blank = None
    envb = dict(ctx.env)
    for a_ in ast.walk(af.node):
        if isinstance(a_, ast.Assign) and isinstance(a_.targets[0], ast.Name):
            v_ = try_fold(a_.value, envb)
            if isinstance(v_, int) and not isinstance(v_, bool):
                envb[a_.targets[0].id] = v_
    for n in ast.walk(af.node):
        if isinstance(n, ast.For) and isinstance(n.iter, ast.Call) and U(n.iter.func) == "range" and len(n.iter.args) == 2:
            a, b = try_fold(n.iter.args[0], envb), try_fold(n.iter.args[1], envb)
            for st in n.body:
                if isinstance(st, ast.Assign) and isinstance(st.targets[0], ast.Subscript) and U(st.targets[0].value) == "self.buffer" and U(st.targets[0].slice) == U(n.target):
                    blank = (a, b, try_fold(st.value, ctx.env))
    if blank is None:
        c.ok("add_file:blanking", "no blanking loop", wa, nontrivial=False)
    else:
        good = blank[0] is not None and blank[1] is not None and D.FAT_OFFSET + D.GRANULES <= blank[0] and blank[1] <= D.DIR_OFFSET and blank[0] <= blank[1]
        if blank[0] is None or blank[1] is None:
            c.undecided("add_file:blanking", "range-not-constant", "", wa)
        else:
          c.check(good, "add_file:blanking", "blanks only FAT bytes 68..255", "blanks [%s, %s)" % (blank[0], blank[1]),
                "add_file blanks buffer[%s:%s]; only the unused part of the FAT sector, [%d, %d), may be overwritten" % (blank[0], blank[1], D.FAT_OFFSET + D.GRANULES, D.DIR_OFFSET), wa)


def _run_calc(ctx, name):
    fn = ctx.repo.method(CLS, name)
    it = Interp(fn.node, consts=ctx.env, call_ctors=("DiskFile.calculate_granules_needed", "DiskFile.calculate_sectors_needed",
                                                     "self.calculate_granules_needed", "self.calculate_sectors_needed", "len", "int"),
                sym_attrs=(".length",))
    return fn, [o for o in it.run() if o.kind == "return"]


def dsk12(ctx, c):
    """DSK-12 stream-length siblings: granules, sectors in last granule, bytes in last sector derive from one length."""
    repo = ctx.repo
    n = 0
    # (a) additional length per path: preamble.length + (postamble.length if postamble else 0)
    for name in ("calculate_granules_needed", "calculate_last_sector_bytes_used", "calculate_last_granules_sectors_used"):
        fn, outs = _run_calc(ctx, name)
        where = repo.loc(fn, fn.node)
        params = [p for p in fn.params if p not in ("self", "cls")]
        if len(params) < 3:
            c.undecided(name, "signature-changed", str(params), where)
            continue
        p_data, p_pre, p_post = params[:3]
        for o in outs:
            n += 1
            atoms = o.path.atoms()
            has_post = atoms.get(p_post)
            if has_post is None:
                has_post = atoms.get("%s is not None" % p_post)
            add = o.path.env.get("additional_len")
            # derive the stream length symbolically from the returned value: look for the Lin inside
            txt = repr(o.value) + " " + repr(add)
            want_terms = {"length": 1} if not has_post else {"length": 2}
            site = "%s[%s]" % (name, "postamble" if has_post else "no postamble")
            # expected stream-length expression: len(data) + pre.length (+ post.length)
            if name == "calculate_granules_needed":
                total = None
                m = re.search(r"Div (Const|<)", txt)
                v = o.value
                # int((len + add) / G) + 1  -> Opq text; parse the Lin inside
                mm = re.search(r"Lin\(([^()]*(?:\([^()]*\)[^()]*)*)\)", txt)
                total = mm.group(0) if mm else None
            stream = _stream_len(o, p_data)
            if has_post is None and stream is not None:
                c.finding("%s[any]" % name, "stream = %r regardless of the postamble" % stream,
                          "%s computes the stored stream length as %r without looking at the postamble; a machine-language file carries a 5-byte trailer" % (name, stream), where)
                continue
            if stream is None:
                c.undecided(site, "stream-length-not-extractable", txt[:100], where)
                continue
            ln_coeff = stream.terms.get("length", 0)
            data_coeff = sum(v for k, v in stream.terms.items() if k.startswith("call:len("))
            other = {k: v for k, v in stream.terms.items() if k != "length" and not k.startswith("call:len(")}
            good = data_coeff == 1 and ln_coeff == (2 if has_post else 1) and not other and stream.c == 0
            c.check(good, site, "stream = len(data) + preamble.length%s" % (" + postamble.length" if has_post else ""),
                    "stream = %r" % stream,
                    "%s computes the stored stream length as %r when the postamble is %s; it is len(data) + preamble.length%s"
                    % (name, stream, "present" if has_post else "absent", " + postamble.length" if has_post else ""), where)
    c.floor("stream-length paths", n, 3)
    # (b) granule and sector counts as arithmetic functions: fold for every length
    K = _consts(ctx)
    gfn = repo.method(CLS, "calculate_granules_needed")
    sfn = repo.method(CLS, "calculate_sectors_needed")
    gret = [x for x in ast.walk(gfn.node) if isinstance(x, ast.Return)][-1].value
    sret = [x for x in ast.walk(sfn.node) if isinstance(x, ast.Return)][-1].value
    sparam = [p for p in sfn.params if p not in ("self", "cls")][0]

    def S(nbytes):
        return fold(sret, dict(ctx.env, **{sparam: nbytes}))
    try:
        bad = None
        for nb in range(0, D.GRANULE_LEN):
            s = S(nb)
            if not (isinstance(s, int) and 1 <= s <= D.GRANULE_SECTORS and (s - 1) * D.BYTES_PER_SECTOR <= nb <= s * D.BYTES_PER_SECTOR):
                bad = (nb, s)
                break
        c.check(bad is None, "calculate_sectors_needed", "1..9 sectors, (s-1)*256 <= n <= s*256 for n in 0..2303", "n=%s -> %s sectors" % (bad or (0, 0)),
                "calculate_sectors_needed(%s) = %s: a last granule holding n bytes uses ceil-or-floor+1 of n/256 sectors, between 1 and 9" % (bad or (0, 0)), repo.loc(sfn, sfn.node))
    except NotConst as e:
        c.undecided("calculate_sectors_needed", "not-foldable", str(e), repo.loc(sfn, sfn.node))
    # granules: substitute the stream length
    try:
        gparams = [p for p in gfn.params if p not in ("self", "cls")]
        bad = None
        src = ast.unparse(gret)
        for total in list(range(0, 3 * D.GRANULE_LEN + 5)) + [65535 + 10]:
            env = dict(ctx.env)
            env.update({"additional_len": 0, gparams[0]: [0] * 0})
            # len(file_data) -> total via a list stub is too slow for 65545; patch by text
            expr = ast.parse(src.replace("len(%s)" % gparams[0], str(total)), mode="eval").body
            g = fold(expr, env)
            if not (isinstance(g, int) and (g - 1) * D.GRANULE_LEN <= total < g * D.GRANULE_LEN):
                bad = (total, g)
                break
        c.check(bad is None, "calculate_granules_needed", "(g-1)*2304 <= stream < g*2304", "stream %s -> %s granules" % (bad or (0, 0)),
                "calculate_granules_needed gives %s granules for a stream of %s bytes; the chunking in write_to_granules needs floor(stream/2304)+1" % ((bad or (0, 0))[1], (bad or (0, 0))[0]),
                repo.loc(gfn, gfn.node))
    except (NotConst, SyntaxError) as e:
        c.undecided("calculate_granules_needed", "not-foldable", str(e), repo.loc(gfn, gfn.node))
    # (c) identity: bytes_in_last_sector = L - 256 * (S(L) - 1), sectors = S(L) with the same S and L
    fb, ob = _run_calc(ctx, "calculate_last_sector_bytes_used")
    fs, os_ = _run_calc(ctx, "calculate_last_granules_sectors_used")
    for o_b, o_s in zip(ob, os_):
        vs, vb = o_s.value, o_b.value
        site = "last-granule identity[%s]" % ("postamble" if o_b.path.atoms().get([p for p in fb.params if p not in ("self", "cls")][2]) else "no postamble")
        where = repo.loc(fb, fb.node)
        if not (isinstance(vs, Ctor) and vs.cls.startswith("call:") and vs.cls.endswith("calculate_sectors_needed")):
            # not the shared helper: compare the returned expression with the helper on every last-granule length
            rets = [x for x in ast.walk(fs.node) if isinstance(x, ast.Return) and x.value is not None]
            decided = False
            if len(rets) == 1:
                names = {x.id for x in ast.walk(rets[0].value) if isinstance(x, ast.Name)}
                lvars = [nm for nm in names if isinstance(o_s.path.env.get(nm), Lin) and "call:len(" in repr(o_s.path.env.get(nm))]
                if len(lvars) == 1:
                    try:
                        diff = None
                        for nb in range(0, D.GRANULE_LEN):
                            a = fold(rets[0].value, dict(ctx.env, **{lvars[0]: nb}))
                            b = S(nb)
                            if a != b:
                                diff = (nb, a, b)
                                break
                        decided = True
                        c.check(diff is None, site, "sector count equals calculate_sectors_needed on 0..2303",
                                "L=%s: sectors=%s but the byte count assumes %s" % (diff or (0, 0, 0)),
                                "for a last granule holding %s bytes the FAT gets %s sector(s) while the directory's byte count is computed for %s: "
                                "the implied length differs from the stored stream by a sector" % (diff or (0, 0, 0)), repo.loc(fs, fs.node))
                    except NotConst:
                        pass
            if not decided:
                c.undecided(site, "sector-count-not-comparable", repr(vs)[:80], repo.loc(fs, fs.node))
            continue
        L = vs.args[0]
        ssym = repr(vs)
        if not isinstance(vb, Lin) or not isinstance(L, Lin):
            c.undecided(site, "byte-count-not-affine", repr(vb)[:80], where)
            continue
        # expected: vb = L - 256*S + 256
        exp = dict(L.terms)
        exp[ssym] = exp.get(ssym, 0) - D.BYTES_PER_SECTOR
        expc = L.c + D.BYTES_PER_SECTOR
        good = {k: v for k, v in vb.terms.items() if v} == {k: v for k, v in exp.items() if v} and vb.c == expc
        c.check(good, site, "bytes = L - 256*(S(L) - 1), sectors = S(L), same L",
                "bytes = %s ; sectors = %s" % (repr(vb)[:150], ssym[:100]),
                "the directory's last-sector byte count and the FAT's sector count are not derived from one length: bytes = %s, sectors = %s; "
                "the implied length (sectors-1)*256 + bytes then differs from the stored stream" % (repr(vb)[:200], ssym[:160]), where)
        # L itself: stream - (G-1)*2304
        gs = [k for k in L.terms if k.startswith("call:") and "calculate_granules_needed" in k]
        okL = len(gs) == 1 and L.terms[gs[0]] == -D.GRANULE_LEN and L.c == D.GRANULE_LEN
        c.check(okL, site + ":L", "L = stream - (G - 1) * 2304", "L = %s" % repr(L)[:150],
                "the length of the last granule is computed as %s; it is stream - (granules - 1) * 2304" % repr(L)[:200], where)


def dsk13(ctx, c):
    """DSK-13 the three length functions evaluated for every stream length and file kind: implied length = stored stream."""
    from ..consteval import fold_body
    repo = ctx.repo
    fns = {n: repo.method(CLS, n) for n in ("calculate_granules_needed", "calculate_last_sector_bytes_used", "calculate_last_granules_sectors_used", "calculate_sectors_needed")}
    where = repo.loc(fns["calculate_granules_needed"], fns["calculate_granules_needed"].node)

    class Data(list):
        pass

    def call(name, env_args):
        f = fns[name]
        params = [p for p in f.params if p not in ("self", "cls")]
        env = dict(ctx.env)
        for p, v in zip(params, env_args):
            env[p] = v
            if isinstance(v, dict):
                for k2, v2 in v.items():
                    env["%s.%s" % (p, k2)] = v2
                env[p] = True
        # static siblings called by name
        def sub(n2):
            return lambda *a: call(n2, a)
        return _fold_with_calls(body_without_doc(f.node), env, {"DiskFile.%s" % k: k for k in fns} | {"self.%s" % k: k for k in fns}, call)

    kinds = {"ML": ({"length": 5}, {"length": 5}), "BASIC": ({"length": 3}, None), "ASCII": ({"length": 0}, None)}
    bad = None
    n = 0
    try:
        for kind, (pre, post) in kinds.items():
            extra = pre["length"] + (post["length"] if post else 0)
            lens = set()
            top = (3 * D.GRANULE_LEN) if ctx.tier == "quick" else (8 * D.GRANULE_LEN)
            for k in range(0, top + 1, D.BYTES_PER_SECTOR):
                for d_ in range(-7, 8):
                    if k - extra + d_ >= 0:
                        lens.add(k - extra + d_)
            lens |= {0, 1, 2, 100, 1000, 3000, 65535, 65535 - extra, 20 * D.GRANULE_LEN - extra, 20 * D.GRANULE_LEN - extra - 1}
            if ctx.tier != "quick":
                lens |= set(range(0, 2 * D.GRANULE_LEN + 600))
            for ln in sorted(lens):
                data = range(ln)
                stream = ln + extra
                g = call("calculate_granules_needed", (data, pre, post))
                s_ = call("calculate_last_granules_sectors_used", (data, pre, post))
                b = call("calculate_last_sector_bytes_used", (data, pre, post))
                n += 1
                ok = isinstance(g, int) and isinstance(s_, int) and isinstance(b, int) and (g - 1) * D.GRANULE_LEN <= stream < g * D.GRANULE_LEN \
                    and 1 <= s_ <= D.GRANULE_SECTORS and 0 <= b <= D.BYTES_PER_SECTOR and (g - 1) * D.GRANULE_LEN + (s_ - 1) * D.BYTES_PER_SECTOR + b == stream
                if not ok:
                    bad = (kind, ln, stream, g, s_, b)
                    break
            if bad:
                break
    except NotConst as e:
        c.undecided("length functions", "not-foldable", str(e), where)
        return
    if bad:
        c.finding("length functions", "%s file of %d bytes (stream %d): %s granules, %s sectors, %s bytes in last sector" % bad,
                  "for a %s file of %d data bytes (stored stream %d bytes) the writer records %s granule(s), %s sector(s) in the last granule and %s byte(s) in the last sector: "
                  "the length implied by these three (and the room actually allocated) differs from the stream, or a count is out of range (1-9 sectors, 0-256 bytes)" % bad, where)
    else:
        c.ok("length functions", "granules/sectors/bytes consistent with the stream for %d (kind, length) cases" % n, where)


def _fold_with_calls(stmts, env, callmap, call):
    """fold_body with calls to sibling length functions resolved by re-entry"""
    from ..consteval import fold_body, fold
    import copy

    class R(ast.NodeTransformer):
        def visit_Call(self, node):
            self.generic_visit(node)
            fn = U(node.func)
            if fn in callmap:
                args = []
                for a in node.args:
                    if isinstance(a, ast.Name) and a.id in env and env[a.id] is True and any(k.startswith(a.id + ".") for k in env):
                        args.append({k.split(".", 1)[1]: v for k, v in env.items() if k.startswith(a.id + ".")})
                    elif isinstance(a, ast.Name) and a.id in env and env[a.id] is None:
                        args.append(None)
                    else:
                        args.append(fold(a, env))
                return ast.Constant(call(callmap[fn], args))
            return node
    # resolve calls lazily: statements are folded one by one so that calls see the current locals
    env = dict(env)
    from ..consteval import Returned, BIN

    def run(stmts):
        for st in stmts:
            st2 = R().visit(copy.deepcopy(st)) if any(isinstance(x, ast.Call) and U(x.func) in callmap for x in ast.walk(st)) else st
            if isinstance(st2, ast.Expr) and isinstance(st2.value, ast.Constant):
                continue
            if isinstance(st2, ast.Assign) and len(st2.targets) == 1 and isinstance(st2.targets[0], ast.Name):
                env[st2.targets[0].id] = fold(st2.value, env)
            elif isinstance(st2, ast.AugAssign) and isinstance(st2.target, ast.Name) and type(st2.op) in BIN:
                if st2.target.id not in env:
                    raise NotConst(st2.target.id)
                env[st2.target.id] = BIN[type(st2.op)](env[st2.target.id], fold(st2.value, env))
            elif isinstance(st2, ast.If):
                run(st2.body if fold(st2.test, env) else st2.orelse)
            elif isinstance(st2, ast.Return):
                raise Returned(fold(st2.value, env) if st2.value is not None else None)
            else:
                raise NotConst("statement " + type(st2).__name__)
    try:
        run(stmts)
    except Returned as r:
        return r.value
    return None


def _stream_len(o, p_data):
    """find the Lin that contains call:len(<data>) in the outcome (value or env)"""
    cands = [o.value] + list(o.path.env.values())
    best = None

    def visit(v):
        nonlocal best
        if isinstance(v, Lin):
            if any(k.startswith("call:len(") for k in v.terms):
                # strip granule/sector terms to get the raw stream expression
                raw = Lin({k: c for k, c in v.terms.items() if "calculate_" not in k}, 0 if any("calculate_" in k for k in v.terms) else v.c)
                if best is None or len(raw.terms) > len(best.terms):
                    best = raw
        elif isinstance(v, Ctor):
            for a in list(v.args) + list(v.kw.values()):
                visit(a)
        elif isinstance(v, Opq):
            pass
    for v in cands:
        visit(v)
    if best is None:
        # the stream sum may be buried in a symbol name (e.g. inside int(.../2304)): parse it back from the text
        for v in cands:
            m = re.search(r"Lin\((call:len\(<[^>]*>\))((?:[+-](?:\d+\*)?[\w.]+)*)\)", repr(v))
            if m:
                terms = {m.group(1): 1}
                cst = 0
                for sign, coef, name in re.findall(r"([+-])(?:(\d+)\*)?([\w.]+)", m.group(2)):
                    k = int(coef) if coef else 1
                    k = k if sign == "+" else -k
                    if name.isdigit():
                        cst += k * int(name) if coef else (int(name) if sign == "+" else -int(name))
                    else:
                        terms[name] = terms.get(name, 0) + k
                best = Lin(terms, cst)
                break
    return best


def vf6(ctx, c):
    """VF-6 the disk sniffer's size gate is a lower bound (any buffer of at least 161,280 bytes is offered to the directory parser)."""
    repo = ctx.repo
    lf = repo.method(CLS, "list_files")
    wl = repo.loc(lf, lf.node)
    from ..inline import flatten as _flat
    lf_flat = _flat(repo, lf, depth=2, only={m_ for m_ in repo.cls(CLS).methods if m_ not in ("read_data", "seek_granule", "read_sequence", "calculate_file_length")})
    gate = None
    for n in ast.walk(lf_flat):
        if isinstance(n, ast.If) and n.body and isinstance(n.body[-1], ast.Raise) and "len(self.buffer)" in U(n.test) and isinstance(n.test, ast.Compare):
            gate = n
    if gate is None and ("len(self.buffer)" in U(lf_flat) or "IMAGE_SIZE" in U(lf_flat)):
        c.undecided("list_files:size-gate", "size-test-shape-not-recognised", "", wl)
    elif gate is None:
        c.finding("list_files:size-gate", "no size test", "DiskFile.list_files accepts a buffer of any size as a disk image (sniffing relies on it raising for short buffers)", wl)
    else:
        # decide by folding the test for four buffer lengths (locals bound to constants in the same function are taken along)
        import copy as _cpg
        from ..consteval import fold as _fg, NotConst as _Ng

        class _BufLen(ast.NodeTransformer):
            def visit_Call(self, node):
                self.generic_visit(node)
                if U(node) == "len(self.buffer)":
                    return ast.copy_location(ast.Name(id="__len", ctx=ast.Load()), node)
                return node
        envg = dict(ctx.env)
        for a_ in ast.walk(lf_flat):
            if isinstance(a_, ast.Assign) and isinstance(a_.targets[0], ast.Name):
                v_ = try_fold(a_.value, envg)
                if isinstance(v_, int):
                    envg[a_.targets[0].id] = v_
        tg = _BufLen().visit(_cpg.deepcopy(gate.test))
        try:
            table = [(L, bool(_fg(tg, dict(envg, __len=L)))) for L in (0, D.IMAGE_SIZE - 1, D.IMAGE_SIZE, D.IMAGE_SIZE + 4608)]
        except _Ng as e:
            c.undecided("list_files:size-gate", "size-test-not-foldable", str(e)[:60], repo.loc(lf, gate))
            table = None
        op = type(gate.test.ops[0]).__name__
        k = try_fold(gate.test.comparators[0], envg)
        good = table is not None and [r for _, r in table] == [True, True, False, False]
        if table is not None:
          c.check(good, "list_files:size-gate", "rejects buffers shorter than 161280", "rejects when len %s %s" % (op, k),
                "DiskFile.list_files rejects a buffer when len(buffer) %s %s; a disk image is any buffer of at least 161,280 bytes (35 tracks; larger images exist), "
                "a rejected disk image is then sniffed as another kind" % (op, k), repo.loc(lf, gate))
    # a validation error raised while listing is read by the sniffer as "not a disk": a plausibility test on a stored file must not refuse
    # values the format allows (a program may end at $FFFF: load + length = $10000)
    from ..consteval import fold as _f3, NotConst as _N3
    import copy as _cp

    class _SumSub(ast.NodeTransformer):
        def visit_BinOp(self, node):
            self.generic_visit(node)
            if isinstance(node.op, ast.Add) and "load_addr" in U(node) and ("length" in U(node) or "len(" in U(node)):
                return ast.copy_location(ast.Name(id="__end", ctx=ast.Load()), node)
            return node
    for n in ast.walk(lf_flat):
        if isinstance(n, ast.If) and n.body and isinstance(n.body[-1], ast.Raise) and "load_addr" in U(n.test) and ("length" in U(n.test)):
            worst = None
            for cmp_ in [x for x in ast.walk(n.test) if isinstance(x, ast.Compare)]:
                t2 = _SumSub().visit(_cp.deepcopy(cmp_))
                if "__end" not in U(t2):
                    continue
                try:
                    if _f3(t2, dict(ctx.env, __end=0x10000)):
                        worst = U(cmp_)
                except _N3:
                    pass
            if worst:
                c.finding("list_files:address-space", "a file ending at $FFFF is refused (%s)" % worst[:60],
                          "DiskFile.list_files raises a validation error when `%s`; load + length = $10000 is a file whose last byte is at $FFFF. The sniffer takes the error for "
                          "'not a disk image', the bytes are then listed as an empty cassette and the kind-mismatch / overwrite protection no longer sees a disk" % worst, repo.loc(lf, n))
            else:
                c.ok("list_files:address-space", "plausibility test accepts a file ending at $FFFF", repo.loc(lf, n))




WORKERS = ("write_to_granules", "write_dir_entry", "write_to_fat", "find_empty_granule", "find_empty_directory_entry", "calculate_granules_needed",
           "calculate_last_sector_bytes_used", "calculate_last_granules_sectors_used", "granule_in_use", "directory_entry_in_use")


def _add_file_runs(ctx):
    """DiskFile.add_file evaluated once per file kind: (kind, header class wanted, trailer class wanted, end environment, events, notes, how it ended)"""
    from ..inline import flatten
    from ..concrete import ClsRef, run_concrete, class_level_functions
    repo = ctx.repo

    def build():
        af = repo.method(CLS, "add_file")
        p_file = [p for p in af.params if p != "self"][0]
        flat = flatten(repo, af, depth=2, only={m_ for m_ in repo.cls(CLS).methods if m_ not in WORKERS})
        classes = [cn for cn in ("MLPreamble", "ASCIIPreamble", "BasicPreamble", "Postamble", "Preamble") if repo.has_cls(cn)]

        def resolver(name):
            f_ = repo.lookup(repo.cls(CLS), name)
            return f_.node if f_ is not None else None
        runs = []
        for kind, t_int, d_int, want_pre, want_post in (("machine-language", 0x02, 0x00, "MLPreamble", "Postamble"), ("ASCII", 0x01, 0xFF, "ASCIIPreamble", None),
                                                         ("BASIC", 0x00, 0x00, "BasicPreamble", None),
                                                         # the file type decides first: type 2 is machine language whatever the ASCII flag says
                                                         ("machine-language/ASCII-flag", 0x02, 0xFF, "MLPreamble", "Postamble"),
                                                         # ... and only the file type: what the file is called decides nothing
                                                         ("BASIC named .BIN", 0x00, 0x00, "BasicPreamble", None)):
            env = dict(ctx.env)
            for cn in classes + ["VirtualFileValidationError"]:
                env[cn] = ClsRef(cn)
            env.update({"%s.type.int" % p_file: t_int, "%s.data_type.int" % p_file: d_int,
                        "%s.extension" % p_file: "BIN" if (t_int == 2 or "named" in kind) else ("TXT" if d_int == 0xFF else "BAS"), "%s.name" % p_file: "PROGRAM"})
            events, notes = [], []
            end = run_concrete(body_without_doc(flat), env, events, notes, workers=WORKERS, resolver=resolver, functions=class_level_functions(repo))
            runs.append((kind, want_pre, want_post, env, events, notes, end))
        return runs
    return ctx.memo(("dsk", "add_file_runs"), build)


def dsk8(ctx, c):
    """DSK-8 DiskFile.add_file evaluated for each file kind (machine language, ASCII, BASIC/data): header and trailer objects carry the file's own
    length and addresses; granules found are the granules recorded; the directory entry, the data and the FAT chain are all written, each from
    the values computed for this file."""
    from ..inline import flatten
    from ..concrete import Obj, ClsRef, run_concrete, class_level_functions
    repo = ctx.repo
    af = repo.method(CLS, "add_file")
    where = repo.loc(af, af.node)
    p_file = [p for p in af.params if p != "self"][0]
    flat = flatten(repo, af, depth=2, only={m_ for m_ in repo.cls(CLS).methods if m_ not in WORKERS})
    classes = [cn for cn in ("MLPreamble", "ASCIIPreamble", "BasicPreamble", "Postamble", "Preamble") if repo.has_cls(cn)]

    def resolver(name):
        f_ = repo.lookup(repo.cls(CLS), name)
        return f_.node if f_ is not None else None
    for kind, want_pre, want_post, env, events, notes, end in _add_file_runs(ctx):
        site = "add_file[%s]" % kind
        calls = {}
        for e in events:
            if e[0] == "call" and e[1] == "self":
                calls.setdefault(e[2], []).append(e[3])
        problems = []

        def need(aspect, cond, text):
            if not cond:
                problems.append((aspect, text))
        unsure = []
        LENGTH_FNS = ("calculate_granules_needed", "calculate_last_sector_bytes_used", "calculate_last_granules_sectors_used")

        def need_from(aspect, arg, fname, text):
            """the argument is what `fname` computed.  A positive fault: it is a constant, the file's raw length, or what ANOTHER length function computed;
            any other derivation (a combined helper, a record of all three) is not judged here"""
            if fname in arg:
                return
            others = [f_ for f_ in LENGTH_FNS if f_ != fname and f_ in arg]
            if others or re.fullmatch(r"-?\d+|None|True|False", arg) or re.fullmatch(r"len\([\w.]+\)", arg):
                problems.append((aspect, text))
            else:
                unsure.append((aspect, arg))
        pre_obj, post_obj = "<%s object>" % want_pre, ("<%s object>" % want_post if want_post else "None")
        news = [e[1] for e in events if e[0] == "new"]
        need("header", want_pre in news, "no %s is built for a %s file (built: %s)" % (want_pre, kind, news))
        if want_post:
            need("header", want_post in news, "no %s is built for a %s file" % (want_post, kind))
        # fields of the header / trailer objects
        fields = {}
        for e in events:
            if e[0] == "new":
                for k, v in e[3].attrs.items():
                    fields[(e[1], k)] = v
        if kind != "ASCII":
            dl = str(fields.get((want_pre, "data_length"), ""))
            need("header", "len(%s.data)" % p_file in dl, "the %s header's data_length is %s, not the length of the file's data" % (kind, dl or "never set"))
        if kind.startswith("machine-language"):
            la = str(fields.get((want_pre, "load_addr"), ""))
            need("header", la == "%s.load_addr" % p_file, "the header's load_addr is %s, not the file's load address" % (la or "never set"))
            ea = str(fields.get((want_post, "exec_addr"), ""))
            need("header", ea == "%s.exec_addr" % p_file, "the trailer's exec_addr is %s, not the file's entry address" % (ea or "never set"))
        # allocation list
        lists = [e for e in events if e[0] == "call" and e[2] == "append" and any("find_empty_granule" in a for a in e[3])]
        grans = None
        if not lists:
            alt = [k for k, v in env.items() if isinstance(v, str) and "find_empty_granule" in v and "[" in v]
            need("allocation", bool(alt), "the granule returned by find_empty_granule is never recorded in the allocation list")
        else:
            grans = lists[0][1]
        wd, wg, wf = calls.get("write_dir_entry"), calls.get("write_to_granules"), calls.get("write_to_fat")
        need("directory", bool(wd), "write_dir_entry is never called: the file gets no directory entry")
        need("fat", bool(wg), "write_to_granules is never called: the data is never stored")
        need("fat", bool(wf), "write_to_fat is never called: the granules stay marked but unchained")
        if wd and len(wd[0]) >= 4:
            a = wd[0]
            need("directory", "find_empty_directory_entry" in a[0], "the directory slot passed to write_dir_entry is %s" % a[0])
            need("directory", a[1] == p_file, "write_dir_entry receives %s as the file" % a[1])
            if grans:
                need("directory", a[2] == "%s[0]" % grans, "the first granule recorded in the directory entry is %s, not %s[0]" % (a[2], grans))
            need_from("directory", a[3], "calculate_last_sector_bytes_used", "the last-sector byte count passed to write_dir_entry is %s" % a[3])
        if wg and len(wg[0]) >= 4:
            a = wg[0]
            need("data", a[0] == "%s.data" % p_file, "write_to_granules stores %s, not the file's data" % a[0])
            if grans:
                need("header", a[1] == grans, "write_to_granules lays the data over %s, not the allocation list %s" % (a[1], grans))
            need("header", a[2] == pre_obj, "write_to_granules receives %s as header (a %s file needs %s)" % (a[2], kind, pre_obj))
            need("header", a[3] == post_obj, "write_to_granules receives %s as trailer (a %s file needs %s)" % (a[3], kind, post_obj))
        if wf and len(wf[0]) >= 2:
            a = wf[0]
            if grans:
                need("fat", a[0] == grans, "write_to_fat chains %s, not the allocation list %s" % (a[0], grans))
            need_from("fat", a[1], "calculate_last_granules_sectors_used", "the sector count passed to write_to_fat is %s" % a[1])
        for fname in ("calculate_granules_needed", "calculate_last_sector_bytes_used", "calculate_last_granules_sectors_used"):
            for a in calls.get(fname, []):
                if len(a) >= 3:
                    need("length", a[0] == "%s.data" % p_file and a[1] == pre_obj and a[2] == post_obj,
                         "%s is given (%s) for a %s file; it needs the file's data, its %s and %s" % (fname, ", ".join(a), kind, pre_obj, post_obj))
        if grans:
            reorder = [e for e in events if e[0] == "call" and e[1] == grans and e[2] in ("sort", "reverse", "pop", "remove", "insert", "clear")]
            if reorder:
                need("allocation", False, "the allocation list is changed by %s.%s() between the steps that use it: the directory entry, the data and the FAT chain no longer describe the same sequence of granules"
                     % (grans, reorder[0][2]))
        order = [e[2] for e in events if e[0] == "call" and e[1] == "self" and e[2] in ("find_empty_granule", "write_to_granules", "write_to_fat")]
        if "find_empty_granule" in order and "write_to_granules" in order:
            need("allocation", order.index("find_empty_granule") < order.index("write_to_granules"), "data is written before granules are allocated")
        for aspect, arg in unsure:
            c.undecided("%s:%s" % (site, aspect), "length-argument-derivation-not-recognised", arg[:100], where)
        if not problems:
            c.ok(site, "header/trailer from the file, granules recorded, directory entry + data + FAT written from this file's values", where)
        elif notes:
            c.undecided(site, "pipeline-not-evaluable", "%s; not evaluated: %s" % (problems[0][1], "; ".join(sorted(set(notes)))[:100]), where)
        else:
            for aspect in sorted({a_ for a_, _ in problems}):
                texts = [t_ for a_, t_ in problems if a_ == aspect]
                c.finding("%s:%s" % (site, aspect), texts[0][:110], "DiskFile.add_file evaluated for a %s file: %s" % (kind, "; ".join(texts)), where)
    # an empty file still gets its directory entry, its header / trailer bytes and its FAT chain: every step runs for zero data bytes too
    for kind, t_int, d_int in (("machine-language", 0x02, 0x00), ("BASIC", 0x00, 0x00)):
        env = dict(ctx.env)
        for cn in classes + ["VirtualFileValidationError"]:
            env[cn] = ClsRef(cn)
        env.update({"%s.type.int" % p_file: t_int, "%s.data_type.int" % p_file: d_int, "%s.data" % p_file: []})
        events, notes = [], []

        def resolver2(name):
            f_ = repo.lookup(repo.cls(CLS), name)
            return f_.node if f_ is not None else None
        run_concrete(body_without_doc(flat), env, events, notes, workers=WORKERS, resolver=resolver2, functions=class_level_functions(repo))
        made = {e[2] for e in events if e[0] == "call" and e[1] == "self"}
        missing = [m_ for m_ in ("write_dir_entry", "write_to_granules", "write_to_fat") if m_ not in made]
        site = "add_file[empty %s]" % kind
        if not missing:
            c.ok(site, "directory entry, header/trailer and FAT written for a file without data", where)
        elif notes:
            c.undecided(site, "pipeline-not-evaluable", "%s not called; not evaluated: %s" % (missing, "; ".join(sorted(set(notes)))[:80]), where)
        else:
            c.finding(site, "%s is not called for a file without data" % ", ".join(missing),
                      "DiskFile.add_file evaluated for a %s file with no data bytes: %s is skipped, although the granule is allocated and entered in the directory and the FAT - "
                      "the header%s never reaches the granule, so the stored stream is not what the directory and FAT describe" % (kind, ", ".join(missing), " and trailer" if t_int == 2 else ""), where)
    # the length functions are given the header and trailer chosen for the file's kind, never a fixed kind for every file
    for f_ in repo.cls(CLS).methods.values():
        for x in ast.walk(f_.node):
            if isinstance(x, ast.Call) and U(x.func).split(".")[-1] in ("calculate_granules_needed", "calculate_last_sector_bytes_used", "calculate_last_granules_sectors_used") and len(x.args) >= 3:
                fixed = [a for a in x.args[1:3] if isinstance(a, ast.Call) and U(a.func) in ("MLPreamble", "BasicPreamble", "ASCIIPreamble", "Postamble")]
                if fixed:
                    c.finding("%s:length-kind" % f_.q, "sizes every file with %s" % ", ".join(U(a) for a in fixed),
                              "%s calls %s with %s for whatever file it is given: BASIC and ASCII files have a shorter header and no trailer, so their granule count is over-estimated "
                              "and lists that fit are refused (or, used for layout, space is wasted)" % (f_.q, U(x.func), ", ".join(U(a) for a in fixed)), repo.loc(f_, x))
    # a raising size guard must not refuse a length the format can represent (the header's length field is 16 bits: 0..65535)
    import copy as _copy

    class _LenSub(ast.NodeTransformer):
        def visit_Call(self, node):
            self.generic_visit(node)
            if U(node.func) == "len" and node.args and U(node.args[0]).endswith(".data"):
                return ast.copy_location(ast.Name(id="__len", ctx=ast.Load()), node)
            return node
    from ..consteval import fold as _fold2, NotConst as _NC3
    for n in ast.walk(flat):
        if isinstance(n, ast.If) and n.body and isinstance(n.body[-1], ast.Raise) and "len(" in U(n.test) and ".data" in U(n.test) and not any(
                isinstance(x, ast.Name) and x.id not in (p_file,) for x in ast.walk(n.test) if isinstance(x, ast.Name) and x.id not in ("len",)):
            t2 = _LenSub().visit(_copy.deepcopy(n.test))
            try:
                # an ASCII file has no length field: its size is bounded by the disk alone (68 granules), so lengths beyond 65535 are probed as well
                refused = [L for L in (0, 1, 255, 2304, 65534, 65535, 65536, 150000) if _fold2(t2, dict(ctx.env, __len=L))]
            except _NC3:
                continue
            if refused:
                c.finding("add_file:size-guard", "a file of %d bytes is refused" % refused[-1],
                          "add_file raises when `%s`, which refuses a file of %d bytes whatever its kind: the 16-bit length field of machine-language and BASIC files holds 0..65535, an ASCII "
                          "file has no length field at all, and such a file fits on an empty disk" % (U(n.test), refused[-1]),
                          repo.loc(af, n))
            else:
                c.ok("add_file:size-guard", "no representable length is refused", repo.loc(af, n))
    # the allocation loop stops at exactly the number needed
    for n in ast.walk(flat):
        if isinstance(n, ast.While) and isinstance(n.test, ast.Compare) and len(n.test.ops) == 1 and "len(" in U(n.test) and "needed" in U(n.test):
            l_is_len = "len(" in U(n.test.left)
            op = type(n.test.ops[0])
            over = (l_is_len and op is ast.LtE) or (not l_is_len and op is ast.GtE)
            under = (l_is_len and op in (ast.Gt, ast.GtE)) or (not l_is_len and op in (ast.Lt, ast.LtE))
            if over:
                c.finding("add_file:allocation-count", "allocates while %s" % U(n.test), "add_file keeps allocating while `%s`: one granule more than the file needs is taken "
                          "and marked in use" % U(n.test), repo.loc(af, n))
            elif under:
                c.finding("add_file:allocation-count", "allocates while %s" % U(n.test), "add_file allocates while `%s`, which never holds for an empty list" % U(n.test), repo.loc(af, n))
            else:
                c.ok("add_file:allocation-count", "allocates until the list holds granules_needed entries", repo.loc(af, n))


def _fold_disk_method(ctx, name, env0, args, overrides, depth=0):
    """fold DiskFile.<name> exactly over a concrete object state (env0: 'self.x' -> value, mutable values shared); calls of sibling methods are
    folded the same way unless `overrides` gives a stand-in"""
    from ..consteval import fold_body
    if depth > 6:
        raise NotConst("method recursion")
    repo = ctx.repo
    fn = repo.method(CLS, name)
    params = [p for p in fn.params if p not in ("self", "cls")]
    env = dict(env0)
    for p_, a in zip(params, args):
        env[p_] = a

    class Calls(dict):
        def __contains__(self, key):
            if not isinstance(key, str) or key.count(".") != 1:
                return False
            recv, nm = key.split(".")
            return recv in ("self", "cls", CLS) and (nm in overrides or repo.lookup(repo.cls(CLS), nm) is not None)

        def __getitem__(self, key):
            nm = key.split(".")[1]
            if nm in overrides:
                return overrides[nm]
            return lambda *a, **kw: _fold_disk_method(ctx, nm, env0, a, overrides, depth + 1)

        def __bool__(self):
            return True
    return fold_body(body_without_doc(fn.node), env, calls=Calls(), ctors=("MLPreamble", "ASCIIPreamble", "BasicPreamble", "Postamble", "NumericValue"))


class _SparseBuf(dict):
    def __missing__(self, k):
        return 0xFF


def dsk8_fit(ctx, c):
    """add_file folded exactly on model disks: a file that needs n granules is stored in exactly n free granules when n <= F free ones exist (n = F included),
    and refused when n > F; n is the minimum for the stream (header + data + trailer)."""
    from ..consteval import Raised
    repo = ctx.repo
    af = repo.method(CLS, "add_file")
    where = repo.loc(af, af.node)
    p_file = [p for p in af.params if p != "self"][0]
    fat = D.FAT_OFFSET

    def run(free, kind, L, n_given):
        buf = _SparseBuf()
        for g in range(D.GRANULES):
            buf[fat + g] = 0xFF if g in free else 0xC1
        rec = {}
        ov = {"find_empty_directory_entry": lambda *a: 0,
              "write_dir_entry": lambda *a: rec.setdefault("dir", a), "write_to_granules": lambda *a: rec.setdefault("gran", a),
              "write_to_fat": lambda *a: rec.setdefault("fat", a)}
        if n_given is not None:
            ov.update({"calculate_granules_needed": lambda *a: n_given, "calculate_last_sector_bytes_used": lambda *a: 1, "calculate_last_granules_sectors_used": lambda *a: 1})
        t_int, d_int, pre, post = {"ML": (2, 0, 5, 5), "ASCII": (1, 0xFF, 0, 0), "BASIC": (0, 0, 3, 0)}[kind]
        env0 = dict(ctx.env)
        env0.update({"self.buffer": buf, "self.granule_fill_order": list(range(D.GRANULES)), "%s.type.int" % p_file: t_int, "%s.data_type.int" % p_file: d_int,
                     "%s.data" % p_file: [0] * L, "%s.load_addr" % p_file: "<load>", "%s.exec_addr" % p_file: "<exec>",
                     "preamble.length": pre, "postamble.length": post})
        try:
            _fold_disk_method(ctx, "add_file", env0, ("<file>",), ov)
        except Raised as e:
            return ("refused", e.name, {g: buf[fat + g] for g in range(D.GRANULES)})
        lst = rec.get("fat", (None,))[0]
        return ("stored", list(lst) if isinstance(lst, (list, tuple)) else None, rec)
    bad, und = [], None
    try:
        for free, n in (([5, 40, 67], 3), ([5, 40, 67], 2), ([12], 1), (list(range(68)), 68), ([5, 40, 67], 4), ([], 1)):
            r = run(set(free), "ASCII", 10, n)
            fits = n <= len(free)
            label = "%d granule(s) needed, %d free" % (n, len(free))
            if fits and r[0] == "refused":
                bad.append(("fit", "a file that needs %d granule(s) is refused (%s) on a disk with %d free" % (n, r[1], len(free))))
            elif fits and (r[1] is None or len(r[1]) != n or len(set(r[1])) != n or not set(r[1]) <= set(free)):
                bad.append(("fit", "%s: the chain written is %s (free were %s)" % (label, r[1], sorted(free)[:6])))
            elif not fits and r[0] != "refused":
                bad.append(("refusal", "%s: the file is stored in %s" % (label, r[1])))
            elif not fits:
                # a refusal leaves every granule that belonged to a file before still marked as taken
                freed = sorted(g for g, v in r[2].items() if g not in free and v == 0xFF)
                if freed:
                    bad.append(("refusal", "%s: after the refusal granule(s) %s, in use before the call, are marked free" % (label, freed[:6])))
        for kind, pre, post in (("ML", 5, 5), ("BASIC", 3, 0), ("ASCII", 0, 0)):
            G = D.GRANULE_LEN
            for L in sorted({0, 10, G - pre - post - 1, G - pre - post, G - pre - post + 1, G - pre - 3, G - pre, G, 2 * G - pre - post - 1, 2 * G - pre - post}):
                if L < 0:
                    continue
                stream = L + pre + post
                want = stream // G + 1
                r = run(set(range(68)), kind, L, None)
                if r[0] == "refused":
                    bad.append(("minimum", "a %s file of %d bytes is refused (%s) on an empty disk" % (kind, L, r[1])))
                elif r[1] is None or len(r[1]) != want:
                    bad.append(("minimum", "a %s file of %d data bytes (stream %d) is given %s granule(s), it needs %d" % (kind, L, stream, len(r[1]) if r[1] is not None else "?", want)))
    except NotConst as e:
        und = str(e)
    except Exception as e:
        und = "%s: %s" % (type(e).__name__, e)
    if und:
        c.undecided("add_file:allocation:fit", "not-foldable", und[:120], where)
        return
    seen = set()
    for aspect, text in bad:
        if aspect in seen:
            continue
        seen.add(aspect)
        c.finding("add_file:allocation:%s" % aspect, text[:110], "DiskFile.add_file folded on model disks: %s" % text, where)
    for aspect in ("fit", "refusal", "minimum"):
        if aspect not in seen:
            c.ok("add_file:allocation:%s" % aspect, "folded on model disks", where)


def dsk8_all(ctx, c):
    dsk8(ctx, c)
    dsk8_fit(ctx, c)


RULES = {"DSK-8": dsk8_all, "DSK-13": dsk13, "VF-6": vf6, "DSK-1": dsk1, "DSK-2": dsk2, "DSK-3": dsk3, "DSK-4": dsk4, "DSK-6": dsk6, "DSK-7": dsk7, "DSK-12": dsk12}



def _eval_write_to_granules(ctx, c, fn, where, params):
    """write_to_granules evaluated in the length domain: the data is a sequence of known length, granules are laid at fake addresses
    g * 100000, the workers that move the pointer return pointer + length.  Returns True when every configuration was evaluated."""
    from ..concrete import Obj, Seq, ClsRef, Desc, run_concrete, show
    repo = ctx.repo
    G = D.GRANULE_LEN
    SPAN = 100000

    def resolver(name):
        f_ = repo.lookup(repo.cls(CLS), name)
        return f_.node if f_ is not None else None
    p_data, p_gran, p_pre, p_post = params[:4]
    results = []
    all_notes = []
    for kind, pre_len, has_post in (("ML", 5, True), ("BASIC", 3, False), ("ASCII", 0, False)):
        cap0 = G - pre_len
        for L in sorted({0, 1, cap0 - 6, cap0 - 5, cap0 - 4, cap0 - 1, cap0, cap0 + 1, cap0 + G - 1, cap0 + G, cap0 + G + 1, 5000}):
            if L < 0:
                continue
            grans = [10, 30, 2, 67]
            pre = Obj("Preamble", label="<preamble>")
            pre.attrs["length"] = pre_len
            post = None
            if has_post:
                post = Obj("Postamble", label="<postamble>")
                post.attrs["length"] = 5
            writes = []

            def wb(avals, _w=writes):
                ptr, seq = avals[0], avals[1]
                n_ = seq.length if isinstance(seq, Seq) else (len(seq) if isinstance(seq, (list, tuple)) else None)
                _w.append(("data", ptr, seq))
                return ptr + n_ if isinstance(ptr, int) and n_ is not None else Desc("pointer")

            def hw(r, avals, _w=writes):
                ptr = avals[1] if len(avals) > 1 else None
                _w.append(("pre" if r is pre else "post", ptr, r.attrs.get("length")))
                return ptr + r.attrs.get("length", 0) if isinstance(ptr, int) else Desc("pointer")
            hooks = {("self", "seek_granule"): lambda a: a[0] * SPAN if a and isinstance(a[0], int) else Desc("seek"),
                     ("self", "write_bytes_to_buffer"): wb, ("*", "write"): hw}
            env = dict(ctx.env)
            env.update({p_data: Seq(L), p_gran: list(grans), p_pre: pre if pre_len else (pre if kind != "ASCII" else pre), p_post: post, "self.buffer": Desc("self.buffer")})
            if kind == "ASCII":
                # an ASCII file has a preamble object of length 0
                pass
            for extra in params[4:]:
                pass
            defaults = fn.node.args.defaults
            allp = [a.arg for a in fn.node.args.args if a.arg != "self"]
            for p_, d_ in zip(allp[len(allp) - len(defaults):], defaults):
                v_ = try_fold(d_, ctx.env)
                env.setdefault(p_, v_)
            events, notes = [], []
            end = run_concrete(body_without_doc(fn.node), env, events, notes, workers=("seek_granule", "write_bytes_to_buffer"), resolver=resolver, hooks=hooks)
            all_notes += notes
            results.append((kind, pre_len, has_post, L, writes, end))
    if all_notes:
        return False
    problems = {}
    spill_max = {}

    def note(site, fact, text):
        problems.setdefault(site, (fact, text))
    for kind, pre_len, has_post, L, writes, end in results:
        tag = "%s file of %d data bytes" % (kind, L)
        if end and end.startswith("raise"):
            note("write_to_granules:continuity", "ends in %s" % end, "%s: write_to_granules ends in %s" % (tag, end))
            continue
        pos = 0
        stream_ = 0
        order = []
        for w in writes:
            if not isinstance(w[1], int):
                note("write_to_granules:granule", "write position not derived from seek_granule", "%s: a write goes to %s" % (tag, show(w[1])))
                continue
            g_, off = divmod(w[1], 100000)
            order.append(g_)
            # the file is ONE byte stream over its chain (that is how a reader takes it: whole granules, then the sectors of the last): every piece starts where the
            # previous one ended, counted along the chain - a piece moved to the next granule while the current one is not full leaves a hole in the stream
            size_ = (w[2].length if hasattr(w[2], "length") else 0) if w[0] == "data" else (w[2] or 0)
            if g_ in (10, 30, 2, 67) and size_ and off <= D.GRANULE_LEN:
                chain_pos = [10, 30, 2, 67].index(g_) * D.GRANULE_LEN + off
                if chain_pos != stream_:
                    note("write_to_granules:stream", "the %s is written %d bytes %s where the stream has got to" % (
                        {"pre": "header", "data": "data", "post": "trailer"}[w[0]], abs(chain_pos - stream_), "after" if chain_pos > stream_ else "before"),
                         "%s: the %s goes to granule %d offset %d, i.e. byte %d of the chain, while %d bytes have been written: a reader takes the chain as one stream and finds %s"
                         % (tag, {"pre": "header", "data": "data", "post": "trailer"}[w[0]], g_, off, chain_pos, stream_,
                            "the unwritten rest of the granule in between" if chain_pos > stream_ else "the piece over earlier bytes"))
            stream_ += size_
            if w[0] == "pre":
                if (g_, off) != (10, 0):
                    note("write_to_granules:preamble", "the header is written at granule %d offset %d" % (g_, off), "%s: the header goes to granule %d offset %d, not the start of the first granule" % (tag, g_, off))
            elif w[0] == "data":
                seq = w[2]
                n_ = seq.length if hasattr(seq, "length") else 0
                start = seq.start if hasattr(seq, "start") else None
                if n_ and start != pos:
                    note("write_to_granules:continuity", "a chunk starts at data offset %s where %d is next" % (start, pos),
                         "%s: the chunk written to granule %d starts at data offset %s; %d bytes were written before it" % (tag, g_, start, pos))
                if off + n_ > D.GRANULE_LEN:
                    note("write_to_granules:capacity", "a chunk of %d bytes at offset %d overruns the granule by %d" % (n_, off, off + n_ - D.GRANULE_LEN),
                         "%s: %d bytes are written at offset %d of granule %d, %d more than the granule holds: they land in the next granule on the disk, which belongs to another file or to nobody"
                         % (tag, n_, off, g_, off + n_ - D.GRANULE_LEN))
                want_off = pre_len if (g_ == 10) else 0
                if n_ and off != want_off:
                    note("write_to_granules:preamble" if g_ == 10 else "write_to_granules:granule", "data starts at offset %d of granule %d" % (off, g_),
                         "%s: data is written at offset %d of granule %d (expected %d: %s)" % (tag, off, g_, want_off, "right behind the header" if g_ == 10 else "the start of the granule"))
                pos += n_
            elif w[0] == "post":
                if off + (w[2] or 0) > D.GRANULE_LEN:
                    if L <= D.GRANULE_LEN - pre_len:
                        spill_max[kind] = max(spill_max.get(kind, -1), L)
                    else:
                        spill_max.setdefault(kind, -1)
                if pos != L:
                    note("write_to_granules:trailer-order", "the trailer is written after %d of %d data bytes" % (pos, L), "%s: the trailer is written before all data" % tag)
        if pos != L:
            note("write_to_granules:continuity", "%d of %d data bytes are written" % (pos, L), "%s: only %d bytes are written" % (tag, pos))
        if has_post and sum(1 for w in writes if w[0] == "post") != 1:
            note("write_to_granules:recursion", "the trailer is written %d times" % sum(1 for w in writes if w[0] == "post"), "%s: the trailer must be written exactly once, after the data" % tag)
        # granules are used in list order, each at most once for data
        seqg = []
        for g_ in order:
            if not seqg or seqg[-1] != g_:
                seqg.append(g_)
        if seqg != [10, 30, 2, 67][:len(seqg)]:
            note("write_to_granules:granule", "granules used in order %s" % seqg, "%s: the chunks go to granules %s; the allocation list is [10, 30, 2, 67]" % (tag, seqg))
    for site in ("write_to_granules:capacity", "write_to_granules:preamble", "write_to_granules:granule", "write_to_granules:continuity", "write_to_granules:recursion",
                 "write_to_granules:stream"):
        if site in problems:
            c.finding(site, problems[site][0][:110], "write_to_granules evaluated over data lengths around the granule boundaries: %s" % problems[site][1], where)
        else:
            c.ok(site, "decided by evaluation over %d (file kind, length) configurations" % len(results), where)
    if "write_to_granules:trailer-order" in problems:
        c.finding("write_to_granules:trailer-order", problems["write_to_granules:trailer-order"][0], problems["write_to_granules:trailer-order"][1], where)
    # the recorded defect: the trailer is put right behind the data even when fewer than 5 bytes of the granule are left
    if spill_max:
        cap0 = D.GRANULE_LEN - 5
        maxdata = "capacity - 1" if spill_max.get("ML") == cap0 - 1 else ("capacity" if spill_max.get("ML") == cap0 else str(spill_max.get("ML")))
        c.finding("write_to_granules:trailer", "data of up to %s bytes fits; the 5-byte trailer is written right behind it with no check against the granule end" % maxdata,
                  "write_to_granules puts the whole data into the granule when it is shorter than the room left and then writes the postamble at the following bytes: "
                  "when fewer than 5 bytes are left the trailer spills past the granule into bytes that belong to no chain granule "
                  "(a 4600-byte ML file puts its last two trailer bytes at 78336-78337; 4603 bytes do not read back)", where)
    else:
        c.ok("write_to_granules:trailer", "the trailer never crosses the end of a granule", where)
    exact = [r for r in results if r[0] == "ML" and r[3] == D.GRANULE_LEN - 5]
    if exact:
        data_gr = {divmod(w[1], 100000)[0] for w in exact[0][4] if w[0] == "data" and isinstance(w[1], int) and getattr(w[2], "length", 0)}
        post_gr = {divmod(w[1], 100000)[0] for w in exact[0][4] if w[0] == "post" and isinstance(w[1], int)}
        if post_gr and data_gr and post_gr == {10}:
            c.finding("write_to_granules:fit", "fit test uses LtE", "write_to_granules treats data that exactly fills the granule as fitting: the trailer then starts at the first byte "
                      "after the granule, which is the next chain granule only by accident", where)
        else:
            c.ok("write_to_granules:fit", "a chunk that exactly fills the granule continues in the next one", where)
    return True

def dsk5(ctx, c):
    """DSK-5 granule-bounded placement of data and trailer; DSK-11 chunk continuity writer/reader; DSK-8 empty files."""
    repo = ctx.repo
    fn = repo.method(CLS, "write_to_granules")
    where = repo.loc(fn, fn.node)
    params = [p for p in fn.params if p != "self"]
    p_data, p_gran, p_pre, p_post = params[:4]
    writer_decided = _eval_write_to_granules(ctx, c, fn, where, params)
    if writer_decided:
        _dsk5_reader(ctx, c)
        return
    fit = None
    for n in body_without_doc(fn.node):
        if isinstance(n, ast.If) and isinstance(n.test, ast.Compare) and U(n.test.left) == "len(%s)" % p_data:
            fit = n
    if fit is None:
        # a fit test over something else than the data length alone: compare with the reader, which splits on the data length alone
        alt = next((n for n in body_without_doc(fn.node) if isinstance(n, ast.If) and isinstance(n.test, ast.Compare) and "len(%s)" % p_data in U(n.test.left)), None)
        if alt is not None:
            names = {x.id for x in ast.walk(alt.test) if isinstance(x, ast.Name)}
            deps = set()
            for n in ast.walk(fn.node):
                if isinstance(n, ast.Assign) and isinstance(n.targets[0], ast.Name) and n.targets[0].id in names:
                    deps |= {x.id for x in ast.walk(n.value) if isinstance(x, ast.Name)}
            if p_post in names | deps:
                rd_ = repo.method(CLS, "read_data")
                if p_post not in U(rd_.node) and "postamble" not in U(rd_.node):
                    c.finding("write_to_granules:split", "the writer's split depends on the trailer (%s), the reader's does not" % U(alt.test),
                              "write_to_granules decides whether a file ends in this granule with `%s`, which involves the trailer, while read_data/list_files split on the data length alone and look for "
                              "the trailer right behind the data: files whose trailer would straddle a granule end are written one way and read another" % U(alt.test), repo.loc(fn, alt))
                    return
        c.undecided("write_to_granules", "fit-test-not-found", "", where)
        return
    op = type(fit.test.ops[0]).__name__
    cap = U(fit.test.comparators[0]).strip("()")
    want_cap = "DiskConstants.HALF_TRACK_LEN - skip_bytes"
    c.check(cap == want_cap, "write_to_granules:capacity", "capacity = granule length - bytes already used by the preamble", "capacity %s" % cap,
            "write_to_granules compares the data length with %s; the room left in the granule is HALF_TRACK_LEN - skip_bytes" % cap, repo.loc(fn, fit))
    # skip_bytes = preamble.length on the first granule only
    t = U(fn.node)
    good = re.search(r"skip_bytes = 0\s+if first_granule and %s:\s+pointer = %s\.write\(self\.buffer, pointer\)\s+skip_bytes \+= %s\.length" % (p_pre, p_pre, p_pre), t) is not None
    if good:
        c.ok("write_to_granules:preamble", "preamble written at the start of the first granule and counted in skip_bytes", where)
    else:
        # the header is written into the granule (a .write call on it) - is its length taken off the room left?
        writes_pre = any(isinstance(n, ast.Call) and U(n.func) == "%s.write" % p_pre for n in ast.walk(fn.node))
        cap_vars = {x.id for x in ast.walk(fit.test.comparators[0]) if isinstance(x, ast.Name)} - {p_data}
        defs = [n for n in ast.walk(fn.node) if isinstance(n, (ast.Assign, ast.AugAssign)) and
                U(n.targets[0] if isinstance(n, ast.Assign) else n.target) in cap_vars]
        counted = any("length" in U(n.value) for n in defs) or ".length" in U(fit.test)
        if writes_pre and cap_vars and defs and not counted:
            c.finding("write_to_granules:preamble", "the header is written into the granule but its length is not taken off the room left",
                      "write_to_granules writes the preamble at the start of the first granule, yet %s is only ever %s: the first granule then receives a full granule of data behind the "
                      "header and the last %s bytes land in the following granule" % (sorted(cap_vars)[0], sorted({U(n.value) for n in defs}), "header-length"), where)
        else:
            c.undecided("write_to_granules:preamble", "shape-unknown", "", where)
    start = re.search(r"granule = %s\[0\]\s+%s = %s\[1:\]\s+pointer = self\.seek_granule\(granule\)" % (p_gran, p_gran, p_gran), t) is not None
    c.check(start, "write_to_granules:granule", "writes into the head of the allocation list and passes the tail on", "shape changed",
            "write_to_granules does not take allocated_granules[0] for this chunk and pass allocated_granules[1:] on", where)
    # else arm: slice written == slice passed on == capacity
    arm = fit.orelse
    wrote = [n for n in ast.walk(ast.Module(body=arm, type_ignores=[])) if isinstance(n, ast.Call) and U(n.func) == "self.write_bytes_to_buffer"]
    rec = [n for n in ast.walk(ast.Module(body=arm, type_ignores=[])) if isinstance(n, ast.Call) and U(n.func) == "self.write_to_granules"]
    if len(wrote) == 1 and len(rec) == 1:
        ws = U(wrote[0].args[1])
        rs = U(rec[0].args[0])
        good = ws == "%s[:%s]" % (p_data, cap) and rs == "%s[%s:]" % (p_data, cap)
        c.check(good, "write_to_granules:continuity", "writes data[:capacity], continues with data[capacity:]", "writes %s, continues with %s" % (ws, rs),
                "write_to_granules writes %s into this granule and continues with %s; both must split at the capacity %s" % (ws, rs, cap), repo.loc(fn, rec[0]))
        rest = [U(a) for a in rec[0].args[1:]] + ["%s=%s" % (k.arg, U(k.value)) for k in rec[0].keywords]
        good = rest == [p_gran, "None", p_post, "first_granule=False"]
        c.check(good, "write_to_granules:recursion", "continues with the remaining granules, no preamble, the same postamble", "continues with %s" % rest,
                "write_to_granules continues with (%s); the next chunk goes to the remaining granules without a preamble and carries the postamble on" % ", ".join(rest), repo.loc(fn, rec[0]))
    else:
        c.undecided("write_to_granules:continuity", "else-arm-shape-unknown", "", repo.loc(fn, fit))
    # fits arm: trailer right after the data with no relation to the granule end (recorded defect), keyed by the fit operator
    fitbody = U(ast.Module(body=fit.body, type_ignores=[]))
    trailer_after = re.search(r"pointer = self\.write_bytes_to_buffer\(pointer, %s\)\s+if %s:\s+%s\.write\(self\.buffer, pointer\)" % (p_data, p_post, p_post), fitbody) is not None
    guarded = any(isinstance(n, ast.If) and "length" in U(n.test) and n is not fit for n in ast.walk(fit) if isinstance(n, ast.If) and n is not fit and U(n.test) != p_post)
    if trailer_after and not guarded:
        maxdata = "capacity - 1" if op == "Lt" else ("capacity" if op == "LtE" else op)
        c.finding("write_to_granules:trailer", "data of up to %s bytes fits; the 5-byte trailer is written right behind it with no check against the granule end" % maxdata,
                  "write_to_granules puts the whole data into the granule when len(data) %s capacity and then writes the postamble at the following bytes: "
                  "when fewer than 5 bytes are left the trailer spills past the granule into bytes that belong to no chain granule "
                  "(a 4600-byte ML file puts its last two trailer bytes at 78336-78337; 4603 bytes do not read back)" % {"Lt": "<", "LtE": "<="}.get(op, op), repo.loc(fn, fit))
    elif trailer_after:
        c.ok("write_to_granules:trailer", "trailer placement is guarded", repo.loc(fn, fit))
    else:
        c.undecided("write_to_granules:trailer", "fits-arm-shape-unknown", "", repo.loc(fn, fit))
    c.check(op == "Lt", "write_to_granules:fit", "a chunk that exactly fills the granule continues in the next one", "fit test uses %s" % op,
            "write_to_granules treats data that exactly fills the granule as fitting (%s): the trailer then starts at the first byte after the granule, which is the next chain granule only by accident" % op,
            repo.loc(fn, fit))
    _dsk5_reader(ctx, c)


def _dsk5_reader(ctx, c):
    repo = ctx.repo
    # reader capacity and link
    rd = repo.method(CLS, "read_data")
    wr_ = repo.loc(rd, rd.node)
    t = U(rd.node)
    good = re.search(r"chunk_size = DiskConstants\.HALF_TRACK_LEN", t) and re.search(r"if preamble:\s+pointer \+= preamble\.length\s+chunk_size -= preamble\.length", t)
    adj = None
    for n_ in ast.walk(rd.node):
        if isinstance(n_, ast.If) and "preamble" in U(n_.test):
            incs = [x for x in n_.body if isinstance(x, ast.AugAssign) and isinstance(x.op, ast.Add) and "pointer" in U(x.target)]
            decs = [x for x in n_.body if isinstance(x, ast.AugAssign) and isinstance(x.op, ast.Sub) and "chunk" in U(x.target)]
            if len(incs) == 1 and len(decs) == 1:
                adj = (U(incs[0].value), U(decs[0].value), n_)
    if adj and adj[0] != adj[1]:
        c.finding("read_data:capacity", "the pointer moves by %s, the room left shrinks by %s" % (adj[0], adj[1]),
                  "read_data steps over the header by `%s` but takes `%s` off the room left in the first granule: for header kinds where the two differ the reader changes granule "
                  "too early or too late and every byte after the first granule is misplaced" % (adj[0], adj[1]), repo.loc(rd, adj[2]))
    else:
        c.shape(bool(good), "read_data:capacity", "first-granule capacity = granule length - preamble length (as the writer)", "capacity computation not recognised", wr_)
    multi = next((n for n in ast.walk(rd.node) if isinstance(n, ast.If) and isinstance(n.test, ast.Compare) and "chunk_size" in U(n.test)), None)
    if multi is None:
        c.undecided("read_data:split", "split-test-not-found", "", wr_)
    else:
        opr = type(multi.test.ops[0]).__name__
        tt = U(multi.test)
        if tt in ("data_length > chunk_size", "data_length >= chunk_size", "chunk_size < data_length"):
            c.ok("read_data:split", "continues in the next granule when more than the capacity remains", repo.loc(rd, multi))
            loops = [n for n in multi.body if isinstance(n, ast.For)]
            cnt = U(loops[0].iter) if loops else ""
            if not loops:
                c.undecided("read_data:chunk", "copy-loop-not-recognised", "", repo.loc(rd, multi))
            else:
                c.check(cnt == "range(chunk_size)", "read_data:chunk", "reads exactly the capacity from this granule", "reads %s" % cnt, "read_data reads %s bytes from a full granule" % cnt, repo.loc(rd, multi))
        elif tt in ("data_length < chunk_size",):
            c.finding("read_data:split", "split test %s" % tt, "read_data treats data that exactly fills the granule as continuing (`%s`)" % tt, repo.loc(rd, multi))
        else:
            c.undecided("read_data:split", "split-test-not-recognised", tt, repo.loc(rd, multi))
        recs = [n for n in ast.walk(multi) if isinstance(n, ast.Call) and U(n.func) == "self.read_data"]
        if recs:
            args = [U(a) for a in recs[0].args] + ["%s=%s" % (k.arg, U(k.value)) for k in recs[0].keywords]
            good = len(args) >= 3 and args[2] == "None" and "data_length=data_length" in args
            c.check(good, "read_data:recursion", "next granule, no preamble, remaining length", "continues with %s" % args, "read_data continues with (%s)" % ", ".join(args), repo.loc(rd, recs[0]))
            dec = any(isinstance(n, ast.AugAssign) and U(n.target) == "data_length" and isinstance(n.op, ast.Sub) and U(n.value) in ("1", "chunk_size") for n in ast.walk(multi))
            c.check(dec, "read_data:remaining", "remaining length decreases by what was read", "no decrement", "read_data does not reduce the remaining length by the bytes read", repo.loc(rd, multi))
    # the postamble is read at the pointer returned by read_data (right after the data): same contiguity assumption as the writer
    lf = repo.method(CLS, "list_files")
    for n_ in ast.walk(lf.node):
        if isinstance(n_, ast.Assign) and "post" in U(n_.targets[0]).lower() and "seek_granule" in U(n_.value) and ("length" in U(n_.value) or "len(" in U(n_.value)):
            c.finding("list_files:trailer-position", "the trailer is looked for at first granule + header + data length",
                      "list_files computes the position of the postamble as `%s`: that is where it would be if the file occupied one contiguous run of bytes; granules of a file are "
                      "wherever the fill order put them (and the directory track lies between granules 33 and 34), so files of more than one granule do not list" % U(n_.value)[:80],
                      repo.loc(lf, n_))
    if re.search(r"postamble\.read\(self\.buffer, post_pointer\)", U(lf.node)) and re.search(r"return \(?file_data, pointer\)?", t):
        c.finding("list_files:trailer", "trailer read right behind the last data byte, wherever that is",
                  "list_files reads the postamble at the position following the last data byte; when the data ends at a granule end the trailer lives in the next chain granule, "
                  "which is not the physically next one in general (a 4603-byte file does not read back)", repo.loc(lf, lf.node))
    # DSK-8: stored length 0 means unknown to the reader, but the writer stores len(data)
    if re.search(r"if data_length == 0:\s+data_length = self\.calculate_file_length", U(lf.node)):
        af = repo.method(CLS, "add_file")
        if re.search(r"preamble\.data_length = NumericValue\(len\(coco_file\.data\)\)", U(af.node)):
            c.finding("list_files:length-zero", "a stored length of 0 is taken as unknown and recomputed from the FAT including header and trailer",
                      "the writer stores len(data) in the header, the reader treats 0 as 'unknown' and derives the length from the FAT and directory, which count the header and trailer: "
                      "an empty machine-language file cannot be read back", repo.loc(lf, lf.node))
    # the directory scan visits all 72 entries: entries in use may follow a free one (00 deleted, FF never used - both are
    # handed out first-fit by find_empty_directory_entry), so stopping at a free entry hides the files behind it
    for n in ast.walk(lf.node):
        if isinstance(n, ast.For) and isinstance(n.iter, ast.Call) and U(n.iter.func) == "range" and any(
                isinstance(x, ast.Subscript) and U(x.value) == "self.buffer" for x in ast.walk(n)):
            inner = [x for x in ast.walk(n) if isinstance(x, (ast.For, ast.While)) and x is not n]
            exits = [x for x in ast.walk(n) if isinstance(x, (ast.Break, ast.Return)) and not any(x in list(ast.walk(i)) for i in inner)]
            if exits:
                c.finding("list_files:scan", "the directory scan stops early",
                          "list_files leaves the loop over the directory entries with `%s`: entries in use behind that point are never listed or extracted" % U(exits[0]),
                          repo.loc(lf, exits[0]))
            else:
                c.ok("list_files:scan", "every entry is visited", repo.loc(lf, n))
            # ... and as many entries as the writer may fill: find_empty_directory_entry hands out the slots of its own range
            rv_ = [try_fold(a_, ctx.env) for a_ in n.iter.args]
            fe_ = repo.method(CLS, "find_empty_directory_entry")
            wr_ = None
            for lp_ in [x for x in ast.walk(fe_.node) if isinstance(x, (ast.For, ast.ListComp, ast.GeneratorExp))]:
                its_ = [lp_.iter] if isinstance(lp_, ast.For) else [g_.iter for g_ in lp_.generators]
                for it_ in its_:
                    if isinstance(it_, ast.Call) and U(it_.func) == "range":
                        vv = [try_fold(a_, ctx.env) for a_ in it_.args]
                        if all(isinstance(v_, int) for v_ in vv):
                            wr_ = vv[-1] if len(vv) <= 2 else None
            if all(isinstance(v_, int) for v_ in rv_) and len(rv_) <= 2 and wr_ is not None:
                scanned_ = rv_[-1] - (rv_[0] if len(rv_) == 2 else 0)
                c.check(scanned_ >= wr_, "list_files:scan-count", "reads at least the %d slots the writer may fill" % wr_, "reads %d directory entries, the writer fills slots 0..%d" % (scanned_, wr_ - 1),
                        "list_files reads %d directory entries but find_empty_directory_entry hands out slots 0..%d: a file whose entry lies beyond the scan is not listed when the image is "
                        "re-opened, and --append (list, add, rebuild) then drops it for good" % (scanned_, wr_ - 1), repo.loc(lf, n))
            break
    # an entry that is in use and cannot be read is an error, not something to step over: get_coco_files tells a disk from other bytes by exactly that error, so a
    # reader that skips implausible entries accepts a long cassette image (or any 161,280 bytes) as a disk, or dies later on bytes it was never meant to see
    for n in ast.walk(lf.node):
        if isinstance(n, ast.If) and any(isinstance(x, ast.Continue) for x in n.body) and not any(isinstance(x, ast.Raise) for x in ast.walk(n)):
            cmps = [x for x in ast.walk(n.test) if isinstance(x, ast.Compare) and isinstance(x.ops[0], (ast.Gt, ast.GtE, ast.Lt, ast.LtE, ast.NotIn, ast.In)) and re.search(r"\.int\b", U(x))]
            if cmps:
                c.finding("list_files:skips-unreadable", "an entry in use is skipped when `%s`" % U(n.test)[:50],
                          "list_files steps over a directory entry when `%s` instead of refusing the image: an implausible entry is how bytes that are not a disk are recognised "
                          "(VirtualFile.get_coco_files falls through to the cassette reader on that error), so such bytes are now listed as a disk - or end in an unrelated exception" % U(n.test)[:70],
                          repo.loc(lf, n))
    from .cas import listing_collection
    listing_collection(c, repo, CLS)
    # the FAT chain links the granules in the order the data was laid into them
    af = repo.method(CLS, "add_file")
    wg = [n for n in ast.walk(af.node) if isinstance(n, ast.Call) and U(n.func) == "self.write_to_granules" and len(n.args) >= 2]
    wf = [n for n in ast.walk(af.node) if isinstance(n, ast.Call) and U(n.func) == "self.write_to_fat" and n.args]
    if len(wg) == 1 and len(wf) == 1:
        a, b = wg[0].args[1], wf[0].args[0]
        reorder = lambda e: (isinstance(e, ast.Call) and U(e.func) in ("sorted", "reversed", "set", "list", "tuple", "frozenset") and e.args and U(e.func) not in ("list", "tuple")) or \
            (isinstance(e, ast.Call) and U(e.func) in ("list", "tuple") and e.args and isinstance(e.args[0], ast.Call) and U(e.args[0].func) in ("sorted", "reversed", "set")) or \
            (isinstance(e, ast.Subscript) and isinstance(e.slice, ast.Slice) and e.slice.step is not None)
        if U(a) == U(b):
            c.ok("add_file:chain-order", "data and FAT chain use the same granule list", repo.loc(af, wf[0]))
        elif reorder(a) != reorder(b) and (U(a) in U(b) or U(b) in U(a)):
            c.finding("add_file:chain-order", "the data is laid out over %s, the FAT chain over %s" % (U(a), U(b)),
                      "add_file writes the data into the granules in the order of `%s` and links them in the FAT in the order of `%s`: when the allocation order is not ascending "
                      "the chain visits the pieces of the file in another order than they were written" % (U(a), U(b)), repo.loc(af, wf[0]))
        else:
            c.undecided("add_file:chain-order", "granule-list-arguments-differ", "%s / %s" % (U(a), U(b)), repo.loc(af, wf[0]))


RULES["DSK-5"] = dsk5
